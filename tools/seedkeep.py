#!/usr/bin/env python3
"""usage: tools/seedkeep.py <Cxx> <k> [--src DIR]
Keeps a CONFIRMED seeded defect as /verif/seeded/<Cxx>-<k>/{patch.diff, demo.rs, notes.md, meta.json}
from the sub-agent's output directory and the confirmation record written by seedconfirm.py."""
import sys, os, json, shutil, re

pid, k = sys.argv[1], sys.argv[2]
src = sys.argv[sys.argv.index("--src") + 1] if "--src" in sys.argv else "/tmp/seed-%s/_out" % pid
name = sys.argv[sys.argv.index("--as") + 1] if "--as" in sys.argv else k
res = {}
for suffix in ("", "-thorough"):
    p = "/verif/.cache/seedres/%s-%s%s.json" % (pid, name, suffix)
    if os.path.exists(p):
        res[suffix or "quick"] = json.load(open(p))
q = res.get("quick") or next(iter(res.values()))
ok = q.get("demo_passes_without") and q.get("patch_applies") and q.get("demo_fails_with") and q.get("suite_passes_with")
if not ok:
    print("NOT confirmed, not kept:", {x: q.get(x) for x in ("demo_passes_without", "patch_applies", "demo_fails_with", "suite_passes_with")})
    sys.exit(1)
dst = "/verif/seeded/%s-%s" % (pid, name)
os.makedirs(dst, exist_ok=True)
shutil.copy(os.path.join(src, "patch%s.diff" % k), os.path.join(dst, "patch.diff"))
shutil.copy(os.path.join(src, "demo%s.rs" % k), os.path.join(dst, "demo.rs"))
notes = open(os.path.join(src, "notes%s.md" % k)).read()
open(os.path.join(dst, "notes.md"), "w").write(notes)


def section(rx):
    m = re.search(rx, notes, re.I | re.S)
    return re.sub(r"\s+", " ", m.group(1)).strip()[:700] if m else ""


meta_path = os.path.join(dst, "meta.json")
meta = json.load(open(meta_path)) if os.path.exists(meta_path) else {}
meta.update({
    "id": "%s-%s" % (pid, name),
    "breaks_property": pid,
    "origin": "independent sub-agent given only the property text and a scratch worktree of /repo (nothing from /verif)",
    "files_touched": sorted(set(re.findall(r"^\+\+\+ b/(\S+)", open(os.path.join(dst, "patch.diff")).read(), re.M))),
    "summary": meta.get("summary") or section(r"(?:clause|breaks)[^\n]*\n(.*?)(?:\n#|\n\n\n|$)") or notes[:500],
    "needs_to_manifest": meta.get("needs_to_manifest") or section(r"(?:needs|manifest)[^\n]*\n(.*?)(?:\n#|$)"),
    "confirmed_by_me": {
        "how": "tools/seedconfirm.py in the scratch worktree: demo passes on the unchanged tree; `git apply patch.diff`; "
               "`cargo test --workspace --offline` and `cargo test --offline --features in_memory` pass with the patch; "
               "the demo (tests/seed_demo.rs, --features in_memory, --test-threads=1) fails with the patch",
        "demo_passes_without": True, "demo_fails_with": True, "suite_passes_with": True,
        "demo_failure_tail": q.get("demo_with_tail", "")[-500:],
    },
    "detection": meta.get("detection", {}),
})
for tier, r in res.items():
    for c, v in r.get("checks", {}).items():
        meta["detection"]["%s %s" % (c, tier)] = {"caught": v["caught"], "exit": v["exit"], "wall_s": v["wall_s"],
                                                   "first_lines": [l[:400] for l in v["lines"][:3]],
                                                   "how_run": "tools/seedrun.sh <worktree with patch applied> %s --%s (isolated copy of /verif)" % (c, tier)}
json.dump(meta, open(meta_path, "w"), indent=1, ensure_ascii=False)
print("kept", dst, {k2: v["caught"] for k2, v in meta["detection"].items()})
