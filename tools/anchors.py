#!/usr/bin/env python3
"""Fingerprints of the Rust source files each property is anchored in (properties.jsonl anchors.files
plus tools/props/Cxx.json "anchor_files"), comments and white space removed.

  tools/anchors.py --update      record the fingerprints of /repo's current sources in tools/anchor_hashes.json
                                 (run after every legitimate change to /repo: hook or fix: commit)
  anchors.changed(prop, repo)    -> list of anchored files whose fingerprint differs from the recorded one

A changed fingerprint is NOT a violation (harmless rewrites change it too): the driver merely spends the
extended search budget (10x cases, boundary generators) on that run, because that is when a model/code
divergence is most likely."""
import hashlib, json, os, re, sys

HERE = os.path.dirname(os.path.abspath(__file__))
ROOT = os.path.dirname(HERE)
HASHES = os.path.join(HERE, "anchor_hashes.json")


def anchor_files(prop):
    files = set()
    for l in open(os.path.join(ROOT, "properties.jsonl")):
        if l.strip():
            d = json.loads(l)
            if d["id"] == prop:
                files.update(d.get("anchors", {}).get("files", []))
    cfg = os.path.join(HERE, "props", prop + ".json")
    if os.path.exists(cfg):
        files.update(json.load(open(cfg)).get("anchor_files", []))
    return sorted(files)


def fingerprint(path):
    try:
        src = open(path, encoding="utf-8").read()
    except OSError:
        return "missing"
    src = re.sub(r"/\*.*?\*/", "", src, flags=re.S)
    src = re.sub(r"//[^\n]*", "", src)
    src = re.sub(r"\s+", "", src)
    return hashlib.sha256(src.encode()).hexdigest()[:16]


def changed(prop, repo="/repo"):
    rec = json.load(open(HASHES)) if os.path.exists(HASHES) else {}
    return [f for f in anchor_files(prop) if rec.get(f) != fingerprint(os.path.join(repo, f))]


if __name__ == "__main__":
    repo = os.environ.get("VERIF_REPO", "/repo")
    if "--update" in sys.argv:
        ids = [json.loads(l)["id"] for l in open(os.path.join(ROOT, "properties.jsonl")) if l.strip()]
        files = sorted({f for p in ids for f in anchor_files(p)})
        json.dump({f: fingerprint(os.path.join(repo, f)) for f in files}, open(HASHES, "w"), indent=1)
        print("recorded", len(files), "fingerprints")
    else:
        for p in sys.argv[1:]:
            print(p, changed(p, repo))
