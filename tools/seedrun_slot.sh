#!/bin/sh
# usage: tools/seedrun_slot.sh <mutated-repo-dir> <Cxx> <slot>   - as seedrun.sh, private copy per slot
set -e
MUT=$(cd "$1" && pwd); P=$2; SLOT=$3
ALT=/verif/.cache/alt/slot$SLOT
mkdir -p "$ALT"
rsync -a --delete --exclude .git --exclude .cache --exclude replays --exclude seeded "${VERIF_SNAP:-/verif}/" "$ALT/verif/"
mkdir -p "$ALT/verif/.cache"
sed -i "s|path = \"/repo\"|path = \"$MUT\"|" "$ALT/verif/harness/Cargo.toml"
cp "$MUT/Cargo.lock" "$ALT/verif/harness/Cargo.lock" 2>/dev/null || true
cd "$ALT/verif"
VERIF_REPO="$MUT" ./check "$P" --quick
