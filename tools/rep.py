#!/usr/bin/env python3
"""usage: rep.py <rundir> – summary of a harness report.json"""
import json, sys
from collections import Counter
r = json.load(open(sys.argv[1] + "/report.json"))
print("evals", r["evaluations"], "distinct", r["distinct_nontrivial"], "failures", len(r["failures"]), "shards", len(r["shards"]))
print(Counter(f["class"] for f in r["failures"]))
seen = set()
for f in r["failures"]:
    if f["class"] in seen:
        continue
    seen.add(f["class"])
    print("--", f["class"], "|", f["detail"][:700])
    print("     ", f["case"][:900])
