#!/bin/sh
# usage: tools/seedrun.sh <mutated-repo-dir> <Cxx> [--quick|--thorough]
# Runs a check against a MUTATED copy/worktree of console-rs/indicatif without touching /repo and
# without disturbing concurrent work in /verif: a private copy of /verif (sources + compiled Coq
# files, own cargo target dir) is made under /verif/.cache/alt/<Cxx>/verif with the harness's path
# dependency pointing at the mutated tree.  Used only to try seeded defects while other work is
# going on; the registered checks always run in /verif against /repo itself.
set -e
MUT=$(cd "$1" && pwd); P=$2; TIER=${3:---quick}
ALT=/verif/.cache/alt/$P
mkdir -p "$ALT"
rsync -a --delete --exclude .git --exclude .cache --exclude replays --exclude seeded /verif/ "$ALT/verif/"
mkdir -p "$ALT/verif/.cache"
sed -i "s|path = \"/repo\"|path = \"$MUT\"|" "$ALT/verif/harness/Cargo.toml"
cp "$MUT/Cargo.lock" "$ALT/verif/harness/Cargo.lock" 2>/dev/null || true
cd "$ALT/verif"
VERIF_REPO="$MUT" ./check "$P" "$TIER"
