#!/bin/sh
# usage: tools/cq.sh model/X.v [proofs/XProofs.v props/Cxx.v ...]
# Compiles the given files of /verif/coq in the given order with plain coqc (full .vo), without
# touching the shared Makefile - use this while developing your own files; compile a file again
# after any file it Requires has been recompiled.
cd /verif/coq || exit 2
for f in "$@"; do
  echo "COQC $f"
  timeout ${CQ_TIMEOUT:-1200} coqc -Q gen IndGen -Q model IndModel -Q proofs IndProofs -Q props IndProps "$f" || exit 1
done
