#!/bin/sh
# usage: hr.sh <bin> <PROP> [tier] [seed] [--coq] : run a harness binary into .cache/run/<PROP>, print the report summary
bin="$1"; prop="$2"; tier="${3:-quick}"; seed="${4:-1}"
d=/verif/.cache/run/$prop
rm -rf "$d"; mkdir -p "$d"
/verif/.cache/target/debug/$bin --seed $seed --tier $tier --out "$d" || echo "HARNESS EXIT $?"
python3 /verif/tools/rep.py "$d" 2>&1 | cut -c1-${CUT:-1800}
if [ "$5" = "--coq" ]; then
  cd "$d"
  ls cases_*.v | xargs -P 16 -I{} sh -c 'coqc -noglob -Q /verif/coq/model IndModel -Q /verif/coq/gen IndGen {} | tr "\n" " "; echo " <- {}"' | grep -v "bad = \[\] " | head -20
  echo "coq shards done"
fi
