#!/usr/bin/env python3
"""Pinned statements of the exported theorems.
  tools/pins.py --update [Cxx ...]   rewrite tools/pins/Cxx.json from coq/props/Cxx.v (REVIEW the diff: a
                                     changed hash means a statement was changed on purpose)
  tools/pins.py [Cxx ...]            compare, exit 1 on any difference
tools/pins/Cxx.json = {"statements": {name: sha256 of the comment-stripped, whitespace-normalised text from
`Theorem|Example name` up to the first `Proof.`}, "min_coq_cases": floor of model-evaluated cases of the
quick tier}.  ./check fails (kind "pin") when a pinned statement is missing or different or when
props/Cxx.v has a Theorem/Example that is not pinned, so a theorem cannot be deleted or weakened silently.
The entry "<file without comments and proof scripts>" pins everything else in props/Cxx.v (local definitions,
imports, notations).  The definitions a statement mentions in coq/model, coq/proofs are not hashed: they are tied to the code by
the correspondence shards and are under version control."""
import sys, os, re, json, hashlib

ROOT = os.path.dirname(os.path.dirname(os.path.abspath(__file__)))


def strip_comments(src):
    """removes (* ... *) comments (nested); string literals are copied verbatim so that a "(*" inside a
    string does not hide the rest of the file"""
    out, depth, i, n = [], 0, 0, len(src)
    while i < n:
        if depth == 0 and src[i] == '"':
            j = i + 1
            while j < n:
                if src[j] == '"':
                    if j + 1 < n and src[j + 1] == '"':
                        j += 2
                        continue
                    break
                j += 1
            out.append(src[i:j + 1])
            i = j + 1
        elif src.startswith("(*", i):
            depth += 1
            i += 2
        elif src.startswith("*)", i) and depth:
            depth -= 1
            i += 2
        else:
            if depth == 0:
                out.append(src[i])
            i += 1
    return "".join(out)


def statements(prop):
    src = strip_comments(open(os.path.join(ROOT, "coq", "props", prop + ".v"), encoding="utf-8").read())
    res = {}
    for m in re.finditer(r"^\s*(Theorem|Example)\s+([A-Za-z0-9_']+)(.*?)\bProof\b(?:\s+using[^.]*)?\s*\.", src, re.M | re.S):
        text = re.sub(r"\s+", " ", m.group(1) + " " + m.group(2) + m.group(3)).strip()
        res[m.group(2)] = hashlib.sha256(text.encode()).hexdigest()
    # everything else in the file that a statement can depend on (local Definitions such as the witnesses
    # of `_refuted` theorems, Imports, Notations, scopes): the whole file without comments and proof scripts
    body = re.sub(r"\bProof\b.*?\b(Qed|Defined)\s*\.", "Proof. Qed.", src, flags=re.S)
    res["<file without comments and proof scripts>"] = hashlib.sha256(re.sub(r"\s+", " ", body).strip().encode()).hexdigest()
    return res


def pin_path(prop):
    return os.path.join(ROOT, "tools", "pins", prop + ".json")


def compare(prop):
    """list of problems (empty = statements are the pinned ones)"""
    p = pin_path(prop)
    if not os.path.exists(p):
        return ["no pin file tools/pins/%s.json" % prop]
    pinned = json.load(open(p))["statements"]
    cur = statements(prop)
    out = []
    for n, h in sorted(pinned.items()):
        if n not in cur:
            out.append("pinned theorem %s is missing from props/%s.v" % (n, prop))
        elif cur[n] != h:
            out.append("statement of %s differs from the pinned one" % n)
    for n in sorted(cur):
        if n not in pinned:
            out.append("%s is not pinned (tools/pins.py --update %s after review)" % (n, prop))
    return out


def min_cases(prop):
    p = pin_path(prop)
    return json.load(open(p)).get("min_coq_cases", 1) if os.path.exists(p) else 1


def axioms_allowed(prop):
    p = pin_path(prop)
    return json.load(open(p)).get("axioms_allowed", []) if os.path.exists(p) else []


if __name__ == "__main__":
    props = [a for a in sys.argv[1:] if a.startswith("C")] or sorted(
        f[:-2] for f in os.listdir(os.path.join(ROOT, "coq", "props")) if re.match(r"C\d\d\.v$", f))
    rc = 0
    for prop in props:
        if "--update" in sys.argv:
            os.makedirs(os.path.dirname(pin_path(prop)), exist_ok=True)
            old = json.load(open(pin_path(prop))) if os.path.exists(pin_path(prop)) else {}
            new = dict(old, statements=statements(prop))
            new.setdefault("min_coq_cases", 1)
            new.setdefault("axioms_allowed", [])
            json.dump(new, open(pin_path(prop), "w"), indent=1, sort_keys=True)
            print("%s: %d statements pinned" % (prop, len(new["statements"])))
        else:
            pr = compare(prop)
            for x in pr:
                print("%s: %s" % (prop, x))
            rc |= bool(pr)
    sys.exit(rc)
