"""Per-property configuration of the check driver: one JSON file per property in tools/props/."""
import json, os, glob

# Axioms declared by Coq's standard library that theorems may depend on (named in
# DESIGN.md section 6 and in every evidence file that uses them).
AXIOM_ALLOW = {
    "ClassicalDedekindReals.sig_forall_dec",
    "ClassicalDedekindReals.sig_not_dec",
    "FunctionalExtensionality.functional_extensionality_dep",
    "Classical_Prop.classic",
}

_HERE = os.path.dirname(os.path.abspath(__file__))
PROPS = {}
for _p in sorted(glob.glob(os.path.join(_HERE, "props", "C*.json"))):
    PROPS[os.path.basename(_p)[:-5]] = json.load(open(_p))
