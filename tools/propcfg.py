"""Per-property configuration of the check driver."""

# Axioms declared by Coq's standard library that theorems may depend on (named in
# DESIGN.md section 6 and in every evidence file that uses them).
AXIOM_ALLOW = {
    "ClassicalDedekindReals.sig_forall_dec",
    "ClassicalDedekindReals.sig_not_dec",
    "FunctionalExtensionality.functional_extensionality_dep",
    "functional_extensionality_dep",
    "Classical_Prop.classic",
    "classic",
    "sig_forall_dec",
    "sig_not_dec",
}

COMMON_TB = [
    "Coq 8.16.1 kernel (coqc, vm_compute for the correspondence shards; no native_compute)",
    "hand-written Gallina model tied to /repo by the correspondence check (differential testing, bounded by its generators)",
    "tools/constants.py (regex translator of constants/tables into coq/gen/Constants.v)",
    "mock clock hook src/verif_clock.rs (--cfg indicatif_verif) replacing std::time::Instant",
    "rustc/cargo, the harness crate /verif/harness",
]

PROPS = {
    "C07": {
        "bin": "c07",
        "trusted_base": COMMON_TB + [
            "atomicity of AtomicU64::fetch_add/fetch_sub/store (hardware, portable-atomic): modelled as one step; lost updates only stress-tested",
        ],
        "assumptions": [
            "arguments are u64 (op_wf)",
            "each atomic RMW is a single step of the interleaving semantics",
            "fraction() in [0,1] is checked by the oracle on the implementation (Flocq theorem in C13's development)",
        ],
    },
}
