#!/usr/bin/env python3
"""usage: tools/seedconfirm.py <Cxx> <k> [--thorough] [--wt DIR] [--src DIR] [--checks C01,C02] [--as NAME]
Confirms a seeded defect produced by an independent sub-agent in a scratch worktree and runs
our check against it in isolation (tools/seedrun.sh):
  1. demo passes on the unchanged worktree            (cargo test --test seed_demo<k>)
  2. patch applies; crate builds; the existing suite passes with it
  3. demo fails with the patch
  4. ./check Cxx against the mutated worktree -> caught (VIOLATION line / exit 1) or missed
Writes /verif/.cache/seedres/<Cxx>-<k>.json.  The worktree is left clean."""
import sys, os, subprocess, json, shutil, time

pid, k = sys.argv[1], sys.argv[2]
tier = "--thorough" if "--thorough" in sys.argv else "--quick"
wt = sys.argv[sys.argv.index("--wt") + 1] if "--wt" in sys.argv else "/tmp/seed-" + pid
src = sys.argv[sys.argv.index("--src") + 1] if "--src" in sys.argv else os.path.join(wt, "_out")
checks = sys.argv[sys.argv.index("--checks") + 1].split(",") if "--checks" in sys.argv else [pid]
name = sys.argv[sys.argv.index("--as") + 1] if "--as" in sys.argv else k  # stored as <Cxx>-<name>
env = dict(os.environ, CARGO_NET_OFFLINE="true", CARGO_TARGET_DIR=os.path.join(wt, "target"))
notes = open(os.path.join(src, "notes%s.md" % k)).read() if os.path.exists(os.path.join(src, "notes%s.md" % k)) else ""
if "--demo-cfg" in sys.argv:
    env["RUSTFLAGS"] = "--cfg indicatif_verif"


def srcfile(stem, ext):
    """<stem><k>.<ext> as the sub-agents write it, or <stem>.<ext> as kept under /verif/seeded/<id>/"""
    a = os.path.join(src, "%s%s.%s" % (stem, k, ext))
    return a if os.path.exists(a) else os.path.join(src, "%s.%s" % (stem, ext))


def sh(cmd, **kw):
    r = subprocess.run(cmd, cwd=wt, env=env, stdout=subprocess.PIPE, stderr=subprocess.STDOUT, text=True, **kw)
    return r.returncode, r.stdout


def clean():
    sh(["git", "checkout", "--", "."])
    for f in os.listdir(os.path.join(wt, "tests")):
        if f.startswith("seed_demo"):
            os.remove(os.path.join(wt, "tests", f))


res = {"property": pid, "k": k, "tier": tier}
clean()
demo = "seed_demo%s" % k
shutil.copy(srcfile("demo", "rs"), os.path.join(wt, "tests", demo + ".rs"))
demo_cmd = ["cargo", "test", "--offline", "--features", "in_memory,rayon,tokio,futures", "--test", demo, "--", "--test-threads=1"]
rc, out = sh(demo_cmd, timeout=1800)
res["demo_passes_without"] = rc == 0
res["demo_without_tail"] = out[-600:]
rc, out = sh(["git", "apply", srcfile("patch", "diff")])
res["patch_applies"] = rc == 0
if rc == 0:
    rc, out = sh(demo_cmd, timeout=1800)
    res["demo_fails_with"] = rc != 0
    res["demo_with_tail"] = out[-1200:]
    os.remove(os.path.join(wt, "tests", demo + ".rs"))
    rc1, out1 = sh(["cargo", "test", "--workspace", "--no-fail-fast", "--offline"], timeout=1800)
    rc2, out2 = sh(["cargo", "test", "--no-fail-fast", "--offline", "--features", "in_memory"], timeout=1800)
    res["suite_passes_with"] = rc1 == 0 and rc2 == 0
    if not res["suite_passes_with"]:
        res["suite_tail"] = (out1[-800:] + out2[-800:])
    res["checks"] = {}
    for c in checks:
        t0 = time.time()
        r = subprocess.run(["/verif/tools/seedrun.sh", wt, c, tier], stdout=subprocess.PIPE, stderr=subprocess.STDOUT, text=True,
                           env=dict(os.environ, VERIF_NO_COQCHK="1"))
        lines = [l for l in r.stdout.split("\n") if l.startswith(("VIOLATION", "OK ", "BROKEN", "KNOWN-FINDING", "  "))]
        res["checks"][c] = {"exit": r.returncode, "caught": r.returncode != 0 and "VIOLATION" in r.stdout,
                            "lines": lines[:12], "wall_s": round(time.time() - t0, 1)}
clean()
os.makedirs("/verif/.cache/seedres", exist_ok=True)
json.dump(res, open("/verif/.cache/seedres/%s-%s%s.json" % (pid, name, "" if tier == "--quick" else "-thorough"), "w"), indent=1)
ok = res.get("demo_passes_without") and res.get("patch_applies") and res.get("demo_fails_with") and res.get("suite_passes_with")
print("%s-%s confirmed=%s %s" % (pid, name, bool(ok), {c: v["caught"] for c, v in res.get("checks", {}).items()}))
for c, v in res.get("checks", {}).items():
    for l in v["lines"][:4]:
        print("   ", l[:300])
