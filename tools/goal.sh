#!/bin/sh
# usage: goal.sh <file.v> <line>  – prints the proof state after the first <line> lines
f="$1"; n="$2"
cd /verif/coq
{ head -n "$n" "$f"; echo; echo "Show."; } | timeout 120 coqtop -quiet -Q gen IndGen -Q model IndModel -Q proofs IndProofs -Q props IndProps 2>&1 | tail -n ${3:-40}
