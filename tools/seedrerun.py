#!/usr/bin/env python3
"""usage: tools/seedrerun.py [--jobs N] [ids...]
Re-runs every kept seeded defect (seeded/<id>/patch.diff) against /repo's CURRENT HEAD in isolated
copies (scratch worktrees /tmp/rerun-<slot>, tools/seedrun.sh) with the checks that are expected to
catch it, and records the outcome under "final_run" in seeded/<id>/meta.json.  Worktrees are removed
at the end."""
import sys, os, json, subprocess, glob, concurrent.futures, time

ROOT = "/verif"
jobs = int(sys.argv[sys.argv.index("--jobs") + 1]) if "--jobs" in sys.argv else 4
want = [a for a in sys.argv[1:] if a.startswith("C")]
ids = sorted(os.path.basename(os.path.dirname(p)) for p in glob.glob(ROOT + "/seeded/*/meta.json"))
if want:
    ids = [i for i in ids if i in want]
head = subprocess.run(["git", "-C", "/repo", "rev-parse", "--short", "HEAD"], capture_output=True, text=True).stdout.strip()


def run(args):
    slot, sid = args
    wt = "/tmp/rerun-%d" % slot
    meta_p = "%s/seeded/%s/meta.json" % (ROOT, sid)
    meta = json.load(open(meta_p))
    prop = meta["breaks_property"]
    checks = [k.split()[0] for k, v in meta["detection"].items() if v["caught"]] or [prop]
    checks = sorted(set(checks), key=lambda c: (c != prop, c))[:1]   # the (first) check that catches it
    subprocess.run(["git", "-C", wt, "checkout", "-q", "--", "."])
    r = subprocess.run(["git", "-C", wt, "apply", "%s/seeded/%s/patch.diff" % (ROOT, sid)], capture_output=True, text=True)
    res = {"repo_head": head, "patch_applies": r.returncode == 0, "checks": {}}
    if r.returncode == 0:
        for c in checks:
            alt = "%s/.cache/alt/%s" % (ROOT, "slot%d" % slot)
            t0 = time.time()
            env = dict(os.environ, VERIF_NO_COQCHK="1")
            # seedrun.sh keys its private copy on the property id: use a per-slot id directory
            p = subprocess.run([ROOT + "/tools/seedrun_slot.sh", wt, c, str(slot)], capture_output=True, text=True, env=env)
            out = p.stdout + p.stderr
            lines = [l for l in out.split("\n") if l.startswith(("VIOLATION", "OK ", "BROKEN", "KNOWN-FINDING"))]
            res["checks"][c] = {"caught": p.returncode != 0 and "VIOLATION" in out, "lines": [l[:300] for l in lines[:4]], "wall_s": round(time.time() - t0, 1)}
    subprocess.run(["git", "-C", wt, "checkout", "-q", "--", "."])
    meta["final_run"] = res
    json.dump(meta, open(meta_p, "w"), indent=1, ensure_ascii=False)
    return sid, res


for s in range(jobs):
    subprocess.run(["git", "-C", "/repo", "worktree", "remove", "--force", "/tmp/rerun-%d" % s], capture_output=True)
    subprocess.run(["git", "-C", "/repo", "worktree", "add", "--detach", "/tmp/rerun-%d" % s, "HEAD"], capture_output=True)
queues = [[] for _ in range(jobs)]
for i, sid in enumerate(ids):
    queues[i % jobs].append(sid)


def worker(slot):
    out = []
    for sid in queues[slot]:
        out.append(run((slot, sid)))
        print(out[-1][0], {c: v["caught"] for c, v in out[-1][1]["checks"].items()} or "PATCH DOES NOT APPLY", flush=True)
    return out


with concurrent.futures.ThreadPoolExecutor(max_workers=jobs) as ex:
    results = [x for l in ex.map(worker, range(jobs)) for x in l]
for s in range(jobs):
    subprocess.run(["git", "-C", "/repo", "worktree", "remove", "--force", "/tmp/rerun-%d" % s], capture_output=True)
missed = [sid for sid, r in results if not any(v["caught"] for v in r["checks"].values())]
print("re-ran %d seeded defects against %s: %d caught, missed: %s" % (len(results), head, len(results) - len(missed), missed))
