#!/usr/bin/env python3
"""Regenerates /verif/MANIFEST.json from tools/props/Cxx.json (one file per claimed property)
and properties.jsonl (every property without a config is listed under not_applicable with the
reason given in tools/not_applicable.json, or 'check not built yet').  Validates the result
against /root/.vp/MANIFEST.schema.json when jsonschema is importable."""
import json, os, sys

HERE = os.path.dirname(os.path.abspath(__file__))
ROOT = os.path.dirname(HERE)
sys.path.insert(0, HERE)
from propcfg import PROPS  # noqa: E402

ids = [json.loads(l)["id"] for l in open(os.path.join(ROOT, "properties.jsonl")) if l.strip()]
na_path = os.path.join(HERE, "not_applicable.json")
na_reasons = json.load(open(na_path)) if os.path.exists(na_path) else {}
hooks = json.load(open(os.path.join(HERE, "hooks.json")))

checks = []
for pid in ids:
    if pid not in PROPS or pid in na_reasons:
        continue
    c = PROPS[pid]
    checks.append({
        "property_id": pid,
        "quick_cmd": "./check %s --quick" % pid,
        "thorough_cmd": "./check %s --thorough" % pid,
        "evidence_file": "evidence/%s.json" % pid,
        "replay_cmd_template": "./check %s --replay {path}" % pid,
        "engine": "coq-model-proof",
        "level_claimed": {"category": "proof", "text": c["level_text"], "design_ref": c.get("design_ref", "DESIGN.md section 4")},
        "level_note": c["level_note"],
        "technique": c["technique"],
    })
claimed = [c["property_id"] for c in checks]
man = {
    "version": 1,
    "setup_cmd": "./setup.sh",
    "hooks": hooks,
    "engines": [
        {"name": "coq-model-proof", "path": "coq/", "serves_properties": claimed,
         "kind_free_text": "hand-written Gallina models + theorems (Coq 8.16.1, full .vo build, Print Assumptions audited per theorem); "
                           "correspondence shards (model recomputes what the implementation was observed to do) evaluated by vm_compute; "
                           "constants regenerated from /repo/src by tools/constants.py on every run"},
        {"name": "harness", "path": "harness/", "serves_properties": claimed,
         "kind_free_text": "Rust differential harness (path dependency on /repo's working tree, --cfg indicatif_verif mock clock) "
                           "+ independent property oracles that turn a broken proof/correspondence into a replayable failing input"},
    ],
    "checks": checks,
    "notes": "see DESIGN.md; known_findings.json lists open findings (KNOWN-FINDING lines) and fix: commits",
    "not_applicable": [{"property_id": p, "reason": na_reasons.get(p, "check not built yet (work in progress; planned, see DESIGN.md section 4)")}
                       for p in ids if p not in claimed],
}
out = os.path.join(ROOT, "MANIFEST.json")
json.dump(man, open(out, "w"), indent=1)
open(out, "a").write("\n")
try:
    import jsonschema
    jsonschema.validate(man, json.load(open("/root/.vp/MANIFEST.schema.json")))
    print("MANIFEST.json: %d checks, %d not_applicable, schema ok" % (len(checks), len(man["not_applicable"])))
except ImportError:
    print("MANIFEST.json: %d checks, %d not_applicable (jsonschema not available, not validated)" % (len(checks), len(man["not_applicable"])))
