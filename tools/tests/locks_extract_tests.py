#!/usr/bin/env python3
"""Regression tests of tools/locks_extract.py (run by hand: python3 tools/tests/locks_extract_tests.py).

Every test works on a throw-away copy of $VERIF_REPO (default /repo) under /tmp that is patched on the fly and
removed afterwards; /repo and coq/gen are never touched.  A D9-style inversion (slot lock taken while the bar
state is locked) is hidden in ProgressBar::update behind a construct the translator used to skip silently
(audit 2 N4: probes sa..se; audit 3 finding 6: the Drop impl of a crate type it does not know); the translator
must either reject it (exit 2) or resolve it so that the emitted program of update shows the inversion."""
import os, re, shutil, subprocess, sys, tempfile

HERE = os.path.dirname(os.path.abspath(__file__))
TOOL = os.path.join(os.path.dirname(HERE), "locks_extract.py")
REPO = os.environ.get("VERIF_REPO", "/repo")
UPDATE_TAIL = "        self.state().update(Instant::now(), f, tick);"
ANCHOR = "/// A weak reference to a [`ProgressBar`]."


def run(patch, expect_rc, expect_text=None, expect_out=None, cargo=None):
    d = tempfile.mkdtemp(prefix="locks_extract_test_", dir="/tmp")
    try:
        shutil.copytree(os.path.join(REPO, "src"), os.path.join(d, "src"))
        shutil.copy(os.path.join(REPO, "Cargo.toml"), os.path.join(d, "Cargo.toml"))
        if cargo:
            t = open(os.path.join(d, "Cargo.toml")).read()
            open(os.path.join(d, "Cargo.toml"), "w").write(cargo(t))
        for fname, f in patch.items():
            p = os.path.join(d, "src", fname)
            s = open(p).read()
            s2 = f(s)
            assert s2 != s, "patch of %s did not apply" % fname
            open(p, "w").write(s2)
        out = os.path.join(d, "out.v")
        r = subprocess.run([sys.executable, TOOL, "--repo", d, "--out", out], stdout=subprocess.PIPE,
                           stderr=subprocess.STDOUT, text=True)
        ok = r.returncode == expect_rc
        if ok and expect_text:
            ok = expect_text in r.stdout
        if ok and expect_out:
            ok = expect_out(open(out).read())
        return ok, "rc=%d %s" % (r.returncode, r.stdout.strip()[-300:])
    finally:
        shutil.rmtree(d, ignore_errors=True)


def upd(body):
    return lambda s: s.replace(UPDATE_TAIL, body)


def update_inverted(text):
    m = re.search(r'\("ProgressBar::update", (PSeq.*)\)[;]?\n', text.split("Definition all_programs")[1])
    return bool(m) and "PAct (CAcq CBar); PAct (CAcq CSlot)" in m.group(1)


TESTS = [
    ("baseline: unchanged tree translates, output equals coq/gen/LockFootprints.v", {}, 0, None,
     lambda t: t == open(os.path.join(os.path.dirname(os.path.dirname(HERE)), "coq", "gen", "LockFootprints.v")).read(), None),
    ("audit 3 finding 6: lock taken in the Drop impl of an unknown crate type (WakeOnExit)",
     {"progress_bar.rs": lambda s: upd("        let mut state = self.state();\n        let _wake = WakeOnExit(self);\n"
                                       "        state.update(Instant::now(), f, tick);")(s).replace(
         ANCHOR, "struct WakeOnExit<'a>(&'a ProgressBar);\nimpl Drop for WakeOnExit<'_> {\n    fn drop(&mut self) {\n"
                 "        self.0.wake_ticker();\n    }\n}\n\n" + ANCHOR, 1)},
     2, "impl Drop for WakeOnExit", None, None),
    ("same with the lock primitive written directly in the Drop body",
     {"progress_bar.rs": lambda s: upd("        let mut state = self.state();\n        let _wake = WakeOnExit(self);\n"
                                       "        state.update(Instant::now(), f, tick);")(s).replace(
         ANCHOR, "struct WakeOnExit<'a>(&'a ProgressBar);\nimpl Drop for WakeOnExit<'_> {\n    fn drop(&mut self) {\n"
                 "        let _g = self.0.ticker.lock().unwrap();\n    }\n}\n\n" + ANCHOR, 1)},
     2, "not in a tracked impl block", None, None),
    ("a lock-taking Deref impl of a crate type",
     {"draw_target.rs": lambda s: s.replace("    fn deref(&self) -> &Self::Target {\n        self.state\n",
                                            "    fn deref(&self) -> &Self::Target {\n        let _ = crate::ProgressBar::hidden().is_finished();\n        self.state\n", 1)},
     2, "impl Deref for DrawStateWrapper", None, None),
    ("sa: path call ProgressBar::wake_ticker(self) is resolved (the program of update shows Bar -> Slot)",
     {"progress_bar.rs": upd("        let mut st = self.state();\n        ProgressBar::wake_ticker(self);\n        st.update(Instant::now(), f, tick);")},
     0, None, update_inverted, None),
    ("sb: free function calling a tracked method",
     {"progress_bar.rs": lambda s: upd("        let mut st = self.state();\n        helper_wake(self);\n        st.update(Instant::now(), f, tick);")(s)
         .replace(ANCHOR, "fn helper_wake(pb: &ProgressBar) {\n    pb.wake_ticker();\n}\n\n" + ANCHOR, 1)},
     2, "free function `helper_wake`", None, None),
    ("sc: closure with lock events bound to a variable",
     {"progress_bar.rs": upd("        let w = || self.wake_ticker();\n        let mut st = self.state();\n        w();\n        st.update(Instant::now(), f, tick);")},
     2, "closure with lock events is bound to a variable", None, None),
    ("sd: function pointer",
     {"progress_bar.rs": upd("        let mut st = self.state();\n        let _ = Some(self).map(ProgressBar::wake_ticker);\n        st.update(Instant::now(), f, tick);")},
     2, "used as a function value", None, None),
    ("se: method of a field of declared lock-free type",
     {"progress_bar.rs": upd("        let mut st = self.state();\n        st.state.poke(self);\n        st.update(Instant::now(), f, tick);"),
      "state.rs": lambda s: s.replace("impl ProgressState {\n", "impl ProgressState {\n    pub(crate) fn poke(&self, pb: &crate::ProgressBar) {\n        pb.wake_ticker();\n    }\n", 1)},
     2, "`.poke()` on a receiver of declared type", None, None),
    ("M1: update() as before 68f1e2d is translated to the footprint Locks.old_update_fp is about",
     {"progress_bar.rs": lambda s: s.replace("        let tick = self.ticker.lock().unwrap().is_none();\n" + UPDATE_TAIL,
                                             "        self.state()\n            .update(Instant::now(), f, self.ticker.lock().unwrap().is_none());")},
     0, None,
     lambda t: '("ProgressBar::update", [CAcq CBar; CAcq CSlot; CCallback; CTick; CCallback; CAcq CMulti; CCallback; CRel CMulti; CRel CSlot; CRel CBar])' in t,
     None),
    ("edition other than 2021 is rejected", {}, 2, "edition 2021 only", None,
     lambda t: t.replace('edition = "2021"', 'edition = "2024"')),
]


def main():
    bad = 0
    for name, patch, rc, text, outp, cargo in TESTS:
        ok, info = run(patch, rc, text, outp, cargo)
        print("%s  %s%s" % ("ok  " if ok else "FAIL", name, "" if ok else "\n      " + info))
        bad += 0 if ok else 1
    print("%d test(s), %d failed" % (len(TESTS), bad))
    return 1 if bad else 0


if __name__ == "__main__":
    sys.exit(main())
