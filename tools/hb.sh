#!/bin/sh
# build one harness binary (debug) against /repo with the verification cfg
cd /verif/harness && CARGO_NET_OFFLINE=true RUSTFLAGS="--cfg indicatif_verif" CARGO_TARGET_DIR=/verif/.cache/target cargo build --offline --bin "$1" 2>&1 | grep -E "^(error|warning: unused)" -A12 | head -${2:-60}
