#!/usr/bin/env python3
"""C08 source translator: lock-acquisition footprints of indicatif's public calls.

Reads $VERIF_REPO/src/{progress_bar,multi,state,draw_target}.rs (default /repo) and regenerates
coq/gen/LockFootprints.v (logical path IndGen): for every method of the tracked impl blocks the
ORDER in which it acquires / releases the four lock classes

    Slot  = ProgressBar.ticker   : Arc<Mutex<Option<Ticker>>>     (.ticker.lock())
    Bar   = ProgressBar.state    : Arc<Mutex<BarState>>           (.state()/.state.lock()/arc.lock())
    Multi = MultiProgress.state  : Arc<RwLock<MultiState>>        (.write()/.read())
    Stop  = Ticker.stopping.0    : Mutex<bool> (+ Condvar .1)     (.stopping.0.lock())

plus spawn / join / condvar wait / notify / user callbacks, following calls into the other tracked
methods (inlined, any depth; recursion is an error) and the implicit drops that matter (an owned
Ticker, an upgraded Arc<Mutex<BarState>>, a ProgressBar handle).

What is a footprint: the TEXTUAL-ORDER LINEARISATION of the method body - all branches in
sequence, `return`/`break` ignored - with Rust's guard lifetimes (let-bound guard: to the end of
its block or `drop(v)`/consuming call; temporary: to the end of the statement; temporaries of an
`if` condition: to the end of the condition; of an `if let`/`match`/`while let` scrutinee: to the
end of the construct).  Every real path of the call is obtained from it by deleting balanced
segments (Locks.Thin), which preserves Ordered (LocksProofs.Ordered_thin).

Honesty: anything the translator does not understand is an ERROR (exit 2, nothing written):
an unknown method on a tracked type, a lock expression it cannot attribute, a lock call site in
the four files that no footprint covers, a call cycle, an unbalanced footprint.
"""
import os, re, sys, json

REPO = os.environ.get("VERIF_REPO", "/repo")
ROOT = os.path.dirname(os.path.dirname(os.path.abspath(__file__)))
OUT = os.path.join(ROOT, "coq", "gen", "LockFootprints.v")


class XErr(Exception):
    pass


def die(msg):
    raise XErr(msg)


# ------------------------------------------------------------------ lexing
def strip_src(src):
    """comments and string/char literals -> blanks (same length, newlines kept)"""
    out, i, n = [], 0, len(src)
    while i < n:
        c = src[i]
        if src.startswith("//", i):
            j = src.find("\n", i)
            j = n if j < 0 else j
            out.append(" " * (j - i))
            i = j
        elif src.startswith("/*", i):
            j = src.find("*/", i) + 2
            out.append(re.sub(r"[^\n]", " ", src[i:j]))
            i = j
        elif c == '"':
            j = i + 1
            while src[j] != '"':
                j += 2 if src[j] == "\\" else 1
            out.append('"' + re.sub(r"[^\n]", " ", src[i + 1:j]) + '"')
            i = j + 1
        elif c == "'" and re.match(r"'(\\.|[^\\'])'", src[i:i + 4]):
            m = re.match(r"'(\\.|[^\\'])'", src[i:i + 4])
            out.append(" " * m.end())
            i += m.end()
        else:
            out.append(c)
            i += 1
    return "".join(out)


TOK = re.compile(r"\s+|([A-Za-z_][A-Za-z0-9_]*|\d+|::|=>|->|\.\.=?|&&|\|\||[=!<>]=|.)", re.S)


def lex(text, base):
    """[(tok, offset)]"""
    toks, i = [], 0
    while i < len(text):
        m = TOK.match(text, i)
        if m.group(1) is not None:
            toks.append((m.group(1), base + m.start(1)))
        i = m.end()
    return toks


def match_brace(text, i):
    """index after the brace group starting at text[i] == '{'"""
    assert text[i] == "{", text[i:i + 20]
    d = 0
    while True:
        if text[i] == "{":
            d += 1
        elif text[i] == "}":
            d -= 1
            if d == 0:
                return i + 1
        i += 1


def strip_cfg_test(text):
    """blank out `#[cfg(test)]` items (a block, or a statement up to `;`)"""
    while True:
        m = re.search(r"#\[cfg\(test\)\]\s*", text)
        if not m:
            return text
        j = m.end()
        if text[j] == "{":
            k = match_brace(text, j)
        else:
            # an item: up to the first `;` or brace group, whichever comes first
            ms = re.compile(r"[;{]").search(text, j)
            k = ms.end() if text[ms.start()] == ";" else match_brace(text, ms.start())
        text = text[:m.start()] + re.sub(r"[^\n]", " ", text[m.start():k]) + text[k:]


# ------------------------------------------------------------------ items
class Fn:
    def __init__(self, file, typ, name, params, by_value_self, body, body_off, line, public):
        self.file, self.typ, self.name = file, typ, name
        self.params, self.by_value_self = params, by_value_self
        self.body, self.body_off, self.line, self.public = body, body_off, line, public
        self.events = None  # list of events after scanning


def line_of(text, off):
    return text.count("\n", 0, off) + 1


def match_paren(text, i):
    assert text[i] == "("
    d = 0
    while True:
        if text[i] == "(":
            d += 1
        elif text[i] == ")":
            d -= 1
            if d == 0:
                return i + 1
        i += 1


def parse_file(path, fname):
    raw = open(path, encoding="utf-8").read()
    text = strip_cfg_test(strip_src(raw))
    fns = []
    for m in re.finditer(r"(?m)^impl(?:<[^>{]*>)?\s+(?:([\w:]+)(?:<[^>{]*>)?\s+for\s+)?(\w+)(?:<[^>{]*>)?\s*\{", text):
        trait, typ = m.group(1), m.group(2)
        end = match_brace(text, m.end() - 1)
        blk_lo, blk_hi = m.end(), end - 1
        i = blk_lo
        while True:
            fm = re.compile(r"((?:pub(?:\([a-z]+\))?\s+)?)fn\s+(\w+)").search(text, i, blk_hi)
            if not fm:
                break
            # parameter list: first '(' at angle depth 0 after the name
            j, ang = fm.end(), 0
            while True:
                if text[j] == "<":
                    ang += 1
                elif text[j] == ">" and text[j - 1] != "-":
                    ang -= 1
                elif text[j] == "(" and ang == 0:
                    break
                j += 1
            pe = match_paren(text, j)
            params = text[j + 1:pe - 1]
            k = pe
            while text[k] not in "{;":
                k += 1
            if text[k] == ";":
                i = k + 1
                continue
            be = match_brace(text, k)
            name = fm.group(2)
            if trait:
                name = trait.split("::")[-1].lower() + ":" + name  # e.g. drop:drop
            by_value = bool(re.match(r"\s*(mut\s+)?self\b", params))
            fns.append(Fn(fname, typ, name, params, by_value, text[k + 1:be - 1], k + 1,
                          line_of(text, fm.start(2)), fm.group(1).strip() == "pub"))
            i = be
    return raw, text, fns
