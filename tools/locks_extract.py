#!/usr/bin/env python3
"""C08 source translator: lock-acquisition footprints of indicatif's public calls.

Reads $VERIF_REPO/src/{progress_bar,multi,state,draw_target}.rs (default /repo) and regenerates
coq/gen/LockFootprints.v (logical path IndGen): for every method of the tracked impl blocks the
ORDER in which it acquires / releases the four lock classes

    Slot  = ProgressBar.ticker   : Arc<Mutex<Option<Ticker>>>     (.ticker.lock())
    Bar   = ProgressBar.state    : Arc<Mutex<BarState>>           (.state()/.state.lock()/arc.lock())
    Multi = MultiProgress.state  : Arc<RwLock<MultiState>>        (.write()/.read())
    Stop  = Ticker.stopping.0    : Mutex<bool> (+ Condvar .1)     (.stopping.0.lock())

plus spawn / join / condvar wait / notify / user callbacks, following calls into the other tracked
methods (inlined, any depth; recursion is an error) and the implicit drops that matter (an owned
Ticker, an upgraded Arc<Mutex<BarState>>, a ProgressBar handle).

What is a footprint: the TEXTUAL-ORDER LINEARISATION of the method body - all branches in
sequence, `return`/`break` ignored - with Rust's guard lifetimes (let-bound guard: to the end of
its block or `drop(v)`/consuming call; temporary: to the end of the statement; temporaries of an
`if` condition: to the end of the condition; of an `if let`/`match`/`while let` scrutinee: to the
end of the construct).  Every real path of the call is obtained from it by deleting balanced
segments (Locks.Thin), which preserves Ordered (LocksProofs.Ordered_thin).

Besides the flat footprints (all_footprints) it emits STRUCTURED programs (all_programs : list (string * cprog),
ticker_prog): the scanner drops structure markers into the event stream (branch / alternative / loop / exit),
build_tree() turns them into a tree, attach() resolves early exits by cutting the continuation (the statements
after an `if`/`match` go only into the alternatives that do not leave; an exit keeps the list of guards and
owned values that die on the way out), inline_tree() inlines callees; tree_linear(program) must equal the flat
footprint (checked here and again in Coq: C08_tables_agree).

Honesty: anything the translator does not understand is an ERROR (exit 2, nothing written):
an unknown method on a tracked type, a lock expression it cannot attribute, a lock call site in
the four files that no footprint covers, a call cycle, an unbalanced footprint.
"""
import os, re, sys, json

REPO = os.environ.get("VERIF_REPO", "/repo")
ROOT = os.path.dirname(os.path.dirname(os.path.abspath(__file__)))
OUT = os.path.join(ROOT, "coq", "gen", "LockFootprints.v")


class XErr(Exception):
    pass


def die(msg):
    raise XErr(msg)


# ------------------------------------------------------------------ lexing
def strip_src(src):
    """comments and string/char literals -> blanks (same length, newlines kept)"""
    out, i, n = [], 0, len(src)
    while i < n:
        c = src[i]
        if src.startswith("//", i):
            j = src.find("\n", i)
            j = n if j < 0 else j
            out.append(" " * (j - i))
            i = j
        elif src.startswith("/*", i):
            j = src.find("*/", i) + 2
            out.append(re.sub(r"[^\n]", " ", src[i:j]))
            i = j
        elif c == '"':
            j = i + 1
            while src[j] != '"':
                j += 2 if src[j] == "\\" else 1
            out.append('"' + re.sub(r"[^\n]", " ", src[i + 1:j]) + '"')
            i = j + 1
        elif c == "'" and re.match(r"'(\\.|[^\\'])'", src[i:i + 4]):
            m = re.match(r"'(\\.|[^\\'])'", src[i:i + 4])
            out.append(" " * m.end())
            i += m.end()
        else:
            out.append(c)
            i += 1
    return "".join(out)


TOK = re.compile(r"\s+|([A-Za-z_][A-Za-z0-9_]*|\d+|::|=>|->|\.\.=?|&&|\|\||[=!<>]=|.)", re.S)


def lex(text, base):
    """[(tok, offset)]"""
    toks, i = [], 0
    while i < len(text):
        m = TOK.match(text, i)
        if m.group(1) is not None:
            toks.append((m.group(1), base + m.start(1)))
        i = m.end()
    return toks


def match_brace(text, i):
    """index after the brace group starting at text[i] == '{'"""
    assert text[i] == "{", text[i:i + 20]
    d = 0
    while True:
        if text[i] == "{":
            d += 1
        elif text[i] == "}":
            d -= 1
            if d == 0:
                return i + 1
        i += 1


def strip_cfg_test(text):
    """blank out `#[cfg(test)]` items (a block, or a statement up to `;`)"""
    while True:
        m = re.search(r"#\[cfg\(test\)\]\s*", text)
        if not m:
            return text
        j = m.end()
        if text[j] == "{":
            k = match_brace(text, j)
        else:
            # an item: up to the first `;` or brace group, whichever comes first
            ms = re.compile(r"[;{]").search(text, j)
            k = ms.end() if text[ms.start()] == ";" else match_brace(text, ms.start())
        text = text[:m.start()] + re.sub(r"[^\n]", " ", text[m.start():k]) + text[k:]


# ------------------------------------------------------------------ items
class Fn:
    def __init__(self, file, typ, name, params, by_value_self, body, body_off, line, public):
        self.file, self.typ, self.name = file, typ, name
        self.params, self.by_value_self = params, by_value_self
        self.body, self.body_off, self.line, self.public = body, body_off, line, public
        self.events = None  # list of events after scanning


def line_of(text, off):
    return text.count("\n", 0, off) + 1


def match_paren(text, i):
    assert text[i] == "("
    d = 0
    while True:
        if text[i] == "(":
            d += 1
        elif text[i] == ")":
            d -= 1
            if d == 0:
                return i + 1
        i += 1


def parse_file(path, fname):
    raw = open(path, encoding="utf-8").read()
    text = strip_cfg_test(strip_src(raw))
    fns = []
    for m in re.finditer(r"(?m)^impl(?:<[^>{]*>)?\s+(?:([\w:]+)(?:<[^>{]*>)?\s+for\s+)?(\w+)(?:<[^>{]*>)?\s*\{", text):
        trait, typ = m.group(1), m.group(2)
        end = match_brace(text, m.end() - 1)
        blk_lo, blk_hi = m.end(), end - 1
        i = blk_lo
        while True:
            fm = re.compile(r"((?:pub(?:\([a-z]+\))?\s+)?)fn\s+(\w+)").search(text, i, blk_hi)
            if not fm:
                break
            # parameter list: first '(' at angle depth 0 after the name
            j, ang = fm.end(), 0
            while True:
                if text[j] == "<":
                    ang += 1
                elif text[j] == ">" and text[j - 1] != "-":
                    ang -= 1
                elif text[j] == "(" and ang == 0:
                    break
                j += 1
            pe = match_paren(text, j)
            params = text[j + 1:pe - 1]
            k = pe
            while text[k] not in "{;":
                k += 1
            if text[k] == ";":
                i = k + 1
                continue
            be = match_brace(text, k)
            name = fm.group(2)
            if trait:
                name = trait.split("::")[-1].lower() + ":" + name  # e.g. drop:drop
            by_value = bool(re.match(r"\s*(mut\s+)?self\b", params))
            fns.append(Fn(fname, typ, name, params, by_value, text[k + 1:be - 1], k + 1,
                          line_of(text, fm.start(2)), fm.group(1).strip() == "pub"))
            i = be
    return raw, text, fns


# ------------------------------------------------------------------ the typed scan
# self type of an impl block -> scan type
SELF_TY = {"ProgressBar": "ProgressBar", "BarState": "BarState", "MultiProgress": "MultiProgress",
           "MultiState": "MultiState", "ProgressDrawTarget": "BarTarget", "Drawable": "Drawable",
           "Ticker": "Ticker", "TickerControl": "TickerControl", "WeakProgressBar": "WeakProgressBar"}
# impl blocks whose methods get a footprint; everything else in the four files must be lock free
TRACKED_IMPLS = set(SELF_TY)

FIELDS = {
    ("ProgressBar", "state"): "BarMutex", ("ProgressBar", "ticker"): "SlotMutex",
    ("BarState", "draw_target"): "BarTarget",
    ("MultiProgress", "state"): "MultiLock",
    ("MultiState", "draw_target"): "LeafTarget",   # never TargetKind::Multi: see check_new_remote()
    ("Ticker", "stopping"): "StopPair", ("TickerControl", "stopping"): "StopPair",
    ("StopPair", "0"): "StopMutex", ("StopPair", "1"): "StopCondvar",
    ("TickerControl", "state"): "WeakBar", ("Ticker", "join_handle"): "JoinOpt",
    ("WeakProgressBar", "state"): "WeakBar",
}
GUARD_RES = {"BarState": "CBar", "SlotGuard": "CSlot", "MultiState": "CMulti", "StopGuard": "CStop",
             "Drawable": "CMulti"}
# primitive methods: (receiver type, name) -> (events emitted when the call returns, result type, acquires)
PRIM = {
    ("BarMutex", "lock"): ("BarState", "CBar"), ("ArcBar", "lock"): ("BarState", "CBar"),
    ("SlotMutex", "lock"): ("SlotGuard", "CSlot"),
    ("MultiLock", "write"): ("MultiState", "CMulti"), ("MultiLock", "read"): ("MultiState", "CMulti"),
    ("StopMutex", "lock"): ("StopGuard", "CStop"),
}
# methods of std types that keep / change the tracked type; anything else on a tracked type is an error
STD = {
    "unwrap": None, "as_ref": None, "as_mut": None, "expect": None, "clone": "Untracked",
    "is_none": "Untracked", "is_some": "Untracked", "map": "Untracked", "upgrade": None,
    "take": None, "downgrade": "Untracked",
}
# tracked functions that RETURN a guard (validated against their source text in validate_guard_fns)
RET_GUARD = {("ProgressBar", "state"): ("BarState", "CBar"), ("BarTarget", "drawable"): ("Drawable", "CMulti")}
LEAF = {"LeafTarget", "LeafDrawable"}   # MultiState's own draw target: Term/TermLike, no library lock


class Var:
    def __init__(self, typ, res=None, owned=False):
        self.typ, self.res, self.owned, self.live = typ, res, owned, True


class Scanner:
    def __init__(self, fn, fntab):
        self.fn, self.fntab = fn, fntab
        self.ev = []
        self.toks = lex(fn.body, fn.body_off)
        self.scopes = [{}]            # name -> Var, one dict per brace depth (+ virtual stmt scopes)
        self.held = []                # Vars/temps currently holding a resource, in acquisition order
        self.owned = []               # guards and droppable values (owned Ticker, upgraded Arc), creation order
        self.alt_stack = []           # open alternatives: liveness snapshot (see mark)
        self.cb = set(re.findall(r"\b(\w+)\s*:\s*(?:impl\s+FnOnce|F\b)", fn.params))
        for pm in re.finditer(r"(\w+)\s*:\s*&?\s*(?:mut\s+)?ProgressBar\b", fn.params):
            self.scopes[0][pm.group(1)] = Var("ProgressBar")
        self.selfty = SELF_TY[fn.typ]

    # -- helpers
    def where(self, off):
        return "%s:%d (%s::%s)" % (self.fn.file, line_of(FILETEXT[self.fn.file], off), self.fn.typ, self.fn.name)

    def lookup(self, name):
        for sc in reversed(self.scopes):
            if name in sc:
                return sc[name]
        return None

    def acquire(self, res, off, note=""):
        self.ev.append(("acq", res, self.where(off) + note))
        g = Var("guard", res, True)
        self.held.append(g)
        self.owned.append(g)
        return g

    def release(self, g):
        if g.live and g.res:
            g.live = False
            self.held.remove(g)
            self.ev.append(("rel", g.res, ""))

    def drop_var(self, v, off):
        """a value goes out of scope / is dropped explicitly"""
        if not v.live:
            return
        if v.res and v.owned:
            self.release(v)
        elif v.typ == "TickerOwned":
            v.live = False
            self.ev.append(("call", ("Ticker", "drop:drop"), self.where(off)))
        elif v.typ == "ArcBar":
            v.live = False
            self.ev.extend(self.arc_drop(off))

    def arc_drop(self, off):
        """drop of an Arc<Mutex<BarState>>: Drop for BarState runs only if it was the last one"""
        return [("droparc", None, self.where(off)), ("M", "br_open"), ("M", "alt_open"),
                ("call", ("BarState", "drop:drop"), self.where(off)), ("M", "alt_close"),
                ("M", "alt_open"), ("M", "alt_close"), ("M", "br_close")]

    def pop_scope(self, off):
        sc = self.scopes.pop()
        for v in reversed(list(sc.values())):
            self.drop_var(v, off)

    # -- structure markers (consumed by build_tree; not part of the flat footprint)
    def mark(self, kind, *args):
        """structure marker.  The scan is one pass, so the liveness of guards must be the same on every way
        through a branch: an alternative that ends in an early exit gets the state restored behind it (the
        fall-through path did not run it); any other alternative that releases / consumes something created
        outside it is an error (the translator cannot follow two different lock states)."""
        if kind == "alt_open":
            self.alt_stack.append({"snap": [(v, v.live) for v in self.owned], "held": list(self.held), "exit": False})
        elif kind == "exit" and self.alt_stack:
            self.alt_stack[-1]["exit"] = True
        elif kind == "alt_close":
            a = self.alt_stack.pop()
            changed = [v for v, live in a["snap"] if v.live != live]
            if a["exit"]:
                for v, live in a["snap"]:
                    v.live = live
                self.held = [g for g in a["held"]]
            elif changed:
                die("%s::%s: a guard or owned value created outside a branch is released in only one of its "
                    "alternatives (and the alternative does not leave the function/loop)" % (self.fn.typ, self.fn.name))
            elif self.alt_stack and a["exit"]:
                self.alt_stack[-1]["exit"] = True
        self.ev.append(("M", kind) + args)

    def cleanup_events(self, mark, off):
        """what dies when control leaves through return / break / continue: everything created since `mark`"""
        out = []
        for v in reversed(self.owned[mark:]):
            if not v.live:
                continue
            if v.res and v.owned:
                out.append(("rel", v.res, ""))
            elif v.typ == "TickerOwned":
                out.append(("call", ("Ticker", "drop:drop"), self.where(off)))
            elif v.typ == "ArcBar":
                out.extend(self.arc_drop(off))
        return out

    # -- the scan
    def run(self):
        toks = self.toks
        n = len(toks)
        stmts = []      # open statements (dicts)
        braces = []     # for every open '{': {"stmts": open statements before it, "matchbody": bool}
        parens = []     # for every open '(': {"call": call info or None, "stmt": open statements}
        closures = []   # open closure bodies
        loop_marks = []  # len(self.owned) at the entry of every enclosing loop body
        chain = None    # (type, guardVar-or-None, startVarName-or-None)
        last_chain_end = -1
        last_chain = None
        i = 0
        CONTROL = ("if", "match", "while", "for", "loop")
        EXITS = ("return", "break", "continue")

        def new_stmt(i, nested=False):
            kind = "expr"
            t = toks[i][0]
            t1 = toks[i + 1][0] if i + 1 < n else ""
            if t == "let":
                kind = "let"
            elif t in ("if", "while") and t1 == "let":
                kind = "iflet"
            elif t in ("if", "while"):
                kind = "if"
            elif t == "match":
                kind = "match"
            elif t in ("for", "loop"):
                kind = "loop"
            st = {"kind": kind, "temps": [], "depth": len(braces), "start": i, "name": None, "idx": len(stmts),
                  "scrut": None, "init_kw": None, "cond_open": True, "pat": None,
                  "loop": t in ("while", "for", "loop"), "first": t, "exit": t if t in EXITS else None,
                  "arm": bool(braces) and braces[-1]["matchbody"] and len(stmts) == braces[-1]["stmts"],
                  "nested": nested, "in_block": False, "else_pending": False, "br_opened": False,
                  "saw_else": False, "loop_br": False, "has_q": False, "ev_start": len(self.ev)}
            if st["exit"] and t1 in CONTROL:
                die("%s: `%s %s ...` is not supported by the translator" % (self.where(toks[i][1]), t, t1))
            if kind == "let":
                j = i + 1
                if toks[j][0] == "mut":
                    j += 1
                st["name"] = toks[j][0]
                k = j
                while toks[k][0] != "=" and toks[k][0] != ";":
                    k += 1
                if toks[k][0] == "=" and toks[k + 1][0] in CONTROL:
                    st["init_kw"] = toks[k + 1][0]
                    if st["init_kw"] not in ("match", "if"):
                        die("%s: `let .. = %s ..` is not supported by the translator"
                            % (self.where(toks[i][1]), st["init_kw"]))
            if kind == "iflet":
                k = i + 2
                pat = []
                while toks[k][0] != "=":
                    pat.append(toks[k][0])
                    k += 1
                st["pat"] = pat
            if st["arm"]:
                self.mark("alt_open")
            if st["loop"]:
                self.mark("loop_open")
            self.scopes.append({})      # virtual scope of the statement (pattern bindings)
            stmts.append(st)
            return st

        def end_stmt(off):
            st = stmts.pop()
            if st["br_opened"] and not st["loop"]:
                if not st["saw_else"]:
                    self.mark("alt_open")
                    self.mark("alt_close")
                self.mark("br_close")
            for g in reversed(st["temps"]):
                self.release(g)
            self.pop_scope(off)
            if st["has_q"]:
                if any(e[0] not in ("M", "upgrade") for e in self.ev[st["ev_start"]:]):
                    die("%s: `?` in a statement with lock events is not supported" % self.where(off))
                self.mark("br_open")
                self.mark("alt_open")
                self.mark("exit", "return", self.cleanup_events(0, off))
                self.mark("alt_close")
                self.mark("alt_open")
                self.mark("alt_close")
                self.mark("br_close")
            if st["exit"]:
                if st["exit"] == "return":
                    if loop_marks:
                        die("%s: `return` inside a loop is not supported" % self.where(off))
                    m = 0
                else:
                    if not loop_marks:
                        die("%s: `%s` outside a loop" % (self.where(off), st["exit"]))
                    m = loop_marks[-1]
                self.mark("exit", st["exit"], self.cleanup_events(m, off))
            if st["loop"]:
                if st["loop_br"]:
                    self.mark("alt_close")
                    self.mark("br_close")
                self.mark("loop_close")
                if st.get("mark_pushed"):
                    loop_marks.pop()
            if st["arm"]:
                self.mark("alt_close")

        def end_upto_arm(off):
            """a `,` (or the end of an arm block) ends nested control statements and the arm itself"""
            while stmts and stmts[-1]["depth"] == len(braces):
                was = stmts[-1]
                end_stmt(off)
                if not was["nested"]:
                    break

        def release_cond_temps(st):
            for g in reversed(st["temps"]):
                self.release(g)
            st["temps"] = []

        def close_closure(off):
            c = closures.pop()
            has_ev = any(e[0] != "M" for e in self.ev[c["ev_start"]:])
            if has_ev and (not c["call"] or c["call"][1] != "map" or c["iter"]):
                die("%s: closure with lock events passed to `%s` (only Option::map is understood)"
                    % (self.where(off), c["call"][1] if c["call"] else "?"))
            self.mark("alt_close")
            self.mark("alt_open")
            self.mark("alt_close")
            self.mark("br_close")

        need_stmt = True
        nested_next = False
        while i < n:
            t, off = toks[i]
            nxt = toks[i + 1][0] if i + 1 < n else ""
            prev = toks[i - 1][0] if i > 0 else ""
            if need_stmt and t not in ("}", ";"):
                new_stmt(i, nested_next)
                nested_next = False
                need_stmt = False
            elif t == "if" and prev == "=" and stmts and stmts[-1]["kind"] == "let" and stmts[-1]["init_kw"] == "if":
                new_stmt(i, True)           # `let x = if c {a} else {b};`: the `if` is a nested statement
            elif t in CONTROL and not (t == "match" and prev == "=" and stmts and stmts[-1]["kind"] == "let") \
                    and not (t == "if" and prev == "else"):
                die("%s: `%s` in expression position is not supported by the translator" % (self.where(off), t))
            elif t in EXITS and not (stmts and stmts[-1]["start"] == i):
                if not (prev == "=>" and stmts and stmts[-1]["arm"]):
                    die("%s: `%s` in expression position is not supported by the translator" % (self.where(off), t))
            st = stmts[-1] if stmts else None

            # ---- closures: `|args| body` / `move || body` in argument position
            if t in ("|", "||") and prev in ("(", ",", "move"):
                j = i
                if t == "|":
                    j = i + 1
                    while toks[j][0] != "|":
                        j += 1
                call = parens[-1]["call"] if parens else None
                itr = any(toks[k][0] in ("iter", "into_iter", "iter_mut", "values", "values_mut", "keys")
                          for k in range(st["start"] if st else 0, i))
                closures.append({"paren_level": len(parens), "brace_level": len(braces),
                                 "braced": toks[j + 1][0] == "{", "call": call, "iter": itr, "ev_start": len(self.ev)})
                self.mark("br_open")
                self.mark("alt_open")
                chain = None
                i = j + 1
                continue

            # ---- structure
            if t == "{":
                at_depth = st is not None and st["depth"] == len(braces)
                matchbody = False
                bind_now = False
                if at_depth and st["kind"] == "iflet" and st["cond_open"] and not st.get("pat_done"):
                    at_depth = False        # a brace of the `if let` pattern, not the block
                if at_depth and st["loop"] and not st["in_block"] and not st.get("mark_pushed") \
                        and (st["first"] != "while" or st["cond_open"]):
                    # the body of a loop
                    if st["kind"] == "if":
                        release_cond_temps(st)
                    elif st["temps"]:
                        die("%s: loop condition holding a lock guard is not supported" % self.where(off))
                    st["cond_open"] = False
                    loop_marks.append(len(self.owned))
                    st["mark_pushed"] = True
                    if st["first"] == "while":
                        self.mark("br_open")
                        self.mark("alt_open")
                        self.mark("exit", "loopcond", [])
                        self.mark("alt_close")
                        self.mark("alt_open")
                        st["loop_br"] = True
                    bind_now = st["kind"] == "iflet"
                    st["in_block"] = True
                elif at_depth and st["kind"] in ("if", "iflet") and not st["loop"] and st["cond_open"]:
                    if st["kind"] == "if":
                        release_cond_temps(st)          # temporaries of an `if` condition
                    else:
                        bind_now = True
                    st["cond_open"] = False
                    st["br_opened"] = True
                    st["in_block"] = True
                    self.mark("br_open")
                    self.mark("alt_open")
                elif at_depth and st["else_pending"]:
                    st["else_pending"] = False
                    st["in_block"] = True
                    self.mark("alt_open")
                elif at_depth and (st["kind"] == "match" or st["init_kw"] == "match") and st["scrut"] is None:
                    st["scrut"] = last_chain or ("Untracked", None, None)
                    matchbody = True
                    self.mark("br_open")
                braces.append({"stmts": len(stmts), "matchbody": matchbody})
                self.scopes.append({})
                if bind_now:
                    # the pattern variables of `if let` / `while let` live in the body block
                    self.bind_pattern(st, last_chain, off)
                chain = None
                need_stmt = True
                i += 1
                continue
            if t == "}":
                b = braces.pop()
                while len(stmts) > b["stmts"]:
                    end_stmt(off)
                self.pop_scope(off)
                if b["matchbody"]:
                    self.mark("br_close")
                chain = None
                need_stmt = False
                if closures and closures[-1]["braced"] and closures[-1]["brace_level"] == len(braces):
                    close_closure(off)
                st = stmts[-1] if stmts else None
                if st and st["depth"] == len(braces) and st["in_block"]:
                    st["in_block"] = False
                    if not st["loop"]:
                        self.mark("alt_close")
                        if nxt == "else":
                            st["saw_else"] = True
                if st and st["depth"] == len(braces) and st["nested"] and nxt == ";" \
                        and not parens_open_in_stmt(parens, st):
                    end_stmt(off)           # the nested `if` of a let initializer; the let goes on to `;`
                elif st and st["depth"] == len(braces) and not parens_open_in_stmt(parens, st) \
                        and st["kind"] in ("if", "iflet", "match", "loop", "expr") \
                        and nxt not in ("else", ".", "?", ";", ")", ",", "=>", "=", "|"):
                    if st["nested"] or st["arm"]:
                        end_upto_arm(off)
                    else:
                        end_stmt(off)
                    need_stmt = True
                if not stmts and not braces:
                    need_stmt = True
                i += 1
                continue
            if t == "else":
                if nxt == "if":
                    die("%s: `else if` is not supported by the translator" % self.where(off))
                if st:
                    st["else_pending"] = True
                chain = None
                i += 1
                continue
            if t == "=>" and st and st["arm"] and st["depth"] == len(braces):
                if nxt in EXITS:
                    st["exit"] = nxt
                elif nxt in CONTROL:
                    need_stmt = True
                    nested_next = True
                chain = None
                i += 1
                continue
            if t == "=" and st and st["kind"] == "iflet" and st["depth"] == len(braces):
                st["pat_done"] = True
            if t == "=" and st and toks[st["start"]][0] == "*" and nxt == "true" \
                    and any(g.live and g.res == "CStop" for g in st["temps"]):
                self.ev.append(("setstop", None, self.where(off)))
            if t == "," and closures and not closures[-1]["braced"] \
                    and closures[-1]["paren_level"] == len(parens) and closures[-1]["brace_level"] == len(braces):
                close_closure(off)
            if t == ";" or (t == "," and st and st["depth"] == len(braces) and not parens
                            and braces and st["kind"] != "let"):
                if st and st["depth"] == len(braces) and not parens_open_in_stmt(parens, st):
                    if t == ";" and st["kind"] == "let":
                        if st["has_q"]:
                            # `let v = e?;`: the early return happens before v exists
                            if any(e[0] not in ("M", "upgrade") for e in self.ev[st["ev_start"]:]) or st["temps"]:
                                die("%s: `?` in a statement with lock events is not supported" % self.where(off))
                            self.mark("br_open")
                            self.mark("alt_open")
                            self.mark("exit", "return", self.cleanup_events(0, off))
                            self.mark("alt_close")
                            self.mark("alt_open")
                            self.mark("alt_close")
                            self.mark("br_close")
                            st["has_q"] = False
                            st["was_q"] = True
                        self.bind_let(st, last_chain if last_chain_end == i - 1 else None, off)
                    elif t == ";" and last_chain_end == i - 1 and last_chain and last_chain[1] is not None \
                            and last_chain[1] in st["temps"] \
                            and any(toks[k][0] == "=" for k in range(st["start"], i)) \
                            and toks[st["start"]][0] != "*":
                        die("%s: a lock guard is assigned to an existing variable (not supported)" % self.where(off))
                    if t == ",":
                        end_upto_arm(off)
                    else:
                        end_stmt(off)
                    need_stmt = True
                chain = None
                i += 1
                continue
            if t == "(":
                parens.append({"call": None, "stmt": len(stmts)})
                chain = None
                i += 1
                continue
            if t == ")":
                if closures and not closures[-1]["braced"] and closures[-1]["paren_level"] == len(parens) \
                        and closures[-1]["brace_level"] == len(braces):
                    close_closure(off)
                p = parens.pop()
                chain = None
                if p["call"]:
                    chain = self.finish_call(p["call"], off, stmts)
                    last_chain, last_chain_end = chain, i
                i += 1
                continue

            # ---- chains
            if t == "." and re.match(r"[A-Za-z_0-9]", nxt or " "):
                name = nxt
                after = toks[i + 2][0] if i + 2 < n else ""
                if after == "(":
                    parens.append({"call": (chain, name, toks[i + 1][1]), "stmt": len(stmts)})
                    chain = None
                    i += 3
                    continue
                if chain:
                    ty = field_type(chain[0], name)
                    chain = (ty, None, None)
                    last_chain, last_chain_end = chain, i + 1
                i += 2
                continue
            if t == "?":
                if st:
                    st["has_q"] = True
                last_chain_end = i
                i += 1
                continue
            if re.match(r"[A-Za-z_]", t) and prev not in (".",):
                # path?
                if nxt == "::":
                    path = [t]
                    j = i
                    while j + 2 < n and toks[j + 1][0] == "::":
                        path.append(toks[j + 2][0])
                        j += 2
                    after = toks[j + 1][0] if j + 1 < n else ""
                    p = "::".join(path)
                    if after == "(" and p in ("thread::spawn", "Ticker::new") or \
                       (after == "(" and path[0] == "Self" and (self.fn.typ, path[-1]) in self.fntab):
                        parens.append({"call": (("path", None, None), p, off), "stmt": len(stmts)})
                        chain = None
                        i = j + 2
                        continue
                    if p in ("TargetKind::Multi", "Self::Multi", "Drawable::Multi") and after == "{":
                        self.bind_struct_pattern(p, j + 1)
                    chain = None
                    i = j + 1
                    continue
                if t == "drop" and nxt == "(" and toks[i + 3][0] == ")":
                    v = self.lookup(toks[i + 2][0])
                    if v is not None:
                        self.drop_var(v, off)
                    chain = None
                    i += 4
                    continue
                if t in self.cb and nxt == "(":
                    parens.append({"call": (("callback", None, None), t, off), "stmt": len(stmts)})
                    chain = None
                    i += 2
                    continue
                v0 = self.lookup(t)
                if v0 is not None and v0.live and v0.typ == "ArcBar" and prev in ("{", ",") and nxt in (",", "}"):
                    v0.live = False                 # moved into a struct literal (`ProgressBar { state, .. }`)
                    chain = None
                    i += 1
                    continue
                if t == "self":
                    chain = (self.selfty, None, None)
                elif t == "tracker":
                    chain = ("Tracker", None, None)
                elif self.lookup(t) is not None and self.lookup(t).live:
                    v = self.lookup(t)
                    chain = (v.typ, v if v.res else None, t)
                else:
                    chain = None
                last_chain, last_chain_end = chain, i
                i += 1
                continue
            chain = None
            i += 1
        while stmts:
            end_stmt(self.fn.body_off + len(self.fn.body))
        while self.scopes:
            self.pop_scope(self.fn.body_off + len(self.fn.body))
        if self.held or closures:
            die("%s::%s: guards or closures still open at the end of the body" % (self.fn.typ, self.fn.name))
        return self.ev

    # -- bindings
    def bind_let(self, st, chain, off):
        name = st["name"]
        if st["init_kw"] in ("match", "if"):
            chain = st["scrut"]
            if chain and chain[1] is None and chain[0] != "LeafDrawable":
                return          # `let x = match e {..}`: x has the arms' type, only a guard is tracked
        if name == "_" or not chain or name is None:
            return
        ty, g, _ = chain
        block = self.scopes[-2]     # scopes[-1] is the statement's virtual scope
        if g is not None and g in st["temps"]:
            st["temps"].remove(g)
            g.typ = ty
            block[name] = g
        elif ty == "OptArcBar" and st.get("was_q"):
            block[name] = Var("ArcBar")            # `let state = self.state.upgrade()?;`
            self.owned.append(block[name])
        elif ty not in ("Untracked",) and g is None:
            block[name] = Var(ty)

    def bind_pattern(self, st, chain, off):
        names = [x for x in st["pat"] if re.match(r"[a-z_][a-z0-9_]*$", x) and x not in ("mut", "ref", "_")]
        if not names or not chain:
            return
        name, (ty, g, _) = names[0], chain
        sc = self.scopes[-1]
        if ty == "OptTickerOwned":
            sc[name] = Var("TickerOwned")
            self.owned.append(sc[name])
        elif ty == "OptTickerRef":
            sc[name] = Var("Ticker")
        elif ty == "OptArcBar":
            sc[name] = Var("ArcBar")
            self.owned.append(sc[name])
        elif ty == "OptRemote":
            sc[name] = Var("MultiLock")
        elif ty == "Drawable" and g is not None and g in st["temps"]:
            st["temps"].remove(g)
            g.typ = "Drawable"
            sc[name] = g
            # `if let Some(d) = target.drawable(..) { .. }`: the guard exists only on the Some path, so the
            # acquisition belongs to that alternative (it is the last event before the branch markers)
            k = len(self.ev) - 1
            while k >= 0 and self.ev[k][0] == "M":
                k -= 1
            if k < 0 or self.ev[k][0] != "acq" or self.ev[k][1] != g.res:
                die("%s: cannot attribute the guard of an `if let Some(..)` scrutinee" % self.where(off))
            self.ev.append(self.ev.pop(k))
            if self.alt_stack:          # ... so it counts as created inside that alternative
                a = self.alt_stack[-1]
                a["snap"] = [(v, live) for v, live in a["snap"] if v is not g]
                a["held"] = [x for x in a["held"] if x is not g]
        elif ty == "LeafDrawable":
            sc[name] = Var("LeafDrawable")

    def bind_struct_pattern(self, path, open_idx):
        """`TargetKind::Multi { .. state .. } =>` binds state: the lock; `Drawable::Multi {..} =>`: the held guard"""
        toks = self.toks
        d, j = 0, open_idx
        names = []
        while True:
            if toks[j][0] == "{":
                d += 1
            elif toks[j][0] == "}":
                d -= 1
                if d == 0:
                    break
            elif d == 1:
                names.append(toks[j][0])
            j += 1
        after = toks[j + 1][0] if j + 1 < len(toks) else ""
        if after not in ("=>", "="):
            return      # a struct literal (expression), not a pattern
        if "state" in names:
            is_lock = path == "TargetKind::Multi" or (path == "Self::Multi" and self.fn.typ != "Drawable")
            self.scopes[-1]["state"] = Var("MultiLock" if is_lock else "MultiState")

    # -- calls
    def finish_call(self, call, off, stmts):
        recv, name, noff = call
        st = stmts[-1]
        ty = recv[0] if recv else None
        g = recv[1] if recv else None
        w = self.where(noff)

        def temp(res, gty):
            gv = self.acquire(res, noff, " %s.%s()" % (ty, name))
            gv.typ = gty
            st["temps"].append(gv)
            return (gty, gv, None)

        if ty == "path":
            if name == "thread::spawn":
                self.ev.append(("spawn", None, w))
                return ("Untracked", None, None)
            if name == "Ticker::new":
                self.ev.append(("call", ("Ticker", "new"), w))
                return ("Untracked", None, None)
            self.ev.append(("call", (self.fn.typ, name.split("::")[-1]), w))
            return (self.selfty, None, None)
        if ty == "callback":
            self.ev.append(("callback", None, w))
            return ("Untracked", None, None)
        if ty in (None, "Untracked"):
            if name == "join":
                self.ev.append(("join", None, w))
            elif name == "format_state":
                self.ev.append(("callback", None, w + " ProgressTracker::write via format_state"))
            elif name in ("lock", "write", "read", "try_lock", "try_write", "try_read", "wait", "wait_timeout",
                          "wait_while", "wait_timeout_while", "notify_one", "notify_all", "spawn"):
                die("%s: `.%s()` on a receiver the translator cannot type" % (w, name))
            else:
                IGNORED.append((self.fn.typ, self.fn.name, name, w))
            return ("Untracked", None, None)
        if ty == "Tracker":
            self.ev.append(("callback", None, w + " ProgressTracker::" + name))
            return ("Untracked", None, None)
        if ty == "Safe":
            return ("Safe", None, None)
        if (ty, name) in PRIM:
            gty, res = PRIM[(ty, name)]
            return temp(res, gty)
        if ty == "StopCondvar":
            if name == "notify_one":
                self.ev.append(("notify", None, w))
                return ("Untracked", None, None)
            if name == "wait_timeout_while":
                gs = [x for x in st["temps"] if x.live and x.res == "CStop"]
                if len(gs) != 1 or self.held[-1] is not gs[0]:
                    die("%s: wait_timeout_while without exactly the Stop guard as innermost guard" % w)
                # wait_timeout_while = loop { predicate; deadline; wait }: zero or more waits
                self.mark("loop_open")
                self.ev.append(("waitrel", "CStop", w))
                self.ev.append(("acq", "CStop", w + " (re-acquired by the wait)"))
                self.mark("loop_close")
                return ("StopGuard", gs[0], None)
            die("%s: condvar method %s not modelled" % (w, name))
        if ty in LEAF:
            return ("LeafDrawable" if name == "drawable" else "Untracked", None, None)
        if (ty, name) in RET_GUARD:
            gty, res = RET_GUARD[(ty, name)]
            return temp(res, gty)
        impl_ty = {"BarTarget": "ProgressDrawTarget", "TickerOwned": "Ticker"}.get(ty, ty)
        if (impl_ty, name) in self.fntab:
            callee = self.fntab[(impl_ty, name)]
            self.ev.append(("call", (impl_ty, name), w))
            if callee.by_value_self and g is not None and g.owned:
                self.release(g)          # consumed: Drawable::draw(self) / clear(self)
            if (impl_ty, name) == ("ProgressDrawTarget", "remote"):
                return ("OptRemote", None, None)
            if callee.by_value_self and impl_ty == "ProgressBar":
                return ("ProgressBar", None, None)
            return ("Untracked", None, None)
        if name in STD:
            if (ty, name) == ("SlotGuard", "take"):
                return ("OptTickerOwned", None, None)
            if (ty, name) == ("SlotGuard", "as_ref"):
                return ("OptTickerRef", None, None)
            if (ty, name) == ("WeakBar", "upgrade"):
                self.ev.append(("upgrade", None, w))
                return ("OptArcBar", None, None)
            if STD[name] is None:
                return (ty, g, None)
            return (STD[name], None, None)
        die("%s: method `%s` on tracked type %s is not known to the translator" % (w, name, ty))


def parens_open_in_stmt(parens, st):
    return any(p["stmt"] > st["idx"] for p in parens)


IGNORED = []
FILETEXT = {}
STRUCT_FIELDS = {}      # (struct name, field) -> type text
TRACKED_WORDS = re.compile(r"\b(ProgressBar|WeakProgressBar|BarState|MultiProgress|MultiState|ProgressDrawTarget|"
                           r"TargetKind|Drawable|Ticker|TickerControl|Mutex|RwLock|Condvar|JoinHandle|MutexGuard|"
                           r"RwLockWriteGuard|RwLockReadGuard|TermLike|Term|ProgressTracker|ProgressStyle)\b")


def parse_structs(text):
    for m in re.finditer(r"struct\s+(\w+)(?:<[^>{]*>)?\s*\{", text):
        end = match_brace(text, m.end() - 1)
        body = text[m.end():end - 1]
        for fm in re.finditer(r"(?:pub(?:\([a-z]+\))?\s+)?(\w+)\s*:\s*([^,]+),", body):
            STRUCT_FIELDS[(m.group(1), fm.group(1))] = fm.group(2).strip()


def field_type(ty, name):
    if (ty, name) in FIELDS:
        return FIELDS[(ty, name)]
    if ty == "Safe":
        return "Safe"
    impl_ty = {"BarTarget": "ProgressDrawTarget", "LeafTarget": "ProgressDrawTarget", "TickerOwned": "Ticker"}.get(ty, ty)
    ft = STRUCT_FIELDS.get((impl_ty, name))
    if ft is not None and not TRACKED_WORDS.search(ft):
        return "Safe"       # a field whose type mentions no lock, no tracked type and no user callback
    return "Untracked"


# ------------------------------------------------------------------ whole-program part
FILES = ["progress_bar.rs", "multi.rs", "state.rs", "draw_target.rs"]
LOCK_CALL = re.compile(r"\.\s*(lock|write|read|try_lock|try_write|try_read|wait_timeout_while|wait_timeout|wait|"
                       r"wait_while|notify_one|notify_all|join)\s*\(\s*\)|\.\s*(wait_timeout_while|wait_timeout|wait_while)\s*\(|"
                       r"thread::spawn\s*\(")


def validate_guard_fns(fntab):
    f = fntab[("ProgressBar", "state")]
    if re.sub(r"\s+", "", f.body) != "self.state.lock().unwrap()":
        die("ProgressBar::state() is no longer `self.state.lock().unwrap()`")
    f = fntab[("ProgressDrawTarget", "drawable")]
    locks = LOCK_CALL.findall(f.body)
    m = re.search(r"TargetKind::Multi\s*\{[^}]*\}\s*=>\s*\{\s*let\s+state\s*=\s*state\.write\(\)\.unwrap\(\);\s*"
                  r"Some\(Drawable::Multi\s*\{", f.body)
    if len(locks) != 1 or not m:
        die("ProgressDrawTarget::drawable(): expected exactly one lock call, `state.write()` moved into Drawable::Multi")


def check_new_remote(texts):
    """MultiState.draw_target is never TargetKind::Multi: new_remote() has one caller, internalize()"""
    uses = []
    for f, t in texts.items():
        for m in re.finditer(r"new_remote\s*\(", t):
            uses.append((f, line_of(t, m.start()), t[max(0, m.start() - 60):m.start()]))
    callers = [u for u in uses if "fn " not in u[2].split("\n")[-1]]
    if len(callers) != 1 or callers[0][0] != "multi.rs" or "pb.set_draw_target(ProgressDrawTarget::" not in callers[0][2]:
        die("ProgressDrawTarget::new_remote has callers other than MultiProgress::internalize: %r" % (callers,))
    for f, t in texts.items():
        for m in re.finditer(r"TargetKind::Multi\s*\{", t):
            if f != "draw_target.rs":
                die("TargetKind::Multi constructed/matched outside draw_target.rs (%s:%d)" % (f, line_of(t, m.start())))


def flatten(key, fntab, stack, memo):
    if key in memo:
        return memo[key]
    if key in stack:
        die("call cycle: " + " -> ".join("%s::%s" % k for k in stack + [key]))
    fn = fntab.get(key)
    if fn is None:
        die("call to unknown function %s::%s" % key)
    out = []
    for ev in fn.events:
        if ev[0] == "M":
            continue
        if ev[0] == "call":
            if ev[1] in RET_GUARD_IMPL:
                die("guard constructor %s::%s reached as a plain call" % ev[1])
            out.extend(flatten(ev[1], fntab, stack + [key], memo))
        else:
            out.append(ev)
    memo[key] = out
    return out


RET_GUARD_IMPL = {("ProgressBar", "state"), ("ProgressDrawTarget", "drawable")}
COQ = {"acq": "CAcq %s", "rel": "CRel %s", "waitrel": "CWaitRel %s", "setstop": "CSetStop", "notify": "CNotify",
       "spawn": "CSpawn", "join": "CJoin", "callback": "CCallback", "tick": "CTick", "upgrade": "CUpgrade",
       "droparc": "CDropArc"}


def coq_list(evs):
    items = [(COQ[e[0]] % e[1]) if "%s" in COQ[e[0]] else COQ[e[0]] for e in evs]
    return "[" + "; ".join(items) + "]"


def check_balanced(name, evs):
    held = []
    for e in evs:
        if e[0] == "acq":
            held.append(e[1])
        elif e[0] == "rel":
            if e[1] not in held:
                die("%s: releases %s which it does not hold" % (name, e[1]))
            held.remove(e[1])
        elif e[0] == "waitrel":
            if held != [e[1]]:
                die("%s: condvar wait while holding %s" % (name, held))
            held.remove(e[1])
    if held:
        die("%s: unbalanced footprint, still holds %s" % (name, held))



# ------------------------------------------------------------------ structured programs
# nodes: ("act", ev) | ("call", key) | ("seq", [nodes]) | ("br", [[nodes], ...]) | ("loop", [nodes])
#        | ("exit", kind, [nodes])      kind: return | break | continue | loopcond
def ev_node(e):
    return ("call", e[1]) if e[0] == "call" else ("act", e)


def build_tree(events, what):
    pos = [0]

    def is_m(k):
        return pos[0] < len(events) and events[pos[0]][0] == "M" and events[pos[0]][1] == k

    def parse_seq(stops):
        items = []
        while pos[0] < len(events):
            e = events[pos[0]]
            if e[0] != "M":
                items.append(ev_node(e))
                pos[0] += 1
                continue
            k = e[1]
            if k in stops:
                return items
            if k == "br_open":
                pos[0] += 1
                alts = []
                while is_m("alt_open"):
                    pos[0] += 1
                    alt = parse_seq(("alt_close",))
                    if not is_m("alt_close"):
                        die("%s: structure markers do not nest (alt)" % what)
                    pos[0] += 1
                    alts.append(alt)
                if not is_m("br_close"):
                    die("%s: structure markers do not nest (branch): %r" % (what, events[pos[0]:pos[0] + 3]))
                pos[0] += 1
                items.append(("br", alts))
            elif k == "loop_open":
                pos[0] += 1
                body = parse_seq(("loop_close",))
                if not is_m("loop_close"):
                    die("%s: structure markers do not nest (loop)" % what)
                pos[0] += 1
                items.append(("loop", body))
            elif k == "exit":
                items.append(("exit", e[2], build_tree(e[3], what + " (exit clean-up)")))
                pos[0] += 1
            else:
                die("%s: unexpected structure marker %s" % (what, k))
        return items

    items = parse_seq(())
    if pos[0] != len(events):
        die("%s: structure markers do not nest (top)" % what)
    return items


def open_exit(nodes, in_loop=False):
    """does control possibly leave this node list through an exit that is not absorbed by a loop inside it"""
    for t in nodes:
        if t[0] == "exit":
            return True
        if t[0] == "br" and any(open_exit(a) for a in t[1]):
            return True
        if t[0] == "loop":
            for x in walk(t[1]):
                if x[0] == "exit" and x[1] == "return":
                    die("`return` inside a loop is not supported")
    return False


def walk(nodes):
    for t in nodes:
        yield t
        if t[0] == "br":
            for a in t[1]:
                yield from walk(a)
        elif t[0] == "loop":
            yield from walk(t[1])


def attach_seq(items, rest):
    """items, then (on the paths that do not leave early) rest"""
    out = rest
    for it in reversed(items):
        out = attach(it, out)
    return out


def attach(t, rest):
    if t[0] in ("act", "call"):
        return [t] + rest
    if t[0] == "exit":
        return [t]                      # the continuation is cut
    if t[0] == "br":
        if any(open_exit(a) for a in t[1]):
            return [("br", [attach_seq(a, rest) for a in t[1]])]
        return [("br", [attach_seq(a, []) for a in t[1]])] + rest
    if t[0] == "loop":
        return [("loop", attach_seq(t[1], []))] + rest
    die("attach: unknown node %r" % (t[0],))


def simplify(nodes):
    """only applied after the early exits have been resolved (attach): an exit is then just its clean-up,
    so empty exits, empty alternatives that repeat, branches without any action and empty loops disappear"""
    out = []
    for t in nodes:
        if t[0] == "br":
            alts = []
            for a in (simplify(a) for a in t[1]):
                if a not in alts:
                    alts.append(a)
            if alts == [[]] or not alts:
                continue
            if len(alts) == 1:
                out.extend(alts[0])
            else:
                out.append(("br", alts))
        elif t[0] == "loop":
            body = simplify(t[1])
            if body:
                out.append(("loop", body))
        elif t[0] == "exit":
            c = simplify(t[2])
            if c:
                out.append(("exit", t[1], c))
        elif t[0] == "seq":
            out.extend(simplify(t[1]))
        else:
            out.append(t)
    return out


def inline_tree(key, trees, stack, memo):
    if key in memo:
        return memo[key]
    if key in stack:
        die("call cycle: " + " -> ".join("%s::%s" % k for k in stack + [key]))
    if key not in trees:
        die("call to unknown function %s::%s" % key)

    def go(nodes):
        out = []
        for t in nodes:
            if t[0] == "call":
                if t[1] in RET_GUARD_IMPL:
                    die("guard constructor %s::%s reached as a plain call" % t[1])
                sub = inline_tree(t[1], trees, stack + [key], memo)
                if sub:
                    out.append(("seq", sub))
            elif t[0] == "br":
                out.append(("br", [go(a) for a in t[1]]))
            elif t[0] == "loop":
                out.append(("loop", go(t[1])))
            elif t[0] == "exit":
                out.append(("exit", t[1], go(t[2])))
            else:
                out.append(t)
        return out

    memo[key] = simplify(go(trees[key]))
    return memo[key]


def tree_linear(nodes):
    """textual order: every alternative once, every loop body once, exits (clean-up of an early exit) skipped"""
    out = []
    for t in nodes:
        if t[0] == "act":
            out.append(t[1])
        elif t[0] == "seq":
            out.extend(tree_linear(t[1]))
        elif t[0] == "br":
            for a in t[1]:
                out.extend(tree_linear(a))
        elif t[0] == "loop":
            out.extend(tree_linear(t[1]))
    return out


def coq_prog(nodes):
    items = []
    for t in nodes:
        if t[0] == "act":
            e = t[1]
            items.append("PAct (%s)" % ((COQ[e[0]] % e[1]) if "%s" in COQ[e[0]] else COQ[e[0]]))
        elif t[0] == "seq":
            items.append(coq_prog(t[1]))
        elif t[0] == "br":
            items.append("PBranch [%s]" % "; ".join(coq_prog(a) for a in t[1]))
        elif t[0] == "loop":
            items.append("PLoop (%s)" % coq_prog(t[1]))
        elif t[0] == "exit":
            items.append("PExit (%s)" % coq_prog(t[2]))
        else:
            die("coq_prog: node %r" % (t[0],))
    if len(items) == 1:
        return items[0]
    return "PSeq [%s]" % "; ".join(items)


def main(argv):
    repo = REPO
    out = OUT
    if "--repo" in argv:
        repo = argv[argv.index("--repo") + 1]
    if "--out" in argv:
        out = argv[argv.index("--out") + 1]
    fntab, texts, raws = {}, {}, {}
    for f in FILES:
        raw, text, fns = parse_file(os.path.join(repo, "src", f), f)
        texts[f], raws[f] = text, raw
        parse_structs(text)
        FILETEXT[f] = text
        for fn in fns:
            if fn.typ in TRACKED_IMPLS:
                if (fn.typ, fn.name) in fntab:
                    die("duplicate function %s::%s" % (fn.typ, fn.name))
                fntab[(fn.typ, fn.name)] = fn
    for need in [("ProgressBar", "state"), ("ProgressDrawTarget", "drawable"), ("Ticker", "drop:drop"),
                 ("BarState", "drop:drop"), ("TickerControl", "run"), ("Ticker", "stop"), ("Ticker", "new"),
                 ("BarState", "tick"), ("ProgressBar", "tick_inner")]:
        if need not in fntab:
            die("expected function %s::%s not found" % need)
    validate_guard_fns(fntab)
    check_new_remote(texts)
    # scan
    covered = set()
    for key, fn in sorted(fntab.items()):
        if key in RET_GUARD_IMPL:
            fn.events = []
            for m in LOCK_CALL.finditer(fn.body):
                covered.add((fn.file, line_of(texts[fn.file], fn.body_off + m.start())))
            continue
        sc = Scanner(fn, fntab)
        fn.events = sc.run()
        if key == ("BarState", "tick"):
            if not re.search(r"self\.state\.tick\s*=\s*self\.state\.tick\.saturating_add\(1\)", fn.body):
                die("BarState::tick no longer increments state.tick by saturating_add(1)")
            fn.events.insert(0, ("tick", None, "state.rs:%d" % fn.line))
        for ev in fn.events:
            if ev[0] in ("acq", "waitrel", "notify", "join", "spawn"):
                mm = re.match(r"(\w+\.rs):(\d+)", ev[2])
                covered.add((mm.group(1), int(mm.group(2))))
    # every lock / condvar / spawn / join call site of the four files must be covered by a footprint
    sites = []
    for f in FILES:
        for m in LOCK_CALL.finditer(texts[f]):
            sites.append((f, line_of(texts[f], m.start()), m.group(0)))
    missing = [s for s in sites if (s[0], s[1]) not in covered and (s[0], s[1] - 1) not in covered
               and (s[0], s[1] + 1) not in covered]
    if missing:
        die("lock/condvar/spawn/join call sites not covered by any footprint: %r" % missing)
    # calls through receivers the translator could not type, whose name is a tracked function with effects
    memo = {}
    flat = {k: flatten(k, fntab, [], memo) for k in fntab if k not in RET_GUARD_IMPL}
    eff_names = {}
    for (t, n), evs in flat.items():
        if any(e[0] in ("acq", "join", "spawn", "waitrel") for e in evs):
            eff_names.setdefault(n, []).append(t)
    for k in MUST_BE_LOCK_FREE:
        if k not in flat or any(e[0] in ("acq", "join", "spawn", "waitrel") for e in flat[k]):
            die("%s::%s is expected to run under the caller's Multi guard without taking a lock itself" % k)
    suspicious = [x for x in IGNORED if x[2] in eff_names and (x[0], x[1], x[2]) not in IGNORE_OK]
    if suspicious:
        die("calls on untyped receivers that share a name with a locking function: %r" % suspicious)
    # structured programs: control flow from the markers, early exits resolved, callees inlined
    trees = {}
    for key, fn in fntab.items():
        if key in RET_GUARD_IMPL:
            trees[key] = []
            continue
        raw = build_tree(fn.events, "%s::%s" % key)
        trees[key] = simplify(attach_seq(raw, []))
    tmemo = {}
    prog = {k: inline_tree(k, trees, [], tmemo) for k in fntab if k not in RET_GUARD_IMPL}
    for k in prog:
        a = [(e[0], e[1]) for e in tree_linear(prog[k])]
        b = [(e[0], e[1]) for e in flat[k]]
        if a != b:
            die("%s::%s: the structured program and the linear footprint disagree:\n %r\n %r" % (k[0], k[1], a, b))
    # synthesized: dropping a ProgressBar handle (field order of the struct), cloning one
    m = re.search(r"pub struct ProgressBar\s*\{([^}]*)\}", texts["progress_bar.rs"])
    fields = re.findall(r"(\w+)\s*:\s*([^,]+),", m.group(1))
    drop_ev = []
    drop_tree = []      # each field: the Drop impl runs only if this handle held the last reference
    for fname, fty in fields:
        fty = re.sub(r"\s+", "", fty)
        if fty == "Arc<Mutex<BarState>>":
            drop_ev.append(("droparc", None, "progress_bar.rs: field " + fname))
            drop_ev.extend(flat[("BarState", "drop:drop")])
            drop_tree.append(("act", drop_ev[0]))
            drop_tree.append(("br", [[("seq", prog[("BarState", "drop:drop")])], []]))
        elif fty == "Arc<Mutex<Option<Ticker>>>":
            drop_ev.extend(flat[("Ticker", "drop:drop")])
            drop_tree.append(("br", [[("seq", prog[("Ticker", "drop:drop")])], []]))
        elif fty == "Arc<AtomicPosition>":
            pass
        else:
            die("ProgressBar has a field of a type the translator does not know: %s: %s" % (fname, fty))
    # output
    table = []
    programs = {}
    for (t, n), fn in sorted(fntab.items()):
        if (t, n) in RET_GUARD_IMPL:
            continue
        if t in ("ProgressBar", "MultiProgress", "WeakProgressBar", "ProgressDrawTarget") and fn.public:
            table.append(("%s::%s" % (t, n), flat[(t, n)], "%s:%d" % (fn.file, fn.line)))
            programs["%s::%s" % (t, n)] = prog[(t, n)]
    table.append(("ProgressBar::drop", drop_ev, "progress_bar.rs: struct ProgressBar (drop glue, last handle)"))
    programs["ProgressBar::drop"] = drop_tree
    for nm in ("ProgressBar::clone", "MultiProgress::clone", "MultiProgress::drop"):
        programs[nm] = []
    table.append(("ProgressBar::clone", [], "progress_bar.rs: #[derive(Clone)]"))
    table.append(("MultiProgress::clone", [], "multi.rs: #[derive(Clone)]"))
    table.append(("MultiProgress::drop", [], "multi.rs: no Drop impl on MultiProgress/MultiState"))
    for extra in [("BarState", "drop:drop"), ("Ticker", "drop:drop"), ("Ticker", "stop"), ("Ticker", "new"),
                  ("TickerControl", "run")]:
        table.append(("%s::%s" % extra, flat[extra], "%s:%d" % (fntab[extra].file, fntab[extra].line)))
        programs["%s::%s" % extra] = prog[extra]
    unbalanced = {}
    for name, evs, _ in table:
        try:
            check_balanced(name, evs)
        except XErr as e:
            # the flat (path-insensitive) footprint of a method whose alternatives release different guards
            # is not balanced; the structured program is what counts (prog_ordered); C08_footprints_ordered
            # will reject the flat entry
            sys.stderr.write("locks_extract.py: warning: %s\n" % e)
            unbalanced[name] = str(e)
    lines = ["(* GENERATED by tools/locks_extract.py from %s/src - do not edit. *)" % "/repo",
             "From IndModel Require Import Base Locks.",
             "From Coq Require Import String.",
             "Local Open Scope string_scope.",
             "",
             "(** one entry per public method of ProgressBar / MultiProgress (+ drop/clone and the internal",
             "    pieces): the textual-order linearisation of its lock footprint, callees inlined. *)",
             "Definition all_footprints : list (string * list caction) := ["]
    for k, (name, evs, src) in enumerate(table):
        lines.append("  (* %s *)" % src)
        if name in unbalanced:
            lines.append("  (* NOTE: this linearisation is NOT balanced (its alternatives release different guards); "
                         "best effort only, the structured program below is what the theorems are about *)")
        lines.append('  ("%s", %s)%s' % (name, coq_list(evs), ";" if k + 1 < len(table) else ""))
    lines.append("].")
    lines.append("")
    lines.append("(** the loop body of TickerControl::run: the program of a ticker thread is a repetition of it *)")
    lines.append("Definition ticker_body : list caction := %s." % coq_list(flat[("TickerControl", "run")]))
    lines.append("")
    lines.append("(** the same methods as STRUCTURED programs: the control flow of the Rust bodies (if/else, match,")
    lines.append("    if-let, closures of Option::map, loops; return/break/continue/`?` as [PExit clean-up] with the")
    lines.append("    continuation cut), guards released where they die on each path, callees inlined. *)")
    lines.append("Definition all_programs : list (string * cprog) := [")
    for k, (name, evs, src) in enumerate(table):
        lines.append('  ("%s", %s)%s' % (name, coq_prog(programs[name]), ";" if k + 1 < len(table) else ""))
    lines.append("].")
    lines.append("")
    lines.append("(** source text (comments stripped, white space normalised) of the two bodies that the one-line model")
    lines.append("    Locks.tick_inner transcribes: ProgressBar::tick_inner and BarState::tick *)")
    for nm, key in (("src_tick_inner", ("ProgressBar", "tick_inner")), ("src_barstate_tick", ("BarState", "tick"))):
        txt = re.sub(r"\s+", " ", fntab[key].body).strip()
        if '"' in txt:
            die("%s::%s: body contains a string literal, cannot be pinned" % key)
        lines.append('Definition %s : string := "%s".' % (nm, txt))
    lines.append("")
    lines.append("(** the program of a ticker thread (TickerControl::run): a loop *)")
    lines.append("Definition ticker_prog : cprog := %s." % coq_prog(programs["TickerControl::run"]))
    lines.append("")
    lines.append("(* lock / condvar / spawn / join call sites covered (file:line):")
    for f, l, txt in sites:
        lines.append("   %s:%d  %s" % (f, l, txt.strip().replace("\n", " ")))
    lines.append("*)")
    new = "\n".join(lines) + "\n"
    old = open(out).read() if os.path.exists(out) else None
    if old != new:
        open(out, "w").write(new)
    if "--json" in argv:
        json.dump({"table": [(n, [(e[0], e[1], e[2]) for e in evs], src) for n, evs, src in table],
                   "sites": sites, "ignored": IGNORED}, sys.stdout, indent=1)
    return 0


# calls on receivers the translator cannot type whose NAME coincides with a locking function; each entry
# was checked by hand (file, fn, method): the receiver is not a ProgressBar/MultiProgress/BarState/...
IGNORE_OK = {
    ("BarState", "set_style", "set_tab_width"),      # ProgressStyle::set_tab_width (style.rs: no lock outside tests)
    ("BarState", "set_tab_width", "set_tab_width"),  # ProgressStyle / TabExpandedString
    ("Drawable", "state", "reset"),                  # DrawStateWrapper::reset
    ("Drawable", "width", "width"),                  # dyn TermLike::width: user code, must not re-enter (proviso)
    ("ProgressDrawTarget", "width", "width"),        # dyn TermLike::width: user code
    ("MultiState", "clear", "clear"),                # Drawable::clear on MultiState's own (Term/TermLike) drawable
    ("ProgressBar", "debug:fmt", "finish"),          # fmt::DebugStruct::finish
    ("ProgressDrawTarget", "disconnect", "clear"),   # Drawable::Multi{..}.clear(): runs under the guard acquired on the
                                                     # line before; Drawable::clear/draw themselves take no lock (checked below)
    ("Ticker", "new", "run"),                        # TickerControl::run: body of the spawned thread (ticker_body)
}
MUST_BE_LOCK_FREE = [("Drawable", "clear"), ("Drawable", "draw"), ("Drawable", "state"), ("MultiState", "draw"),
                     ("MultiState", "clear"), ("MultiState", "suspend"), ("MultiState", "println"),
                     ("MultiState", "mark_zombie"), ("MultiState", "remove_idx"), ("MultiState", "insert"),
                     ("MultiState", "width"), ("MultiState", "is_hidden"), ("MultiState", "draw_state")]

if __name__ == "__main__":
    try:
        sys.exit(main(sys.argv[1:]))
    except XErr as e:
        sys.stderr.write("locks_extract.py: ERROR: %s\n" % e)
        sys.exit(2)
