#!/usr/bin/env python3
"""C08 source translator: lock-acquisition footprints of indicatif's public calls.

Reads $VERIF_REPO/src/{progress_bar,multi,state,draw_target}.rs (default /repo) and regenerates
coq/gen/LockFootprints.v (logical path IndGen): for every method of the tracked impl blocks the
ORDER in which it acquires / releases the four lock classes

    Slot  = ProgressBar.ticker   : Arc<Mutex<Option<Ticker>>>     (.ticker.lock())
    Bar   = ProgressBar.state    : Arc<Mutex<BarState>>           (.state()/.state.lock()/arc.lock())
    Multi = MultiProgress.state  : Arc<RwLock<MultiState>>        (.write()/.read())
    Stop  = Ticker.stopping.0    : Mutex<bool> (+ Condvar .1)     (.stopping.0.lock())

plus spawn / join / condvar wait / notify / user callbacks, following calls into the other tracked
methods (inlined, any depth; recursion is an error) and the implicit drops that matter (an owned
Ticker, an upgraded Arc<Mutex<BarState>>, a ProgressBar handle).

What is a footprint: the TEXTUAL-ORDER LINEARISATION of the method body - all branches in
sequence, `return`/`break` ignored - with Rust's guard lifetimes (let-bound guard: to the end of
its block or `drop(v)`/consuming call; temporary: to the end of the statement; temporaries of an
`if` condition: to the end of the condition; of an `if let`/`match`/`while let` scrutinee: to the
end of the construct).  Every real path of the call is obtained from it by deleting balanced
segments (Locks.Thin), which preserves Ordered (LocksProofs.Ordered_thin).

Besides the flat footprints (all_footprints) it emits STRUCTURED programs (all_programs : list (string * cprog),
ticker_prog): the scanner drops structure markers into the event stream (branch / alternative / loop / exit),
build_tree() turns them into a tree, attach() resolves early exits by cutting the continuation (the statements
after an `if`/`match` go only into the alternatives that do not leave; an exit keeps the list of guards and
owned values that die on the way out), inline_tree() inlines callees; tree_linear(program) must equal the flat
footprint (checked here and again in Coq: C08_tables_agree).

Scope and honesty (second audit, N4).  The translator does NOT understand arbitrary Rust.
What is followed: method calls on receivers the translator can type (self, parameters and let-bound values of
the tracked types; fields through explicit tables; fields whose declared type mentions no
lock/tracked/callback type are resolved through the struct declarations), `Self::f(..)`/`Type::f(..)` path
calls to tracked methods (inlined), thread::spawn, Ticker::new, the guard constructors state()/drawable(),
closures passed to Option::map, by-value ProgressBar handles (implicit drop at the end of the body unless
moved out), implicit drops of an owned Ticker / upgraded Arc. What is accepted as lock free: a call resolved
to a crate function outside the tracked impl blocks that a crate-wide fixpoint over all of src/*.rs (except
the TermLike/leaf files in_memory.rs, term_like.rs, verif_clock.rs) found free of lock/condvar/spawn/join
primitives and of calls that may reach one; std and known-crate paths (list STD_HEADS); constructors;
derive/trait methods of crate types (list TRAIT_METHODS); allow-listed macros (matches!, assert*!,
debug_assert*!, format!, write!, writeln!, vec!, panic!, unreachable!, ...): their ARGUMENTS are scanned like
any expression, the expansion is trusted to be lock free, an unknown macro is an error. User callbacks (FnOnce
parameters, ProgressTracker calls, format_state) become CCallback. What is REJECTED (exit 2 with file:line,
the check then reports a broken tie): a path call or a path used as a value (function pointer) that is neither
of the above; a call of a free function of the crate that may take a lock; a bare call `x(..)` of anything
that is not a scanned lock-free free function or a callback parameter (closure variables, function pointers);
a closure with lock events that is bound to a variable or passed to anything but Option::map; a method call on
a receiver of a declared lock-free type that resolves to a crate function that may take a lock; a method call
on a receiver it cannot type whose NAME is the name of any crate function that may take a lock (unless
hand-listed); a lock/condvar/spawn/join primitive or a guard constructor call in a function outside the
tracked impl blocks; a lock site not covered by a footprint; `else if`, control flow in expression position,
`return` in a loop, `?` next to lock events, a guard assigned to a variable or released in only one
non-leaving alternative, call cycles, unknown methods on tracked types. Implicit calls (audit 3, finding 6): the only Drop impls that are inlined are BarState's and Ticker's; every other impl, anywhere in
the crate, of a trait that Rust invokes without a visible call (Drop, Deref, PartialEq/Ord, Display/Debug, Clone, From/Into,
operators, Index, Default, Hash, AsRef/Borrow) must be found lock free by the crate-wide fixpoint, else exit 2.  Cargo.toml must
say edition 2021 (the temporary-lifetime rules implemented here), else exit 2.  What stays TRUSTED: that Iterator/Read/Write/Future
impls of the adaptor types (iter.rs, rayon.rs) are never driven from inside a tracked body; OnceLock::get_or_init is a leaf; the typing tables
(FIELDS, PRIM, STD, RET_GUARD), the hand lists IGNORE_OK (11 name collisions), FIX_OK (3), the macro and
std-path allow-lists, and that a method whose name differs from the name of every lock-taking function of the
crate, called on a receiver the translator cannot type, takes no library lock.
"""
import os, re, sys, json

REPO = os.environ.get("VERIF_REPO", "/repo")
ROOT = os.path.dirname(os.path.dirname(os.path.abspath(__file__)))
OUT = os.path.join(ROOT, "coq", "gen", "LockFootprints.v")


class XErr(Exception):
    pass


def die(msg):
    raise XErr(msg)


# ------------------------------------------------------------------ lexing
def strip_src(src):
    """comments and string/char literals -> blanks (same length, newlines kept)"""
    out, i, n = [], 0, len(src)
    while i < n:
        c = src[i]
        if src.startswith("//", i):
            j = src.find("\n", i)
            j = n if j < 0 else j
            out.append(" " * (j - i))
            i = j
        elif src.startswith("/*", i):
            j = src.find("*/", i) + 2
            out.append(re.sub(r"[^\n]", " ", src[i:j]))
            i = j
        elif c == '"':
            j = i + 1
            while src[j] != '"':
                j += 2 if src[j] == "\\" else 1
            out.append('"' + re.sub(r"[^\n]", " ", src[i + 1:j]) + '"')
            i = j + 1
        elif c == "'" and re.match(r"'(\\.|[^\\'])'", src[i:i + 4]):
            m = re.match(r"'(\\.|[^\\'])'", src[i:i + 4])
            out.append(" " * m.end())
            i += m.end()
        else:
            out.append(c)
            i += 1
    return "".join(out)


TOK = re.compile(r"\s+|([A-Za-z_][A-Za-z0-9_]*|\d+|::|=>|->|\.\.=?|&&|\|\||[=!<>]=|.)", re.S)


def lex(text, base):
    """[(tok, offset)]"""
    toks, i = [], 0
    while i < len(text):
        m = TOK.match(text, i)
        if m.group(1) is not None:
            toks.append((m.group(1), base + m.start(1)))
        i = m.end()
    return toks


def match_brace(text, i):
    """index after the brace group starting at text[i] == '{'"""
    assert text[i] == "{", text[i:i + 20]
    d = 0
    while True:
        if text[i] == "{":
            d += 1
        elif text[i] == "}":
            d -= 1
            if d == 0:
                return i + 1
        i += 1


def strip_cfg_test(text):
    """blank out `#[cfg(test)]` items (a block, or a statement up to `;`)"""
    while True:
        m = re.search(r"#\[cfg\(test\)\]\s*", text)
        if not m:
            return text
        j = m.end()
        if text[j] == "{":
            k = match_brace(text, j)
        else:
            # an item: up to the first `;` or brace group, whichever comes first
            ms = re.compile(r"[;{]").search(text, j)
            k = ms.end() if text[ms.start()] == ";" else match_brace(text, ms.start())
        text = text[:m.start()] + re.sub(r"[^\n]", " ", text[m.start():k]) + text[k:]


# ------------------------------------------------------------------ items
class Fn:
    def __init__(self, file, typ, name, params, by_value_self, body, body_off, line, public):
        self.file, self.typ, self.name = file, typ, name
        self.params, self.by_value_self = params, by_value_self
        self.body, self.body_off, self.line, self.public = body, body_off, line, public
        self.events = None  # list of events after scanning


def line_of(text, off):
    return text.count("\n", 0, off) + 1


def match_paren(text, i):
    assert text[i] == "("
    d = 0
    while True:
        if text[i] == "(":
            d += 1
        elif text[i] == ")":
            d -= 1
            if d == 0:
                return i + 1
        i += 1


def parse_file(path, fname):
    raw = open(path, encoding="utf-8").read()
    text = strip_cfg_test(strip_src(raw))
    text = re.sub(r"#!?\[[^\]\n]*\]", lambda m: " " * len(m.group(0)), text)    # remaining attributes
    fns = []
    for m in re.finditer(r"(?m)^(?:unsafe\s+)?impl\b", text):
        # header up to the `{` at angle depth 0 (generic parameters may nest: impl<T: Into<usize>> From<T> for X)
        j, ang = m.end(), 0
        while not (text[j] == "{" and ang == 0):
            if text[j] == "<":
                ang += 1
            elif text[j] == ">" and text[j - 1] != "-":
                ang -= 1
            elif text[j] == ";" and ang == 0:
                break
            j += 1
        if text[j] != "{":
            continue
        header = text[m.end():j]
        hd, ang, k = "", 0, 0
        while k < len(header):              # drop everything inside angle brackets
            c = header[k]
            if c == "<":
                ang += 1
            elif c == ">" and header[k - 1] != "-":
                ang -= 1
            elif ang == 0:
                hd += c
            k += 1
        hd = re.sub(r"\bwhere\b.*", "", hd, flags=re.S)
        parts = re.split(r"\bfor\b", hd)
        tm = re.findall(r"[A-Za-z_]\w*", parts[-1])
        if not tm:
            die("%s:%d: cannot parse the impl header `impl%s`" % (fname, line_of(text, m.start()), header.strip()))
        typ = tm[-1] if tm[0] in ("dyn",) else tm[0]
        if tm[0] == "Box" and "dyn" in tm:
            typ = tm[-1]
        trait = None
        if len(parts) == 2:
            tr = re.findall(r"[A-Za-z_]\w*", parts[0])
            if not tr:
                die("%s:%d: cannot parse the impl header `impl%s`" % (fname, line_of(text, m.start()), header.strip()))
            trait = tr[-1]
        end = match_brace(text, j)
        blk_lo, blk_hi = j + 1, end - 1
        i = blk_lo
        while True:
            fm = re.compile(r"((?:pub(?:\([a-z]+\))?\s+)?)fn\s+(\w+)").search(text, i, blk_hi)
            if not fm:
                break
            # parameter list: first '(' at angle depth 0 after the name
            j, ang = fm.end(), 0
            while True:
                if text[j] == "<":
                    ang += 1
                elif text[j] == ">" and text[j - 1] != "-":
                    ang -= 1
                elif text[j] == "(" and ang == 0:
                    break
                j += 1
            pe = match_paren(text, j)
            params = text[j + 1:pe - 1]
            k = pe
            while text[k] not in "{;":
                k += 1
            if text[k] == ";":
                i = k + 1
                continue
            be = match_brace(text, k)
            name = fm.group(2)
            if trait:
                name = trait.split("::")[-1].lower() + ":" + name  # e.g. drop:drop
            by_value = bool(re.match(r"\s*(mut\s+)?self\b", params))
            fns.append(Fn(fname, typ, name, params, by_value, text[k + 1:be - 1], k + 1,
                          line_of(text, fm.start(2)), fm.group(1).strip() == "pub"))
            i = be
    return raw, text, fns


# ------------------------------------------------------------------ the typed scan
# self type of an impl block -> scan type
SELF_TY = {"ProgressBar": "ProgressBar", "BarState": "BarState", "MultiProgress": "MultiProgress",
           "MultiState": "MultiState", "ProgressDrawTarget": "BarTarget", "Drawable": "Drawable",
           "Ticker": "Ticker", "TickerControl": "TickerControl", "WeakProgressBar": "WeakProgressBar"}
# impl blocks whose methods get a footprint; everything else in the four files must be lock free
TRACKED_IMPLS = set(SELF_TY)

FIELDS = {
    ("ProgressBar", "state"): "BarMutex", ("ProgressBar", "ticker"): "SlotMutex",
    ("BarState", "draw_target"): "BarTarget",
    ("MultiProgress", "state"): "MultiLock",
    ("MultiState", "draw_target"): "LeafTarget",   # never TargetKind::Multi: see check_new_remote()
    ("Ticker", "stopping"): "StopPair", ("TickerControl", "stopping"): "StopPair",
    ("StopPair", "0"): "StopMutex", ("StopPair", "1"): "StopCondvar",
    ("TickerControl", "state"): "WeakBar", ("Ticker", "join_handle"): "JoinOpt",
    ("WeakProgressBar", "state"): "WeakBar",
}
GUARD_RES = {"BarState": "CBar", "SlotGuard": "CSlot", "MultiState": "CMulti", "StopGuard": "CStop",
             "Drawable": "CMulti"}
# primitive methods: (receiver type, name) -> (events emitted when the call returns, result type, acquires)
PRIM = {
    ("BarMutex", "lock"): ("BarState", "CBar"), ("ArcBar", "lock"): ("BarState", "CBar"),
    ("SlotMutex", "lock"): ("SlotGuard", "CSlot"),
    ("MultiLock", "write"): ("MultiState", "CMulti"), ("MultiLock", "read"): ("MultiState", "CMulti"),
    ("StopMutex", "lock"): ("StopGuard", "CStop"),
}
# methods of std types that keep / change the tracked type; anything else on a tracked type is an error
STD = {
    "unwrap": None, "as_ref": None, "as_mut": None, "expect": None, "clone": "Untracked",
    "is_none": "Untracked", "is_some": "Untracked", "map": "Untracked", "upgrade": None,
    "take": None, "downgrade": "Untracked",
}
# tracked functions that RETURN a guard (validated against their source text in validate_guard_fns)
RET_GUARD = {("ProgressBar", "state"): ("BarState", "CBar"), ("BarTarget", "drawable"): ("Drawable", "CMulti")}
LEAF = {"LeafTarget", "LeafDrawable"}   # MultiState's own draw target: Term/TermLike, no library lock


class Var:
    def __init__(self, typ, res=None, owned=False):
        self.typ, self.res, self.owned, self.live = typ, res, owned, True


class Scanner:
    def __init__(self, fn, fntab):
        self.fn, self.fntab = fn, fntab
        self.ev = []
        self.toks = lex(fn.body, fn.body_off)
        self.scopes = [{}]            # name -> Var, one dict per brace depth (+ virtual stmt scopes)
        self.held = []                # Vars/temps currently holding a resource, in acquisition order
        self.owned = []               # guards and droppable values (owned Ticker, upgraded Arc), creation order
        self.alt_stack = []           # open alternatives: liveness snapshot (see mark)
        self.pure_closures = set()    # variables bound to closures without lock events
        self.cb = set(re.findall(r"\b(\w+)\s*:\s*(?:impl\s+FnOnce|F\b)", fn.params))
        for pm in re.finditer(r"(\w+)\s*:\s*(&?)\s*(?:mut\s+)?ProgressBar\b", fn.params):
            v = Var("ProgressBar")
            self.scopes[0][pm.group(1)] = v
            if not pm.group(2):
                v.handle = True             # by value: dropped at the end of this body unless it is moved out
                self.owned.append(v)
        if fn.typ == "ProgressBar" and fn.by_value_self:
            v = Var("ProgressBar")
            v.handle = True
            self.scopes[0]["self"] = v
            self.owned.append(v)
        self.selfty = SELF_TY[fn.typ]

    # -- helpers
    def where(self, off):
        return "%s:%d (%s::%s)" % (self.fn.file, line_of(FILETEXT[self.fn.file], off), self.fn.typ, self.fn.name)

    def lookup(self, name):
        for sc in reversed(self.scopes):
            if name in sc:
                return sc[name]
        return None

    def acquire(self, res, off, note=""):
        self.ev.append(("acq", res, self.where(off) + note))
        g = Var("guard", res, True)
        self.held.append(g)
        self.owned.append(g)
        return g

    def release(self, g):
        if g.live and g.res:
            g.live = False
            self.held.remove(g)
            self.ev.append(("rel", g.res, ""))

    def drop_var(self, v, off):
        """a value goes out of scope / is dropped explicitly"""
        if not v.live:
            return
        if v.res and v.owned:
            self.release(v)
        elif getattr(v, "handle", False):
            v.live = False
            self.ev.append(("call", ("ProgressBar", "drop:glue"), self.where(off)))
        elif v.typ == "TickerOwned":
            v.live = False
            self.ev.append(("call", ("Ticker", "drop:drop"), self.where(off)))
        elif v.typ == "ArcBar":
            v.live = False
            self.ev.extend(self.arc_drop(off))

    def arc_drop(self, off):
        """drop of an Arc<Mutex<BarState>>: Drop for BarState runs only if it was the last one"""
        return [("droparc", None, self.where(off)), ("M", "br_open"), ("M", "alt_open"),
                ("call", ("BarState", "drop:drop"), self.where(off)), ("M", "alt_close"),
                ("M", "alt_open"), ("M", "alt_close"), ("M", "br_close")]

    def pop_scope(self, off):
        sc = self.scopes.pop()
        for v in reversed(list(sc.values())):
            self.drop_var(v, off)

    # -- structure markers (consumed by build_tree; not part of the flat footprint)
    def mark(self, kind, *args):
        """structure marker.  The scan is one pass, so the liveness of guards must be the same on every way
        through a branch: an alternative that ends in an early exit gets the state restored behind it (the
        fall-through path did not run it); any other alternative that releases / consumes something created
        outside it is an error (the translator cannot follow two different lock states)."""
        if kind == "alt_open":
            self.alt_stack.append({"snap": [(v, v.live) for v in self.owned], "held": list(self.held), "exit": False})
        elif kind == "exit" and self.alt_stack:
            self.alt_stack[-1]["exit"] = True
        elif kind == "alt_close":
            a = self.alt_stack.pop()
            changed = [v for v, live in a["snap"] if v.live != live]
            if a["exit"]:
                for v, live in a["snap"]:
                    v.live = live
                self.held = [g for g in a["held"]]
            elif changed:
                die("%s::%s: a guard or owned value created outside a branch is released in only one of its "
                    "alternatives (and the alternative does not leave the function/loop)" % (self.fn.typ, self.fn.name))
            elif self.alt_stack and a["exit"]:
                self.alt_stack[-1]["exit"] = True
        self.ev.append(("M", kind) + args)

    def cleanup_events(self, mark, off):
        """what dies when control leaves through return / break / continue: everything created since `mark`"""
        out = []
        for v in reversed(self.owned[mark:]):
            if not v.live:
                continue
            if v.res and v.owned:
                out.append(("rel", v.res, ""))
            elif getattr(v, "handle", False):
                out.append(("call", ("ProgressBar", "drop:glue"), self.where(off)))
            elif v.typ == "TickerOwned":
                out.append(("call", ("Ticker", "drop:drop"), self.where(off)))
            elif v.typ == "ArcBar":
                out.extend(self.arc_drop(off))
        return out

    # -- the scan
    def run(self):
        toks = self.toks
        n = len(toks)
        stmts = []      # open statements (dicts)
        braces = []     # for every open '{': {"stmts": open statements before it, "matchbody": bool}
        parens = []     # for every open '(': {"call": call info or None, "stmt": open statements}
        closures = []   # open closure bodies
        loop_marks = []  # len(self.owned) at the entry of every enclosing loop body
        chain = None    # (type, guardVar-or-None, startVarName-or-None)
        last_chain_end = -1
        last_chain = None
        i = 0
        CONTROL = ("if", "match", "while", "for", "loop")
        EXITS = ("return", "break", "continue")

        def new_stmt(i, nested=False):
            kind = "expr"
            t = toks[i][0]
            t1 = toks[i + 1][0] if i + 1 < n else ""
            if t == "let":
                kind = "let"
            elif t in ("if", "while") and t1 == "let":
                kind = "iflet"
            elif t in ("if", "while"):
                kind = "if"
            elif t == "match":
                kind = "match"
            elif t in ("for", "loop"):
                kind = "loop"
            st = {"kind": kind, "temps": [], "depth": len(braces), "start": i, "name": None, "idx": len(stmts),
                  "scrut": None, "init_kw": None, "cond_open": True, "pat": None,
                  "loop": t in ("while", "for", "loop"), "first": t, "exit": t if t in EXITS else None,
                  "arm": bool(braces) and braces[-1]["matchbody"] and len(stmts) == braces[-1]["stmts"],
                  "nested": nested, "in_block": False, "else_pending": False, "br_opened": False,
                  "saw_else": False, "loop_br": False, "has_q": False, "ev_start": len(self.ev)}
            if st["exit"] and t1 in CONTROL:
                die("%s: `%s %s ...` is not supported by the translator" % (self.where(toks[i][1]), t, t1))
            if kind == "let":
                j = i + 1
                if toks[j][0] == "mut":
                    j += 1
                st["name"] = toks[j][0]
                k = j
                while toks[k][0] != "=" and toks[k][0] != ";":
                    k += 1
                if toks[k][0] == "=" and toks[k + 1][0] in CONTROL:
                    st["init_kw"] = toks[k + 1][0]
                    if st["init_kw"] not in ("match", "if"):
                        die("%s: `let .. = %s ..` is not supported by the translator"
                            % (self.where(toks[i][1]), st["init_kw"]))
            if kind == "iflet":
                k = i + 2
                pat = []
                while toks[k][0] != "=":
                    pat.append(toks[k][0])
                    k += 1
                st["pat"] = pat
            if st["arm"]:
                self.mark("alt_open")
            if st["loop"]:
                self.mark("loop_open")
            self.scopes.append({})      # virtual scope of the statement (pattern bindings)
            stmts.append(st)
            return st

        def end_stmt(off):
            st = stmts.pop()
            if st["br_opened"] and not st["loop"]:
                if not st["saw_else"]:
                    self.mark("alt_open")
                    self.mark("alt_close")
                self.mark("br_close")
            for g in reversed(st["temps"]):
                self.release(g)
            self.pop_scope(off)
            if st["has_q"]:
                if any(e[0] not in ("M", "upgrade") for e in self.ev[st["ev_start"]:]):
                    die("%s: `?` in a statement with lock events is not supported" % self.where(off))
                self.mark("br_open")
                self.mark("alt_open")
                self.mark("exit", "return", self.cleanup_events(0, off))
                self.mark("alt_close")
                self.mark("alt_open")
                self.mark("alt_close")
                self.mark("br_close")
            if st["exit"]:
                if st["exit"] == "return":
                    if loop_marks:
                        die("%s: `return` inside a loop is not supported" % self.where(off))
                    m = 0
                else:
                    if not loop_marks:
                        die("%s: `%s` outside a loop" % (self.where(off), st["exit"]))
                    m = loop_marks[-1]
                self.mark("exit", st["exit"], self.cleanup_events(m, off))
            if st["loop"]:
                if st["loop_br"]:
                    self.mark("alt_close")
                    self.mark("br_close")
                self.mark("loop_close")
                if st.get("mark_pushed"):
                    loop_marks.pop()
            if st["arm"]:
                self.mark("alt_close")

        def end_upto_arm(off):
            """a `,` (or the end of an arm block) ends nested control statements and the arm itself"""
            while stmts and stmts[-1]["depth"] == len(braces):
                was = stmts[-1]
                end_stmt(off)
                if not was["nested"]:
                    break

        def release_cond_temps(st):
            for g in reversed(st["temps"]):
                self.release(g)
            st["temps"] = []

        def close_closure(off):
            c = closures.pop()
            has_ev = any(e[0] != "M" for e in self.ev[c["ev_start"]:])
            if c.get("let"):
                if has_ev:
                    die("%s: a closure with lock events is bound to a variable: not supported" % self.where(off))
                self.pure_closures.add(c["let"])
            if has_ev and (not c["call"] or c["call"][1] != "map" or c["iter"]):
                die("%s: closure with lock events passed to `%s` (only Option::map is understood)"
                    % (self.where(off), c["call"][1] if c["call"] else "?"))
            self.mark("alt_close")
            self.mark("alt_open")
            self.mark("alt_close")
            self.mark("br_close")

        need_stmt = True
        nested_next = False
        while i < n:
            t, off = toks[i]
            nxt = toks[i + 1][0] if i + 1 < n else ""
            prev = toks[i - 1][0] if i > 0 else ""
            if need_stmt and t not in ("}", ";"):
                new_stmt(i, nested_next)
                nested_next = False
                need_stmt = False
            elif t == "if" and prev == "=" and stmts and stmts[-1]["kind"] == "let" and stmts[-1]["init_kw"] == "if":
                new_stmt(i, True)           # `let x = if c {a} else {b};`: the `if` is a nested statement
            elif t in CONTROL and not (t == "match" and prev == "=" and stmts and stmts[-1]["kind"] == "let") \
                    and not (t == "if" and prev == "else"):
                die("%s: `%s` in expression position is not supported by the translator" % (self.where(off), t))
            elif t in EXITS and not (stmts and stmts[-1]["start"] == i):
                if not (prev == "=>" and stmts and stmts[-1]["arm"]):
                    die("%s: `%s` in expression position is not supported by the translator" % (self.where(off), t))
            st = stmts[-1] if stmts else None

            # ---- closures: `|args| body` / `move || body` in argument position
            if t in ("|", "||") and (prev == "=" or (prev == "move" and i >= 2 and toks[i - 2][0] == "=")) \
                    and st and st["kind"] == "let":
                st["closure_let"] = True
            if t in ("|", "||") and (prev in ("(", ",", "move") or (st and st.get("closure_let") and prev == "=")):
                j = i
                if t == "|":
                    j = i + 1
                    while toks[j][0] != "|":
                        j += 1
                call = parens[-1]["call"] if parens else None
                itr = any(toks[k][0] in ("iter", "into_iter", "iter_mut", "values", "values_mut", "keys")
                          for k in range(st["start"] if st else 0, i))
                closures.append({"paren_level": len(parens), "brace_level": len(braces),
                                 "braced": toks[j + 1][0] == "{", "call": call, "iter": itr, "ev_start": len(self.ev),
                                 "let": st["name"] if st and st.get("closure_let") else None})
                self.mark("br_open")
                self.mark("alt_open")
                chain = None
                i = j + 1
                continue

            # ---- structure
            if t == "{":
                at_depth = st is not None and st["depth"] == len(braces)
                matchbody = False
                bind_now = False
                if at_depth and st["kind"] == "iflet" and st["cond_open"] and not st.get("pat_done"):
                    at_depth = False        # a brace of the `if let` pattern, not the block
                if at_depth and st["loop"] and not st["in_block"] and not st.get("mark_pushed") \
                        and (st["first"] != "while" or st["cond_open"]):
                    # the body of a loop
                    if st["kind"] == "if":
                        release_cond_temps(st)
                    elif st["temps"]:
                        die("%s: loop condition holding a lock guard is not supported" % self.where(off))
                    st["cond_open"] = False
                    loop_marks.append(len(self.owned))
                    st["mark_pushed"] = True
                    if st["first"] == "while":
                        self.mark("br_open")
                        self.mark("alt_open")
                        self.mark("exit", "loopcond", [])
                        self.mark("alt_close")
                        self.mark("alt_open")
                        st["loop_br"] = True
                    bind_now = st["kind"] == "iflet"
                    st["in_block"] = True
                elif at_depth and st["kind"] in ("if", "iflet") and not st["loop"] and st["cond_open"]:
                    if st["kind"] == "if":
                        release_cond_temps(st)          # temporaries of an `if` condition
                    else:
                        bind_now = True
                    st["cond_open"] = False
                    st["br_opened"] = True
                    st["in_block"] = True
                    self.mark("br_open")
                    self.mark("alt_open")
                elif at_depth and st["else_pending"]:
                    st["else_pending"] = False
                    st["in_block"] = True
                    self.mark("alt_open")
                elif at_depth and (st["kind"] == "match" or st["init_kw"] == "match") and st["scrut"] is None:
                    st["scrut"] = last_chain or ("Untracked", None, None)
                    matchbody = True
                    self.mark("br_open")
                braces.append({"stmts": len(stmts), "matchbody": matchbody})
                self.scopes.append({})
                if bind_now:
                    # the pattern variables of `if let` / `while let` live in the body block
                    self.bind_pattern(st, last_chain, off)
                chain = None
                need_stmt = True
                i += 1
                continue
            if t == "}":
                b = braces.pop()
                while len(stmts) > b["stmts"]:
                    end_stmt(off)
                self.pop_scope(off)
                if b["matchbody"]:
                    self.mark("br_close")
                chain = None
                need_stmt = False
                if closures and closures[-1]["braced"] and closures[-1]["brace_level"] == len(braces):
                    close_closure(off)
                st = stmts[-1] if stmts else None
                if st and st["depth"] == len(braces) and st["in_block"]:
                    st["in_block"] = False
                    if not st["loop"]:
                        self.mark("alt_close")
                        if nxt == "else":
                            st["saw_else"] = True
                if st and st["depth"] == len(braces) and st["nested"] and nxt == ";" \
                        and not parens_open_in_stmt(parens, st):
                    end_stmt(off)           # the nested `if` of a let initializer; the let goes on to `;`
                elif st and st["depth"] == len(braces) and not parens_open_in_stmt(parens, st) \
                        and st["kind"] in ("if", "iflet", "match", "loop", "expr") \
                        and nxt not in ("else", ".", "?", ";", ")", ",", "=>", "=", "|"):
                    if st["nested"] or st["arm"]:
                        end_upto_arm(off)
                    else:
                        end_stmt(off)
                    need_stmt = True
                if not stmts and not braces:
                    need_stmt = True
                i += 1
                continue
            if t == "else":
                if nxt == "if":
                    die("%s: `else if` is not supported by the translator" % self.where(off))
                if st:
                    st["else_pending"] = True
                chain = None
                i += 1
                continue
            if t == "=>" and st and st["arm"] and st["depth"] == len(braces):
                if nxt in EXITS:
                    st["exit"] = nxt
                elif nxt in CONTROL:
                    need_stmt = True
                    nested_next = True
                chain = None
                i += 1
                continue
            if t == "=" and st and st["kind"] == "iflet" and st["depth"] == len(braces):
                st["pat_done"] = True
            if t == "=" and st and toks[st["start"]][0] == "*" and nxt == "true" \
                    and any(g.live and g.res == "CStop" for g in st["temps"]):
                self.ev.append(("setstop", None, self.where(off)))
            if t == "," and closures and not closures[-1]["braced"] \
                    and closures[-1]["paren_level"] == len(parens) and closures[-1]["brace_level"] == len(braces):
                close_closure(off)
            if t == ";" and closures and closures[-1].get("let") and not closures[-1]["braced"] \
                    and closures[-1]["paren_level"] == len(parens) and closures[-1]["brace_level"] == len(braces):
                close_closure(off)
            if t == ";" or (t == "," and st and st["depth"] == len(braces) and not parens
                            and braces and st["kind"] != "let"):
                if st and st["depth"] == len(braces) and not parens_open_in_stmt(parens, st):
                    if t == ";" and st["kind"] == "let":
                        if st["has_q"]:
                            # `let v = e?;`: the early return happens before v exists
                            if any(e[0] not in ("M", "upgrade") for e in self.ev[st["ev_start"]:]) or st["temps"]:
                                die("%s: `?` in a statement with lock events is not supported" % self.where(off))
                            self.mark("br_open")
                            self.mark("alt_open")
                            self.mark("exit", "return", self.cleanup_events(0, off))
                            self.mark("alt_close")
                            self.mark("alt_open")
                            self.mark("alt_close")
                            self.mark("br_close")
                            st["has_q"] = False
                            st["was_q"] = True
                        self.bind_let(st, last_chain if last_chain_end == i - 1 else None, off)
                    elif t == ";" and last_chain_end == i - 1 and last_chain and last_chain[1] is not None \
                            and last_chain[1] in st["temps"] \
                            and any(toks[k][0] == "=" for k in range(st["start"], i)) \
                            and toks[st["start"]][0] != "*":
                        die("%s: a lock guard is assigned to an existing variable (not supported)" % self.where(off))
                    if t == ",":
                        end_upto_arm(off)
                    else:
                        end_stmt(off)
                    need_stmt = True
                chain = None
                i += 1
                continue
            if t == "(":
                parens.append({"call": None, "stmt": len(stmts)})
                chain = None
                i += 1
                continue
            if t == ")":
                if closures and not closures[-1]["braced"] and closures[-1]["paren_level"] == len(parens) \
                        and closures[-1]["brace_level"] == len(braces):
                    close_closure(off)
                p = parens.pop()
                chain = None
                if p["call"]:
                    chain = self.finish_call(p["call"], off, stmts)
                    last_chain, last_chain_end = chain, i
                i += 1
                continue

            # ---- chains
            if t == "." and re.match(r"[A-Za-z_0-9]", nxt or " "):
                name = nxt
                after = toks[i + 2][0] if i + 2 < n else ""
                if after == "(":
                    parens.append({"call": (chain, name, toks[i + 1][1]), "stmt": len(stmts)})
                    chain = None
                    i += 3
                    continue
                if chain:
                    ty, txt = field_type(chain[0], name, chain[2] if chain[0] in ("Safe", "SafeVal") else None)
                    chain = (ty, None, txt)
                    last_chain, last_chain_end = chain, i + 1
                i += 2
                continue
            if t == "?":
                if st:
                    st["has_q"] = True
                last_chain_end = i
                i += 1
                continue
            if re.match(r"[A-Za-z_]", t) and prev not in (".",):
                # path?
                if nxt == "::":
                    path = [t]
                    j = i
                    while j + 2 < n and toks[j + 1][0] == "::":
                        path.append(toks[j + 2][0])
                        j += 2
                    after = toks[j + 1][0] if j + 1 < n else ""
                    p = "::".join(path)
                    if after == "(" and p in ("thread::spawn", "Ticker::new") or \
                       (after == "(" and path[0] == "Self" and (self.fn.typ, path[-1]) in self.fntab):
                        parens.append({"call": (("path", None, None), p, off), "stmt": len(stmts)})
                        chain = None
                        i = j + 2
                        continue
                    if p in ("TargetKind::Multi", "Self::Multi", "Drawable::Multi") and after == "{":
                        self.bind_struct_pattern(p, j + 1)
                    elif after == "(" or after not in ("{", "::", "<", "!"):
                        # any other path call `A::b(..)` / path used as a value (function pointer): resolve it
                        r = self.resolve_path(path, after == "(", off)
                        if r == "call":
                            parens.append({"call": (("path", None, None), p, off), "stmt": len(stmts)})
                            chain = None
                            i = j + 2
                            continue
                    chain = None
                    i = j + 1
                    continue
                if nxt == "!" and t not in KEYWORDS:
                    if t not in MACROS:
                        die("%s: macro `%s!` is not known to the translator" % (self.where(off), t))
                    chain = None
                    i += 2                      # the arguments are scanned like any other token stream
                    continue
                if nxt == "(" and t not in KEYWORDS and t != "drop" and t not in self.cb and self.lookup(t) is None \
                        and not (prev in ("fn",)):
                    self.resolve_bare_call(t, off)
                if t == "drop" and nxt == "(" and toks[i + 3][0] == ")":
                    v = self.lookup(toks[i + 2][0])
                    if v is not None:
                        self.drop_var(v, off)
                    chain = None
                    i += 4
                    continue
                if t in self.cb and nxt == "(":
                    parens.append({"call": (("callback", None, None), t, off), "stmt": len(stmts)})
                    chain = None
                    i += 2
                    continue
                v0 = self.lookup(t)
                if v0 is not None and v0.live and getattr(v0, "handle", False) and nxt != "." and \
                        ((prev in ("(", ",") and nxt in (")", ",")) or prev == "return" or
                         (prev in (";", "{", "}", "") and nxt in ("}", ""))):
                    v0.live = False                 # the handle is moved out (returned / passed on by value)
                    chain = None
                    i += 1
                    continue
                if v0 is not None and v0.live and v0.typ == "ArcBar" and prev in ("{", ",") and nxt in (",", "}"):
                    v0.live = False                 # moved into a struct literal (`ProgressBar { state, .. }`)
                    chain = None
                    i += 1
                    continue
                if t in CRATE["free"] and (None, t) in CRATE["eff_keys"] and nxt != "(" and prev not in ("fn", "::"):
                    die("%s: free function `%s` used as a value may take a lock: not supported" % (self.where(off), t))
                if t == "self":
                    chain = (self.selfty, None, None)
                elif t == "tracker" and self.lookup(t) is None:
                    chain = ("Tracker", None, None)
                elif self.lookup(t) is not None and self.lookup(t).live:
                    v = self.lookup(t)
                    chain = (v.typ, v if v.res else None, t)
                else:
                    chain = None
                last_chain, last_chain_end = chain, i
                i += 1
                continue
            chain = None
            i += 1
        while stmts:
            end_stmt(self.fn.body_off + len(self.fn.body))
        while self.scopes:
            self.pop_scope(self.fn.body_off + len(self.fn.body))
        if self.held or closures:
            die("%s::%s: guards or closures still open at the end of the body" % (self.fn.typ, self.fn.name))
        return self.ev

    # -- call resolution (everything that is not a method call on a typed receiver)
    def resolve_path(self, path, is_call, off):
        """`A::..::T::name` as a call or as a value.  -> "call" (a tracked function: inline it) or None (lock free)"""
        name = path[-1]
        t = path[-2]
        if t == "Self":
            t = self.fn.typ
        w = self.where(off)
        if name[0].isupper():
            return None                          # enum variant / tuple struct constructor / associated const
        if t in TRACKED_IMPLS and (t, name) in self.fntab:
            key = (t, name)
            if key in RET_GUARD_IMPL:
                die("%s: `%s` (returns a lock guard) used through a path: not supported" % (w, "::".join(path)))
            if not is_call:
                if key in CRATE["eff_keys"]:
                    die("%s: `%s` used as a function value (function pointer) may take a lock: not supported"
                        % (w, "::".join(path)))
                return None
            return "call"
        if t in CRATE["types"] and t not in CRATE.get("leaf_types", set()):
            if (t, name) in CRATE["fns"]:
                if (t, name) in CRATE["eff_keys"]:
                    die("%s: `%s` is a crate function that may take a lock and is not a tracked method" % (w, "::".join(path)))
                return None
            if name in TRAIT_METHODS or name.isupper():
                return None
            die("%s: cannot resolve `%s`" % (w, "::".join(path)))
        if path[0] in STD_HEADS or t in STD_HEADS or t in CRATE.get("leaf_types", set()):
            return None
        if len(path) == 2 and t[0].islower() and name in CRATE["free"]:
            if (None, name) in CRATE["eff_keys"]:
                die("%s: free function `%s` may take a lock: not supported" % (w, "::".join(path)))
            return None
        die("%s: cannot resolve the path `%s` (not a tracked method, not a scanned lock-free crate function, "
            "not a known std/crate path)" % (w, "::".join(path)))

    def resolve_bare_call(self, name, off):
        w = self.where(off)
        if name[0].isupper() or name in self.pure_closures:
            return
        if name in CRATE["free"]:
            if (None, name) in CRATE["eff_keys"]:
                die("%s: free function `%s` may take a lock; free functions are not followed" % (w, name))
            return
        if name in ("panicking", "min", "max", "swap", "take", "replace", "size_of"):
            return                                   # imported std functions used by the four files
        die("%s: call of `%s(..)`: not a free function of the crate, not a callback parameter "
            "(closure variable / function pointer?)" % (w, name))

    # -- bindings
    def bind_let(self, st, chain, off):
        name = st["name"]
        if st["init_kw"] in ("match", "if"):
            chain = st["scrut"]
            if chain and chain[1] is None and chain[0] != "LeafDrawable":
                return          # `let x = match e {..}`: x has the arms' type, only a guard is tracked
        if name == "_" or not chain or name is None:
            return
        ty, g, _ = chain
        block = self.scopes[-2]     # scopes[-1] is the statement's virtual scope
        if g is not None and g in st["temps"]:
            st["temps"].remove(g)
            g.typ = ty
            block[name] = g
        elif ty == "OptArcBar" and st.get("was_q"):
            block[name] = Var("ArcBar")            # `let state = self.state.upgrade()?;`
            self.owned.append(block[name])
        elif ty not in ("Untracked",) and g is None:
            block[name] = Var(ty)

    def bind_pattern(self, st, chain, off):
        names = [x for x in st["pat"] if re.match(r"[a-z_][a-z0-9_]*$", x) and x not in ("mut", "ref", "_")]
        if not names or not chain:
            return
        name, (ty, g, _) = names[0], chain
        sc = self.scopes[-1]
        if ty == "OptTickerOwned":
            sc[name] = Var("TickerOwned")
            self.owned.append(sc[name])
        elif ty == "OptTickerRef":
            sc[name] = Var("Ticker")
        elif ty == "OptArcBar":
            sc[name] = Var("ArcBar")
            self.owned.append(sc[name])
        elif ty == "OptRemote":
            sc[name] = Var("MultiLock")
        elif ty == "Drawable" and g is not None and g in st["temps"]:
            st["temps"].remove(g)
            g.typ = "Drawable"
            sc[name] = g
            # `if let Some(d) = target.drawable(..) { .. }`: the guard exists only on the Some path, so the
            # acquisition belongs to that alternative (it is the last event before the branch markers)
            k = len(self.ev) - 1
            while k >= 0 and self.ev[k][0] == "M":
                k -= 1
            if k < 0 or self.ev[k][0] != "acq" or self.ev[k][1] != g.res:
                die("%s: cannot attribute the guard of an `if let Some(..)` scrutinee" % self.where(off))
            self.ev.append(self.ev.pop(k))
            if self.alt_stack:          # ... so it counts as created inside that alternative
                a = self.alt_stack[-1]
                a["snap"] = [(v, live) for v, live in a["snap"] if v is not g]
                a["held"] = [x for x in a["held"] if x is not g]
        elif ty == "LeafDrawable":
            sc[name] = Var("LeafDrawable")

    def bind_struct_pattern(self, path, open_idx):
        """`TargetKind::Multi { .. state .. } =>` binds state: the lock; `Drawable::Multi {..} =>`: the held guard"""
        toks = self.toks
        d, j = 0, open_idx
        names = []
        while True:
            if toks[j][0] == "{":
                d += 1
            elif toks[j][0] == "}":
                d -= 1
                if d == 0:
                    break
            elif d == 1:
                names.append(toks[j][0])
            j += 1
        after = toks[j + 1][0] if j + 1 < len(toks) else ""
        if after not in ("=>", "="):
            return      # a struct literal (expression), not a pattern
        if "state" in names:
            is_lock = path == "TargetKind::Multi" or (path == "Self::Multi" and self.fn.typ != "Drawable")
            self.scopes[-1]["state"] = Var("MultiLock" if is_lock else "MultiState")

    # -- calls
    def finish_call(self, call, off, stmts):
        recv, name, noff = call
        st = stmts[-1]
        ty = recv[0] if recv else None
        g = recv[1] if recv else None
        w = self.where(noff)

        def temp(res, gty):
            gv = self.acquire(res, noff, " %s.%s()" % (ty, name))
            gv.typ = gty
            st["temps"].append(gv)
            return (gty, gv, None)

        if ty == "path":
            if name == "thread::spawn":
                self.ev.append(("spawn", None, w))
                return ("Untracked", None, None)
            if name == "Ticker::new":
                self.ev.append(("call", ("Ticker", "new"), w))
                return ("Untracked", None, None)
            segs = name.split("::")
            owner = self.fn.typ if segs[-2] == "Self" else segs[-2]
            self.ev.append(("call", (owner, segs[-1]), w))
            return (SELF_TY.get(owner, "Untracked") if segs[-2] == "Self" else "Untracked", None, None)
        if ty == "callback":
            self.ev.append(("callback", None, w))
            return ("Untracked", None, None)
        if ty in (None, "Untracked"):
            if name == "join":
                self.ev.append(("join", None, w))
            elif name == "format_state":
                self.ev.append(("callback", None, w + " ProgressTracker::write via format_state"))
            elif name in ("lock", "write", "read", "try_lock", "try_write", "try_read", "wait", "wait_timeout",
                          "wait_while", "wait_timeout_while", "notify_one", "notify_all", "spawn"):
                die("%s: `.%s()` on a receiver the translator cannot type" % (w, name))
            else:
                IGNORED.append((self.fn.typ, self.fn.name, name, w))
            return ("Untracked", None, None)
        if ty == "Tracker":
            self.ev.append(("callback", None, w + " ProgressTracker::" + name))
            return ("Untracked", None, None)
        if ty == "Safe":
            r = resolve_decl(recv[2] or "", name) if recv[2] else None
            if r == "eff":
                die("%s: `.%s()` on a receiver of declared type `%s` is a crate function that may take a lock; "
                    "the translator does not follow it" % (w, name, recv[2]))
            if r is None:
                IGNORED.append((self.fn.typ, self.fn.name, name, w))
            return ("SafeVal", None, None)
        if ty == "SafeVal":
            IGNORED.append((self.fn.typ, self.fn.name, name, w))
            return ("SafeVal", None, None)
        if (ty, name) in PRIM:
            gty, res = PRIM[(ty, name)]
            return temp(res, gty)
        if ty == "StopCondvar":
            if name == "notify_one":
                self.ev.append(("notify", None, w))
                return ("Untracked", None, None)
            if name == "wait_timeout_while":
                gs = [x for x in st["temps"] if x.live and x.res == "CStop"]
                if len(gs) != 1 or self.held[-1] is not gs[0]:
                    die("%s: wait_timeout_while without exactly the Stop guard as innermost guard" % w)
                # wait_timeout_while = loop { predicate; deadline; wait }: zero or more waits
                self.mark("loop_open")
                self.ev.append(("waitrel", "CStop", w))
                self.ev.append(("acq", "CStop", w + " (re-acquired by the wait)"))
                self.mark("loop_close")
                return ("StopGuard", gs[0], None)
            die("%s: condvar method %s not modelled" % (w, name))
        if ty in LEAF:
            return ("LeafDrawable" if name == "drawable" else "Untracked", None, None)
        if (ty, name) in RET_GUARD:
            gty, res = RET_GUARD[(ty, name)]
            return temp(res, gty)
        impl_ty = {"BarTarget": "ProgressDrawTarget", "TickerOwned": "Ticker"}.get(ty, ty)
        if (impl_ty, name) in self.fntab:
            callee = self.fntab[(impl_ty, name)]
            self.ev.append(("call", (impl_ty, name), w))
            if callee.by_value_self and g is not None and g.owned:
                self.release(g)          # consumed: Drawable::draw(self) / clear(self)
            if (impl_ty, name) == ("ProgressDrawTarget", "remote"):
                return ("OptRemote", None, None)
            if callee.by_value_self and impl_ty == "ProgressBar":
                return ("ProgressBar", None, None)
            return ("Untracked", None, None)
        if name in STD:
            if (ty, name) == ("SlotGuard", "take"):
                return ("OptTickerOwned", None, None)
            if (ty, name) == ("SlotGuard", "as_ref"):
                return ("OptTickerRef", None, None)
            if (ty, name) == ("WeakBar", "upgrade"):
                self.ev.append(("upgrade", None, w))
                return ("OptArcBar", None, None)
            if STD[name] is None:
                return (ty, g, None)
            return (STD[name], None, None)
        die("%s: method `%s` on tracked type %s is not known to the translator" % (w, name, ty))


def parens_open_in_stmt(parens, st):
    return any(p["stmt"] > st["idx"] for p in parens)


IGNORED = []
FILETEXT = {}
STRUCT_FIELDS = {}      # (struct name, field) -> type text
TRACKED_WORDS = re.compile(r"\b(ProgressBar|WeakProgressBar|BarState|MultiProgress|MultiState|ProgressDrawTarget|"
                           r"TargetKind|Drawable|Ticker|TickerControl|Mutex|RwLock|Condvar|JoinHandle|MutexGuard|"
                           r"RwLockWriteGuard|RwLockReadGuard|TermLike|Term|ProgressTracker|ProgressStyle)\b")


def parse_structs(text):
    for m in re.finditer(r"struct\s+(\w+)(?:<[^>{]*>)?\s*\{", text):
        end = match_brace(text, m.end() - 1)
        body = text[m.end():end - 1]
        for fm in re.finditer(r"(?:pub(?:\([a-z]+\))?\s+)?(\w+)\s*:\s*([^,]+),", body):
            STRUCT_FIELDS[(m.group(1), fm.group(1))] = fm.group(2).strip()


def field_type(ty, name, text=None):
    """-> (scan type, declared type text or None)"""
    if (ty, name) in FIELDS:
        return FIELDS[(ty, name)], None
    if ty in ("Safe", "SafeVal"):
        ft = None
        for t in (type_heads(text) if text else []):
            if (t, name) in ALL_FIELDS:
                ft = ALL_FIELDS[(t, name)]
                break
        if ft is None:
            return "SafeVal", None      # e.g. a tuple field: nothing known, the name net applies to calls on it
        return ("Safe", ft) if not TRACKED_WORDS.search(ft) else ("Untracked", None)
    impl_ty = {"BarTarget": "ProgressDrawTarget", "LeafTarget": "ProgressDrawTarget", "TickerOwned": "Ticker"}.get(ty, ty)
    ft = STRUCT_FIELDS.get((impl_ty, name))
    if ft is not None and not TRACKED_WORDS.search(ft):
        return "Safe", ft   # a field whose declared type mentions no lock, no tracked type and no user callback
    return "Untracked", None


# ------------------------------------------------------------------ whole-program part
FILES = ["progress_bar.rs", "multi.rs", "state.rs", "draw_target.rs"]
LOCK_CALL = re.compile(r"\.\s*(lock|write|read|try_lock|try_write|try_read|wait_timeout_while|wait_timeout|wait|"
                       r"wait_while|notify_one|notify_all|join)\s*\(\s*\)|\.\s*(wait_timeout_while|wait_timeout|wait_while)\s*\(|"
                       r"thread::spawn\s*\(")


def validate_guard_fns(fntab):
    f = fntab[("ProgressBar", "state")]
    if re.sub(r"\s+", "", f.body) != "self.state.lock().unwrap()":
        die("ProgressBar::state() is no longer `self.state.lock().unwrap()`")
    f = fntab[("ProgressDrawTarget", "drawable")]
    locks = LOCK_CALL.findall(f.body)
    m = re.search(r"TargetKind::Multi\s*\{[^}]*\}\s*=>\s*\{\s*let\s+state\s*=\s*state\.write\(\)\.unwrap\(\);\s*"
                  r"Some\(Drawable::Multi\s*\{", f.body)
    if len(locks) != 1 or not m:
        die("ProgressDrawTarget::drawable(): expected exactly one lock call, `state.write()` moved into Drawable::Multi")


def check_new_remote(texts):
    """MultiState.draw_target is never TargetKind::Multi: new_remote() has one caller, internalize()"""
    uses = []
    for f, t in texts.items():
        for m in re.finditer(r"new_remote\s*\(", t):
            uses.append((f, line_of(t, m.start()), t[max(0, m.start() - 60):m.start()]))
    callers = [u for u in uses if "fn " not in u[2].split("\n")[-1]]
    if len(callers) != 1 or callers[0][0] != "multi.rs" or "pb.set_draw_target(ProgressDrawTarget::" not in callers[0][2]:
        die("ProgressDrawTarget::new_remote has callers other than MultiProgress::internalize: %r" % (callers,))
    for f, t in texts.items():
        for m in re.finditer(r"TargetKind::Multi\s*\{", t):
            if f != "draw_target.rs":
                die("TargetKind::Multi constructed/matched outside draw_target.rs (%s:%d)" % (f, line_of(t, m.start())))


def check_untracked(texts):
    """functions outside the tracked impl blocks (free functions, impl blocks of other types, other files) are not
    scanned.  They are harmless as long as they only CALL complete public methods one after the other; so they
    must not contain a lock primitive and must not obtain a guard (`.state()` of a ProgressBar, `.drawable(..)`)."""
    for (typ, name), bs in CRATE["fns"].items():
        if typ in TRACKED_IMPLS:
            continue
        for f, body, _ in bs:
            m = LOCK_CALL.search(body)
            if m:
                die("%s: %s::%s contains `%s` but is not in a tracked impl block" % (f, typ, name, m.group(0).strip()))
            m = re.search(r"\.\s*(state\s*\(\s*\)|drawable\s*\()", body)
            if m and (typ, name, m.group(1)[:5]) not in UNTRACKED_OK:
                die("%s: %s::%s calls `.%s` (a guard constructor) but is not in a tracked impl block"
                    % (f, typ, name, m.group(1)))


UNTRACKED_OK = set()

# trait methods that Rust calls IMPLICITLY (scope end, deref coercion, operators, formatting, conversions): the
# scanner cannot see those call sites.  Modelled: Drop for BarState / Ticker (drop glue of the handle, of an
# upgraded Arc, of an owned Ticker).  Every other impl of these traits anywhere in the crate must be found free
# of lock effects (and of calls that may reach one) by the crate-wide fixpoint - then nothing has to be inlined
# wherever such a value is dropped / dereferenced / compared / printed; otherwise the translator stops.
IMPLICIT_TRAITS = {"drop", "deref", "derefmut", "partialeq", "eq", "partialord", "ord", "display", "debug", "clone",
                   "from", "into", "tryfrom", "add", "sub", "mul", "div", "addassign", "subassign", "neg", "not",
                   "index", "indexmut", "default", "hash", "asref", "asmut", "borrow"}
# NOT in the list (declared as trusted): Iterator / Read / Write / Future impls of the adaptor types of iter.rs and
# rayon.rs.  They are public entry points that call complete public methods one after the other (check_untracked),
# and a tracked body never iterates / polls such a value (`for` loops of the four files iterate std collections).
MODELLED_DROPS = {("BarState", "drop"), ("Ticker", "drop")}


def check_implicit_impls():
    for typ, trait, name, f, line in CRATE.get("trait_impls", []):
        if trait not in IMPLICIT_TRAITS or (typ, trait) in MODELLED_DROPS:
            continue
        if typ in TRACKED_IMPLS and trait not in ("drop", "deref", "derefmut"):
            continue        # scanned as a tracked method; only reachable through explicit calls the scanner resolves
        if (typ, name) in CRATE["eff_keys"]:
            die("%s:%d: `impl %s for %s` (`%s`) may take a lock; it runs implicitly (scope end / coercion / operator / "
                "formatting) where the translator sees no call, and values of type %s are not tracked: not supported"
                % (f, line, trait.capitalize(), typ, name, typ))


def flatten(key, fntab, stack, memo):
    if key in memo:
        return memo[key]
    if key in stack:
        die("call cycle: " + " -> ".join("%s::%s" % k for k in stack + [key]))
    fn = fntab.get(key)
    if fn is None:
        die("call to unknown function %s::%s" % key)
    out = []
    for ev in fn.events:
        if ev[0] == "M":
            continue
        if ev[0] == "call":
            if ev[1] in RET_GUARD_IMPL:
                die("guard constructor %s::%s reached as a plain call" % ev[1])
            out.extend(flatten(ev[1], fntab, stack + [key], memo))
        else:
            out.append(ev)
    memo[key] = out
    return out


RET_GUARD_IMPL = {("ProgressBar", "state"), ("ProgressDrawTarget", "drawable")}
COQ = {"acq": "CAcq %s", "rel": "CRel %s", "waitrel": "CWaitRel %s", "setstop": "CSetStop", "notify": "CNotify",
       "spawn": "CSpawn", "join": "CJoin", "callback": "CCallback", "tick": "CTick", "upgrade": "CUpgrade",
       "droparc": "CDropArc"}


def coq_list(evs):
    items = [(COQ[e[0]] % e[1]) if "%s" in COQ[e[0]] else COQ[e[0]] for e in evs]
    return "[" + "; ".join(items) + "]"


def check_balanced(name, evs):
    held = []
    for e in evs:
        if e[0] == "acq":
            held.append(e[1])
        elif e[0] == "rel":
            if e[1] not in held:
                die("%s: releases %s which it does not hold" % (name, e[1]))
            held.remove(e[1])
        elif e[0] == "waitrel":
            if held != [e[1]]:
                die("%s: condvar wait while holding %s" % (name, held))
            held.remove(e[1])
    if held:
        die("%s: unbalanced footprint, still holds %s" % (name, held))




# ------------------------------------------------------------------ crate-wide call resolution (audit 2, N4)
# Every call expression in a tracked body must be RESOLVED: to a tracked method that is inlined, to a function of
# the crate that this scan found free of lock / condvar / spawn / join effects (fixpoint below), to a std / known
# lock-free crate path, to an allow-listed macro, or to a user callback.  Anything else is an error.
LEAF_FILES = {"in_memory.rs", "term_like.rs", "verif_clock.rs"}   # TermLike implementations (user-callback class,
                                                                  # leaf mutex) and the mock clock (atomics only)
STD_HEADS = {"std", "core", "alloc", "io", "fmt", "mem", "cmp", "iter", "thread", "time", "sync", "ops", "borrow",
             "console", "unicode_width", "unicode_segmentation", "portable_atomic", "web_time", "vt100",
             "Arc", "Rc", "Weak", "Box", "Vec", "String", "Option", "Result", "Some", "Ok", "Err", "Cow", "Ord",
             "Instant", "Duration", "Mutex", "RwLock", "Condvar", "Ordering", "AtomicU64", "AtomicU8", "AtomicBool",
             "Term", "Default", "Into", "From", "Iterator", "usize", "u64", "u16", "u8", "f64", "f32", "i64", "str",
             "OnceLock", "Style", "Write", "Wrapping", "PhantomData", "Pin", "Poll", "Context", "SeekFrom"}
TRAIT_METHODS = {"default", "from", "clone", "fmt", "eq", "cmp", "partial_cmp", "hash", "into", "try_from", "from_str",
                 "add", "sub", "add_assign", "sub_assign", "deref", "deref_mut", "drop"}
MACROS = {"matches", "assert", "assert_eq", "assert_ne", "debug_assert", "debug_assert_eq", "debug_assert_ne", "format",
          "write", "writeln", "vec", "panic", "unreachable", "unimplemented", "todo", "cfg", "println", "eprintln"}
KEYWORDS = {"if", "match", "while", "for", "return", "in", "as", "let", "loop", "else", "move", "ref", "mut", "break",
            "continue", "fn", "impl", "where", "unsafe", "dyn", "pub", "use", "mod", "struct", "enum", "trait", "type",
            "const", "static", "self", "Self", "super", "crate", "true", "false", "async", "await"}
CRATE = {"types": set(), "fns": {}, "free": set(), "eff_keys": set(), "eff_names": set()}


def parse_free_fns(text, fname):
    """top-level `fn` items and trait default methods (everything that is not inside an impl block)"""
    blank = text
    for m in re.finditer(r"(?m)^impl\b[^{;]*\{", text):
        e = match_brace(text, m.end() - 1)
        blank = blank[:m.start()] + re.sub(r"[^\n]", " ", text[m.start():e]) + blank[e:]
    out = []
    i = 0
    while True:
        fm = re.compile(r"\bfn\s+(\w+)").search(blank, i)
        if not fm:
            break
        j, ang = fm.end(), 0
        while True:
            if blank[j] == "<":
                ang += 1
            elif blank[j] == ">" and blank[j - 1] != "-":
                ang -= 1
            elif blank[j] == "(" and ang == 0:
                break
            j += 1
        pe = match_paren(blank, j)
        k = pe
        while blank[k] not in "{;":
            k += 1
        if blank[k] == ";":
            i = k + 1
            continue
        be = match_brace(blank, k)
        out.append((fm.group(1), blank[k + 1:be - 1], line_of(blank, fm.start(1))))
        i = be
    return out


ALL_FIELDS = {}     # (struct, field) -> declared type text, for every struct of the crate


def type_heads(text):
    """the crate types mentioned in a declared type; None = mentions a lock / tracked / callback type"""
    return [t for t in re.findall(r"[A-Z]\w*", text) if t in CRATE["types"]]


def resolve_decl(text, name):
    """a method `name` called on a value whose DECLARED type is `text`: 'ok' (std / lock-free crate function),
    'eff' (a crate function that may take a lock), or None (cannot tell: fall back to the name net)"""
    if re.search(r"\b(dyn|impl)\b", text):
        return None
    t0 = re.sub(r"^(&\s*(mut\s+)?|'\w+\s+)*", "", text.strip())
    if re.match(r"(Vec|VecDeque|Option|HashMap|BTreeMap|HashSet|String|Cow|Result)\b|\[", t0):
        return "ok"             # the method belongs to the std container, whatever it contains
    heads = [t for t in type_heads(text) if t not in CRATE.get("leaf_types", set())]
    for t in heads:
        if (t, name) in CRATE["fns"]:
            return "eff" if (t, name) in CRATE["eff_keys"] else "ok"
    if not heads:
        return "ok"             # a std type: Vec, Option, Arc<Atomic..>, String, usize, Instant, ...
    return None


def call_effect(owner, params, body_prefix, head, dot, nm, call, chain):
    """may this call-like occurrence reach a lock?  (used by the fixpoint over untracked functions)"""
    eff, names = CRATE["eff_keys"], CRATE["eff_names"]
    if nm in KEYWORDS or nm not in names:
        return False
    if head is not None:
        t = owner if head == "Self" else head
        if t in CRATE["types"]:
            return (t, nm) in eff
        if head in STD_HEADS or head[0].islower():
            return (None, nm) in eff and head not in STD_HEADS
        return True
    if dot:
        if not call:
            return False
        if chain:
            parts = [x.strip() for x in chain.split(".")]
            ty = None
            if parts[0] == "self" and owner:
                ty = owner
            elif parts[0] in params:
                ty = params[parts[0]]
            for f in parts[1:]:
                if ty is None:
                    break
                hs = [t for t in re.findall(r"[A-Z]\w*", ty) if t in CRATE["types"]]
                nxt = None
                for t in hs:
                    if (t, f) in ALL_FIELDS:
                        nxt = ALL_FIELDS[(t, f)]
                        break
                ty = nxt
            if ty is not None:
                r = resolve_decl(ty, nm)
                if r is not None:
                    return r == "eff"
        return True                 # method call by name on a receiver that cannot be typed
    if call:
        return (None, nm) in eff
    return (None, nm) in eff and nm in CRATE["free"]


# method calls by NAME inside UNSCANNED crate functions whose receiver is a local value the fixpoint cannot type and whose
# name coincides with a locking function; each checked by hand (type, function, method)
FIX_OK = {
    ("ProgressStyle", "format_state", "clear"),             # buf: String
    ("Template", "from_str_with_tab_width", "clear"),       # buf: String
    ("Template", "set_tab_width", "set_tab_width"),         # s: &mut TabExpandedString (loop over template parts)
}

OCC = re.compile(r"(?:\b([A-Za-z_]\w*)\s*::\s*)?((?:\b(?:self|[a-z_]\w*)(?:\s*\.\s*\w+)*)?\s*\.\s*)?\b([A-Za-z_]\w*)\b"
                 r"(\s*(?:::\s*<[^>()]*>\s*)?\()?")


def crate_scan(repo):
    src = os.path.join(repo, "src")
    bodies = {}     # key -> list of (file, body, params)
    texts = {}
    for f in sorted(os.listdir(src)):
        if not f.endswith(".rs"):
            continue
        raw, text, fns = parse_file(os.path.join(src, f), f)
        texts[f] = (text, fns)
        for m in re.finditer(r"\b(?:struct|enum|trait|type|union)\s+([A-Z]\w*)", text):
            CRATE["types"].add(m.group(1))
            if f in LEAF_FILES:
                CRATE.setdefault("leaf_types", set()).add(m.group(1))
    for f, (text, fns) in texts.items():
        for m in re.finditer(r"struct\s+(\w+)(?:<[^>{]*>)?\s*\{", text):
            end = match_brace(text, m.end() - 1)
            for fm in re.finditer(r"(?:pub(?:\([a-z]+\))?\s+)?(\w+)\s*:\s*([^,]+),", text[m.end():end - 1]):
                ALL_FIELDS[(m.group(1), fm.group(1))] = fm.group(2).strip()
        if f in LEAF_FILES:
            continue
        for fn in fns:
            bodies.setdefault((fn.typ, fn.name.split(":")[-1]), []).append((f, fn.body, fn.params))
            if ":" in fn.name:
                CRATE.setdefault("trait_impls", []).append((fn.typ, fn.name.split(":")[0], fn.name.split(":")[-1], f, fn.line))
        for name, body, line in parse_free_fns(text, f):
            bodies.setdefault((None, name), []).append((f, body, ""))
            CRATE["free"].add(name)
    CRATE["fns"] = bodies
    eff = set(k for k, bs in bodies.items() if any(LOCK_CALL.search(b) for _, b, _ in bs))
    CRATE["eff_keys"] = eff
    changed = True
    while changed:
        changed = False
        CRATE["eff_names"] = set(k[1] for k in eff)
        for k, bs in bodies.items():
            if k in eff:
                continue
            hit = False
            for _, b, ptxt in bs:
                params = dict((m.group(1), m.group(2)) for m in re.finditer(r"(\w+)\s*:\s*([^,]+)", ptxt))
                for m in OCC.finditer(b):
                    chain = m.group(2)
                    dot = bool(chain)
                    if chain:
                        chain = re.sub(r"\s*\.\s*$", "", chain.strip())
                    if (k[0], k[1], m.group(3)) in FIX_OK:
                        continue
                    if call_effect(k[0], params, None, m.group(1), dot, m.group(3), m.group(4), chain):
                        hit = True
                        break
                if hit:
                    break
            if hit:
                eff.add(k)
                changed = True
    CRATE["eff_names"] = set(k[1] for k in eff)

# ------------------------------------------------------------------ structured programs
# nodes: ("act", ev) | ("call", key) | ("seq", [nodes]) | ("br", [[nodes], ...]) | ("loop", [nodes])
#        | ("exit", kind, [nodes])      kind: return | break | continue | loopcond
def ev_node(e):
    return ("call", e[1]) if e[0] == "call" else ("act", e)


def build_tree(events, what):
    pos = [0]

    def is_m(k):
        return pos[0] < len(events) and events[pos[0]][0] == "M" and events[pos[0]][1] == k

    def parse_seq(stops):
        items = []
        while pos[0] < len(events):
            e = events[pos[0]]
            if e[0] != "M":
                items.append(ev_node(e))
                pos[0] += 1
                continue
            k = e[1]
            if k in stops:
                return items
            if k == "br_open":
                pos[0] += 1
                alts = []
                while is_m("alt_open"):
                    pos[0] += 1
                    alt = parse_seq(("alt_close",))
                    if not is_m("alt_close"):
                        die("%s: structure markers do not nest (alt)" % what)
                    pos[0] += 1
                    alts.append(alt)
                if not is_m("br_close"):
                    die("%s: structure markers do not nest (branch): %r" % (what, events[pos[0]:pos[0] + 3]))
                pos[0] += 1
                items.append(("br", alts))
            elif k == "loop_open":
                pos[0] += 1
                body = parse_seq(("loop_close",))
                if not is_m("loop_close"):
                    die("%s: structure markers do not nest (loop)" % what)
                pos[0] += 1
                items.append(("loop", body))
            elif k == "exit":
                items.append(("exit", e[2], build_tree(e[3], what + " (exit clean-up)")))
                pos[0] += 1
            else:
                die("%s: unexpected structure marker %s" % (what, k))
        return items

    items = parse_seq(())
    if pos[0] != len(events):
        die("%s: structure markers do not nest (top)" % what)
    return items


def open_exit(nodes, in_loop=False):
    """does control possibly leave this node list through an exit that is not absorbed by a loop inside it"""
    for t in nodes:
        if t[0] == "exit":
            return True
        if t[0] == "br" and any(open_exit(a) for a in t[1]):
            return True
        if t[0] == "loop":
            for x in walk(t[1]):
                if x[0] == "exit" and x[1] == "return":
                    die("`return` inside a loop is not supported")
    return False


def walk(nodes):
    for t in nodes:
        yield t
        if t[0] == "br":
            for a in t[1]:
                yield from walk(a)
        elif t[0] == "loop":
            yield from walk(t[1])


def attach_seq(items, rest):
    """items, then (on the paths that do not leave early) rest"""
    out = rest
    for it in reversed(items):
        out = attach(it, out)
    return out


def attach(t, rest):
    if t[0] in ("act", "call"):
        return [t] + rest
    if t[0] == "exit":
        return [t]                      # the continuation is cut
    if t[0] == "br":
        if any(open_exit(a) for a in t[1]):
            return [("br", [attach_seq(a, rest) for a in t[1]])]
        return [("br", [attach_seq(a, []) for a in t[1]])] + rest
    if t[0] == "loop":
        return [("loop", attach_seq(t[1], []))] + rest
    die("attach: unknown node %r" % (t[0],))


def simplify(nodes):
    """only applied after the early exits have been resolved (attach): an exit is then just its clean-up,
    so empty exits, empty alternatives that repeat, branches without any action and empty loops disappear"""
    out = []
    for t in nodes:
        if t[0] == "br":
            alts = []
            for a in (simplify(a) for a in t[1]):
                if a not in alts:
                    alts.append(a)
            if alts == [[]] or not alts:
                continue
            if len(alts) == 1:
                out.extend(alts[0])
            else:
                out.append(("br", alts))
        elif t[0] == "loop":
            body = simplify(t[1])
            if body:
                out.append(("loop", body))
        elif t[0] == "exit":
            c = simplify(t[2])
            if c:
                out.append(("exit", t[1], c))
        elif t[0] == "seq":
            out.extend(simplify(t[1]))
        else:
            out.append(t)
    return out


def inline_tree(key, trees, stack, memo):
    if key in memo:
        return memo[key]
    if key in stack:
        die("call cycle: " + " -> ".join("%s::%s" % k for k in stack + [key]))
    if key not in trees:
        die("call to unknown function %s::%s" % key)

    def go(nodes):
        out = []
        for t in nodes:
            if t[0] == "call":
                if t[1] in RET_GUARD_IMPL:
                    die("guard constructor %s::%s reached as a plain call" % t[1])
                sub = inline_tree(t[1], trees, stack + [key], memo)
                if sub:
                    out.append(("seq", sub))
            elif t[0] == "br":
                out.append(("br", [go(a) for a in t[1]]))
            elif t[0] == "loop":
                out.append(("loop", go(t[1])))
            elif t[0] == "exit":
                out.append(("exit", t[1], go(t[2])))
            else:
                out.append(t)
        return out

    memo[key] = simplify(go(trees[key]))
    return memo[key]


def tree_linear(nodes):
    """textual order: every alternative once, every loop body once, exits (clean-up of an early exit) skipped"""
    out = []
    for t in nodes:
        if t[0] == "act":
            out.append(t[1])
        elif t[0] == "seq":
            out.extend(tree_linear(t[1]))
        elif t[0] == "br":
            for a in t[1]:
                out.extend(tree_linear(a))
        elif t[0] == "loop":
            out.extend(tree_linear(t[1]))
    return out


def coq_prog(nodes):
    items = []
    for t in nodes:
        if t[0] == "act":
            e = t[1]
            items.append("PAct (%s)" % ((COQ[e[0]] % e[1]) if "%s" in COQ[e[0]] else COQ[e[0]]))
        elif t[0] == "seq":
            items.append(coq_prog(t[1]))
        elif t[0] == "br":
            items.append("PBranch [%s]" % "; ".join(coq_prog(a) for a in t[1]))
        elif t[0] == "loop":
            items.append("PLoop (%s)" % coq_prog(t[1]))
        elif t[0] == "exit":
            items.append("PExit (%s)" % coq_prog(t[2]))
        else:
            die("coq_prog: node %r" % (t[0],))
    if len(items) == 1:
        return items[0]
    return "PSeq [%s]" % "; ".join(items)


def main(argv):
    repo = REPO
    out = OUT
    if "--repo" in argv:
        repo = argv[argv.index("--repo") + 1]
    if "--out" in argv:
        out = argv[argv.index("--out") + 1]
    crate_scan(repo)
    fntab, texts, raws = {}, {}, {}
    for f in FILES:
        raw, text, fns = parse_file(os.path.join(repo, "src", f), f)
        texts[f], raws[f] = text, raw
        parse_structs(text)
        FILETEXT[f] = text
        for fn in fns:
            if fn.typ in TRACKED_IMPLS:
                if (fn.typ, fn.name) in fntab:
                    die("duplicate function %s::%s" % (fn.typ, fn.name))
                fntab[(fn.typ, fn.name)] = fn
    for need in [("ProgressBar", "state"), ("ProgressDrawTarget", "drawable"), ("Ticker", "drop:drop"),
                 ("BarState", "drop:drop"), ("TickerControl", "run"), ("Ticker", "stop"), ("Ticker", "new"),
                 ("BarState", "tick"), ("ProgressBar", "tick_inner")]:
        if need not in fntab:
            die("expected function %s::%s not found" % need)
    validate_guard_fns(fntab)
    check_new_remote(texts)
    check_untracked(texts)
    check_implicit_impls()
    # the guard-lifetime rules implemented here are the edition-2021 rules (temporaries of an `if let` / `match`
    # scrutinee live to the end of the statement, tail-expression temporaries to the end of the block's statement)
    cargo = os.path.join(repo, "Cargo.toml")
    if os.path.exists(cargo):
        em = re.search(r'(?m)^edition\s*=\s*"(\d+)"', open(cargo).read())
        if not em or em.group(1) != "2021":
            die("Cargo.toml: edition %s; the translator implements the temporary-lifetime rules of edition 2021 only"
                % (em.group(1) if em else "missing"))
    # the drop glue of a ProgressBar handle (field order of the struct); every field: the Drop impl runs only
    # if this handle held the last reference
    m = re.search(r"pub struct ProgressBar\s*\{([^}]*)\}", texts["progress_bar.rs"])
    glue = []
    br = lambda key: [("M", "br_open"), ("M", "alt_open"), ("call", key, "drop glue"), ("M", "alt_close"),
                      ("M", "alt_open"), ("M", "alt_close"), ("M", "br_close")]
    for fname, fty in re.findall(r"(\w+)\s*:\s*([^,]+),", m.group(1)):
        fty = re.sub(r"\s+", "", fty)
        if fty == "Arc<Mutex<BarState>>":
            glue.append(("droparc", None, "progress_bar.rs: field " + fname))
            glue.extend(br(("BarState", "drop:drop")))
        elif fty == "Arc<Mutex<Option<Ticker>>>":
            glue.extend(br(("Ticker", "drop:drop")))
        elif fty == "Arc<AtomicPosition>":
            pass
        else:
            die("ProgressBar has a field of a type the translator does not know: %s: %s" % (fname, fty))
    gfn = Fn("progress_bar.rs", "ProgressBar", "drop:glue", "", False, "", 0, line_of(texts["progress_bar.rs"], m.start()), False)
    gfn.events = glue
    fntab[("ProgressBar", "drop:glue")] = gfn
    # scan
    covered = set()
    for key, fn in sorted(fntab.items()):
        if key in RET_GUARD_IMPL:
            fn.events = []
            for m in LOCK_CALL.finditer(fn.body):
                covered.add((fn.file, line_of(texts[fn.file], fn.body_off + m.start())))
            continue
        if key == ("ProgressBar", "drop:glue"):
            continue
        sc = Scanner(fn, fntab)
        fn.events = sc.run()
        if key == ("BarState", "tick"):
            if not re.search(r"self\.state\.tick\s*=\s*self\.state\.tick\.saturating_add\(1\)", fn.body):
                die("BarState::tick no longer increments state.tick by saturating_add(1)")
            fn.events.insert(0, ("tick", None, "state.rs:%d" % fn.line))
        for ev in fn.events:
            if ev[0] in ("acq", "waitrel", "notify", "join", "spawn"):
                mm = re.match(r"(\w+\.rs):(\d+)", ev[2])
                covered.add((mm.group(1), int(mm.group(2))))
    # every lock / condvar / spawn / join call site of the four files must be covered by a footprint
    sites = []
    for f in FILES:
        for m in LOCK_CALL.finditer(texts[f]):
            sites.append((f, line_of(texts[f], m.start()), m.group(0)))
    missing = [s for s in sites if (s[0], s[1]) not in covered and (s[0], s[1] - 1) not in covered
               and (s[0], s[1] + 1) not in covered]
    if missing:
        die("lock/condvar/spawn/join call sites not covered by any footprint: %r" % missing)
    # calls through receivers the translator could not type, whose name is a tracked function with effects
    memo = {}
    flat = {k: flatten(k, fntab, [], memo) for k in fntab if k not in RET_GUARD_IMPL}
    eff_names = {}
    for (t, n), evs in flat.items():
        if any(e[0] in ("acq", "join", "spawn", "waitrel") for e in evs):
            eff_names.setdefault(n, []).append(t)
    for k in MUST_BE_LOCK_FREE:
        if k not in flat or any(e[0] in ("acq", "join", "spawn", "waitrel") for e in flat[k]):
            die("%s::%s is expected to run under the caller's Multi guard without taking a lock itself" % k)
    net = set(eff_names) | CRATE["eff_names"]
    suspicious = [x for x in IGNORED if x[2] in net and (x[0], x[1], x[2]) not in IGNORE_OK]
    if suspicious:
        die("calls on untyped receivers that share a name with a locking function: %r" % suspicious)
    # structured programs: control flow from the markers, early exits resolved, callees inlined
    trees = {}
    for key, fn in fntab.items():
        if key in RET_GUARD_IMPL:
            trees[key] = []
            continue
        raw = build_tree(fn.events, "%s::%s" % key)
        trees[key] = simplify(attach_seq(raw, []))
    tmemo = {}
    prog = {k: inline_tree(k, trees, [], tmemo) for k in fntab if k not in RET_GUARD_IMPL}
    for k in prog:
        a = [(e[0], e[1]) for e in tree_linear(prog[k])]
        b = [(e[0], e[1]) for e in flat[k]]
        if a != b:
            die("%s::%s: the structured program and the linear footprint disagree:\n %r\n %r" % (k[0], k[1], a, b))
    drop_ev = flat[("ProgressBar", "drop:glue")]
    drop_tree = prog[("ProgressBar", "drop:glue")]
    # output
    table = []
    programs = {}
    for (t, n), fn in sorted(fntab.items()):
        if (t, n) in RET_GUARD_IMPL:
            continue
        if t in ("ProgressBar", "MultiProgress", "WeakProgressBar", "ProgressDrawTarget") and fn.public:
            table.append(("%s::%s" % (t, n), flat[(t, n)], "%s:%d" % (fn.file, fn.line)))
            programs["%s::%s" % (t, n)] = prog[(t, n)]
    table.append(("ProgressBar::drop", drop_ev, "progress_bar.rs: struct ProgressBar (drop glue, last handle)"))
    programs["ProgressBar::drop"] = drop_tree
    for nm in ("ProgressBar::clone", "MultiProgress::clone", "MultiProgress::drop"):
        programs[nm] = []
    table.append(("ProgressBar::clone", [], "progress_bar.rs: #[derive(Clone)]"))
    table.append(("MultiProgress::clone", [], "multi.rs: #[derive(Clone)]"))
    table.append(("MultiProgress::drop", [], "multi.rs: no Drop impl on MultiProgress/MultiState"))
    for extra in [("BarState", "drop:drop"), ("Ticker", "drop:drop"), ("Ticker", "stop"), ("Ticker", "new"),
                  ("TickerControl", "run")]:
        table.append(("%s::%s" % extra, flat[extra], "%s:%d" % (fntab[extra].file, fntab[extra].line)))
        programs["%s::%s" % extra] = prog[extra]
    unbalanced = {}
    for name, evs, _ in table:
        try:
            check_balanced(name, evs)
        except XErr as e:
            # the flat (path-insensitive) footprint of a method whose alternatives release different guards
            # is not balanced; the structured program is what counts (prog_ordered); C08_footprints_ordered
            # will reject the flat entry
            sys.stderr.write("locks_extract.py: warning: %s\n" % e)
            unbalanced[name] = str(e)
    lines = ["(* GENERATED by tools/locks_extract.py from %s/src - do not edit. *)" % "/repo",
             "From IndModel Require Import Base Locks.",
             "From Coq Require Import String.",
             "Local Open Scope string_scope.",
             "",
             "(** one entry per public method of ProgressBar / MultiProgress (+ drop/clone and the internal",
             "    pieces): the textual-order linearisation of its lock footprint, callees inlined. *)",
             "Definition all_footprints : list (string * list caction) := ["]
    for k, (name, evs, src) in enumerate(table):
        lines.append("  (* %s *)" % src)
        if name in unbalanced:
            lines.append("  (* NOTE: this linearisation is NOT balanced (its alternatives release different guards); "
                         "best effort only, the structured program below is what the theorems are about *)")
        lines.append('  ("%s", %s)%s' % (name, coq_list(evs), ";" if k + 1 < len(table) else ""))
    lines.append("].")
    lines.append("")
    lines.append("(** the loop body of TickerControl::run: the program of a ticker thread is a repetition of it *)")
    lines.append("Definition ticker_body : list caction := %s." % coq_list(flat[("TickerControl", "run")]))
    lines.append("")
    lines.append("(** the same methods as STRUCTURED programs: the control flow of the Rust bodies (if/else, match,")
    lines.append("    if-let, closures of Option::map, loops; return/break/continue/`?` as [PExit clean-up] with the")
    lines.append("    continuation cut), guards released where they die on each path, callees inlined. *)")
    lines.append("Definition all_programs : list (string * cprog) := [")
    for k, (name, evs, src) in enumerate(table):
        lines.append('  ("%s", %s)%s' % (name, coq_prog(programs[name]), ";" if k + 1 < len(table) else ""))
    lines.append("].")
    lines.append("")
    lines.append("(** source text (comments stripped, white space normalised) of the two bodies that the one-line model")
    lines.append("    Locks.tick_inner transcribes (ProgressBar::tick_inner, BarState::tick) and of the loop that the ticker")
    lines.append("    automaton of Locks.v part 3 transcribes (TickerControl::run) *)")
    for nm, key in (("src_tick_inner", ("ProgressBar", "tick_inner")), ("src_barstate_tick", ("BarState", "tick")),
                    ("src_ticker_run", ("TickerControl", "run"))):
        txt = re.sub(r"\s+", " ", fntab[key].body).strip()
        if '"' in txt:
            die("%s::%s: body contains a string literal, cannot be pinned" % key)
        lines.append('Definition %s : string := "%s".' % (nm, txt))
    lines.append("")
    lines.append("(** the program of a ticker thread (TickerControl::run): a loop *)")
    lines.append("Definition ticker_prog : cprog := %s." % coq_prog(programs["TickerControl::run"]))
    lines.append("")
    lines.append("(* lock / condvar / spawn / join call sites covered (file:line):")
    for f, l, txt in sites:
        lines.append("   %s:%d  %s" % (f, l, txt.strip().replace("\n", " ")))
    lines.append("*)")
    new = "\n".join(lines) + "\n"
    old = open(out).read() if os.path.exists(out) else None
    if old != new:
        open(out, "w").write(new)
    if "--json" in argv:
        json.dump({"table": [(n, [(e[0], e[1], e[2]) for e in evs], src) for n, evs, src in table],
                   "sites": sites, "ignored": IGNORED}, sys.stdout, indent=1)
    return 0


# calls on receivers the translator cannot type whose NAME coincides with a locking function; each entry
# was checked by hand (file, fn, method): the receiver is not a ProgressBar/MultiProgress/BarState/...
IGNORE_OK = {
    ("BarState", "set_style", "set_tab_width"),      # ProgressStyle::set_tab_width (style.rs: no lock outside tests)
    ("BarState", "set_tab_width", "set_tab_width"),  # ProgressStyle / TabExpandedString
    ("Drawable", "state", "reset"),                  # DrawStateWrapper::reset
    ("Drawable", "width", "width"),                  # dyn TermLike::width: user code, must not re-enter (proviso)
    ("ProgressDrawTarget", "width", "width"),        # dyn TermLike::width: user code
    ("MultiState", "clear", "clear"),                # Drawable::clear on MultiState's own (Term/TermLike) drawable
    ("ProgressBar", "debug:fmt", "finish"),          # fmt::DebugStruct::finish
    ("ProgressDrawTarget", "disconnect", "clear"),   # Drawable::Multi{..}.clear(): runs under the guard acquired on the
                                                     # line before; Drawable::clear/draw themselves take no lock (checked below)
    ("Ticker", "new", "run"),                        # TickerControl::run: body of the spawned thread (ticker_body)
    ("Drawable", "draw", "draw_to_term"),            # DrawState::draw_to_term: Term / dyn TermLike calls (user code);
                                                     # no lock primitive outside the tracked impls (check_untracked)
    ("MultiState", "insert", "position"),            # Iterator::position on self.ordering.iter()
}
MUST_BE_LOCK_FREE = [("Drawable", "clear"), ("Drawable", "draw"), ("Drawable", "state"), ("MultiState", "draw"),
                     ("MultiState", "clear"), ("MultiState", "suspend"), ("MultiState", "println"),
                     ("MultiState", "mark_zombie"), ("MultiState", "remove_idx"), ("MultiState", "insert"),
                     ("MultiState", "width"), ("MultiState", "is_hidden"), ("MultiState", "draw_state")]

if __name__ == "__main__":
    try:
        sys.exit(main(sys.argv[1:]))
    except XErr as e:
        sys.stderr.write("locks_extract.py: ERROR: %s\n" % e)
        sys.exit(2)
