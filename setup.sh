#!/bin/sh
# Builds the framework from files on disk only (offline): Constants.v (and the other generated Coq
# files), the Coq development, the harness binaries.  Every check rebuilds what it needs itself
# (incrementally), so a failure here is reported but does not stop the remaining steps.
cd "$(dirname "$0")"
export CARGO_NET_OFFLINE=true
python3 tools/constants.py || echo "setup: constants.py failed"
[ -f tools/locks_extract.py ] && { python3 tools/locks_extract.py || echo "setup: locks_extract.py failed"; }
[ -f tools/iter_extract.py ] && { python3 tools/iter_extract.py || echo "setup: iter_extract.py failed"; }
./coq/build.sh -k || echo "setup: Coq build incomplete (each check rebuilds its own targets)"
[ -f harness/Cargo.lock ] || cp /repo/Cargo.lock harness/Cargo.lock
cd harness
RUSTFLAGS="--cfg indicatif_verif" CARGO_TARGET_DIR=../.cache/target cargo build --offline --bins --keep-going 2>&1 | tail -3 \
  || RUSTFLAGS="--cfg indicatif_verif" CARGO_TARGET_DIR=../.cache/target cargo build --offline --bins 2>&1 | tail -3
exit 0
