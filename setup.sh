#!/bin/sh
# Builds the framework from files on disk only (offline): Constants.v, the Coq development,
# the harness binaries.
set -e
cd "$(dirname "$0")"
export CARGO_NET_OFFLINE=true
python3 tools/constants.py || true
./coq/build.sh
[ -f harness/Cargo.lock ] || cp /repo/Cargo.lock harness/Cargo.lock
cd harness
RUSTFLAGS="--cfg indicatif_verif" CARGO_TARGET_DIR=../.cache/target cargo build --offline --bins
