(** MultiProgress: abstract specification and ghost definitions for properties C02 / C03.
    Definitions only; everything here is about the executable model in Sys.v (which is NOT
    changed): validity of histories, the textbook list-of-bars specification, the per-bar
    "last drawn" ghost, the drawing events of one step and the row-level ghost screen
    (log / kept / live rows) used by the bookkeeping invariants I1, I2. *)
From IndModel Require Export Sys.

(* ------------------------------------------------------------------ histories *)
Definition is_member (s : sys) (b : N) : bool :=
  match b_target (get_bar s b) with TMulti _ => true | _ => false end.
Definition alive (s : sys) (b : N) : bool := b_alive (get_bar s b).
Definition slot_of (s : sys) (b : N) : N :=
  match b_target (get_bar s b) with TMulti i => i | _ => 0 end.

(** the bar handle(s) a call goes through *)
Definition op_bar (o : op) : option N :=
  match o with
  | OTick b | OInc b _ | ODec b _ | OSetPos b _ | OSetLen b _ | OIncLen b _ | ODecLen b _
  | OUnsetLen b | OSetMsg b _ | OSetPrefix b _ | OSetStyle b _ | OPrintln b _ | OSuspend b _
  | OReset b | OResetEta b | OResetElapsed b | OFinish b _ | OFinishUsingStyle b
  | OForceDraw b | OSetTabWidth b | ODrop b | OInsert _ b | ORemove b => Some b
  | OMPrintln _ | OMSuspend _ | OMClear | OSetAlign _ => None
  end.

(** A call is possible in state [s]: the handles it uses have not been dropped (ownership:
    a dropped handle cannot be used); add/insert* take a bar that is not a member already;
    insert_before/insert_after name a member (the Rust code panics in `index().unwrap()` /
    `.position().unwrap()` otherwise). *)
Definition op_ok (s : sys) (o : op) : bool :=
  match op_bar o with Some b => alive s b | None => true end
  && match o with
     | OInsert loc b =>
         negb (is_member s b)
         && match loc with
            | BAfter r | BBefore r => alive s r && is_member s r
            | _ => true
            end
     | _ => true
     end.

Section Runs.
  Variable W H : N.
  Variable fails : N -> bool.

  Definition step_sys (s : sys) (now : N) (o : op) : sys := fst (fst (step W H fails s now o)).
  Definition step_out (s : sys) (now : N) (o : op) : list termop := snd (fst (step W H fails s now o)).

  Fixpoint run (s : sys) (ops : list (N * op)) : sys :=
    match ops with
    | [] => s
    | (now, o) :: r => run (step_sys s now o) r
    end.

  (** every call of the history is possible when it is made *)
  Fixpoint hist_ok (s : sys) (ops : list (N * op)) : Prop :=
    match ops with
    | [] => True
    | (now, o) :: r => op_ok s o = true /\ hist_ok (step_sys s now o) r
    end.
End Runs.

(* ------------------------------------------------------------------ C02 (1): the list spec *)
Record aspec := mkas { a_order : list N (* bar ids, top to bottom *); a_dropped : list N }.

(** add / insert / insert_from_back / insert_after / insert_before on a plain list *)
Definition a_ins (loc : bloc) (b : N) (ord : list N) : list N :=
  match loc with
  | BEnd => ord ++ [b]
  | BIndex p => insert_at ord (Nat.min (N.to_nat p) (length ord)) b
  | BFromBack p => insert_at ord (length ord - N.to_nat p) b
  | BAfter r => match posN r ord with Some p => insert_at ord (S p) b | None => ord end
  | BBefore r => match posN r ord with Some p => insert_at ord p b | None => ord end
  end.

Fixpoint drop_while {A} (f : A -> bool) (l : list A) : list A :=
  match l with
  | [] => []
  | x :: r => if f x then drop_while f r else l
  end.

(** reaping: the dropped bars at the head of the list leave it *)
Definition a_reap (a : aspec) : aspec :=
  mkas (drop_while (fun b => memN b (a_dropped a)) (a_order a)) (a_dropped a).
Definition a_maybe_reap (r : bool) (a : aspec) : aspec := if r then a_reap a else a.

(** the structural effect of a call *)
Definition a_struct (a : aspec) (o : op) : aspec :=
  match o with
  | OInsert loc b => mkas (a_ins loc b (a_order a)) (a_dropped a)
  | ORemove b => mkas (filter (fun x => negb (N.eqb x b)) (a_order a)) (a_dropped a)
  | ODrop b =>
      match a_order a with
      | h :: t => if N.eqb h b then mkas t (b :: a_dropped a) else mkas (a_order a) (b :: a_dropped a)
      | [] => mkas [] (b :: a_dropped a)
      end
  | _ => a
  end.

(** One call on the abstract list.  A call that paints reaps ([r] = the multi draw of this call
    was attempted, i.e. not refused by the refresh limiter); drop finishes and paints first and is
    marked afterwards, remove takes the bar out first and paints afterwards. *)
Definition a_step (r : bool) (a : aspec) (o : op) : aspec :=
  match o with
  | ODrop _ => a_struct (a_maybe_reap r a) o
  | _ => a_maybe_reap r (a_struct a o)
  end.

(** refinement relation between the model state and the abstract list *)
Record Refines (s : sys) (a : aspec) : Prop := mkRef {
  rf_order : ms_order (s_mp s) = map (slot_of s) (a_order a);
  rf_member : forall b, In b (a_order a) -> is_member s b = true;
  rf_alive : forall b, alive s b = true -> is_member s b = true -> In b (a_order a);
  rf_dropped : forall b, In b (a_order a) -> memN b (a_dropped a) = negb (alive s b);
  rf_dead : forall b, In b (a_dropped a) -> alive s b = false;
  rf_zombie : forall b, In b (a_order a) ->
      m_zombie (nthN (ms_members (s_mp s)) (slot_of s b) member_default) = negb (alive s b) }.

(** structural invariants of MultiState (+ the member bars) *)
Record MInv (s : sys) : Prop := mkMInv {
  mi_nd_order : NoDup (ms_order (s_mp s));
  mi_nd_free : NoDup (ms_free (s_mp s));
  mi_disj : forall i, In i (ms_order (s_mp s)) -> ~ In i (ms_free (s_mp s));
  mi_bound : forall i, In i (ms_order (s_mp s)) \/ In i (ms_free (s_mp s)) ->
                       (N.to_nat i < length (ms_members (s_mp s)))%nat;
  (* the two `assert_eq!(self.len(), self.ordering.len())` never fire *)
  mi_len : length (ms_members (s_mp s)) = (length (ms_order (s_mp s)) + length (ms_free (s_mp s)))%nat;
  mi_free_default : forall i, In i (ms_free (s_mp s)) ->
                       nthN (ms_members (s_mp s)) i member_default = member_default;
  mi_alive : forall b i, alive s b = true -> b_target (get_bar s b) = TMulti i ->
                       In i (ms_order (s_mp s))
                       /\ m_zombie (nthN (ms_members (s_mp s)) i member_default) = false;
  mi_distinct : forall b1 b2 i, alive s b1 = true -> alive s b2 = true ->
                       b_target (get_bar s b1) = TMulti i -> b_target (get_bar s b2) = TMulti i -> b1 = b2 }.

(* ------------------------------------------------------------------ what a multi draw does *)
Section Draws.
  Variable W H : N.

  (** the multi draw is attempted: visible target and not refused by the refresh limiter *)
  Definition ms_attempt (m : mstate) (force : bool) (extra : option (list line)) (now : N) : bool :=
    match ms_target m with
    | TTerm tg =>
        let has_text := match extra with Some _ => true | None => false end
                        || negb (match ms_orphans m with [] => true | _ => false end) in
        let tg1 := if has_text then tt_adjust_clear tg (ms_zombie_lines m) else tg in
        fst (tt_allow tg1 (force || (0 <? visual_line_count (ms_orphans m) W)) now)
    | _ => false
    end.

  (** the lines a multi draw hands to draw_to_term *)
  Definition ms_frame (m : mstate) (extra : option (list line)) : list line :=
    match extra with Some e => e | None => [] end
    ++ ms_orphans m
    ++ concat (map (member_lines (ms_members m)) (ms_order m)).

  Definition ms_has_text (m : mstate) (extra : option (list line)) : bool :=
    match extra with Some _ => true | None => false end
    || negb (match ms_orphans m with [] => true | _ => false end).

  (** last_line_count handed to draw_to_term by a multi draw: after Clear(zombie rows) for println *)
  Definition ms_erase_n (m : mstate) (extra : option (list line)) : N :=
    target_n (ms_target m) + (if ms_has_text m extra then ms_zombie_lines m else 0).

  Definition ms_reap (m : mstate) : mstate :=
    fold_left ms_remove_idx (head_zombies (ms_order m) (ms_members m)) m.

  Definition zombie_rows (m : mstate) : N :=
    fold_left (fun a i => a + member_vlc (nthN (ms_members m) i member_default) W)
              (head_zombies (ms_order m) (ms_members m)) 0.
End Draws.
