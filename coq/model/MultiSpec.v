(** MultiProgress: abstract specification and ghost definitions for properties C02 / C03.
    Definitions only; everything here is about the executable model in Sys.v (which is NOT
    changed): validity of histories, the textbook list-of-bars specification, the per-bar
    "last drawn" ghost, the drawing events of one step and the row-level ghost screen
    (log / kept / live rows) used by the bookkeeping invariants I1, I2. *)
From IndModel Require Export Sys.

(* ------------------------------------------------------------------ histories *)
Definition is_member (s : sys) (b : N) : bool :=
  match b_target (get_bar s b) with TMulti _ => true | _ => false end.
Definition alive (s : sys) (b : N) : bool := b_alive (get_bar s b).
Definition slot_of (s : sys) (b : N) : N :=
  match b_target (get_bar s b) with TMulti i => i | _ => 0 end.

(** the bar handle(s) a call goes through *)
Definition op_bar (o : op) : option N :=
  match o with
  | OTick b | OInc b _ | ODec b _ | OSetPos b _ | OSetLen b _ | OIncLen b _ | ODecLen b _
  | OUnsetLen b | OSetMsg b _ | OSetPrefix b _ | OSetStyle b _ | OPrintln b _ | OSuspend b _
  | OReset b | OResetEta b | OResetElapsed b | OFinish b _ | OFinishUsingStyle b
  | OForceDraw b | OSetTabWidth b | ODrop b | OInsert _ b | ORemove b => Some b
  | OMPrintln _ | OMSuspend _ | OMClear | OSetAlign _ => None
  end.

(** A call is possible in state [s]: the handles it uses have not been dropped (ownership:
    a dropped handle cannot be used); insert_before/insert_after name a member (the Rust code
    panics in `index().unwrap()` / `.position().unwrap()` otherwise).  add/insert* of a bar that
    IS a member already is a possible call (since fix bee77c9 it has no effect). *)
Definition op_ok (s : sys) (o : op) : bool :=
  match op_bar o with Some b => alive s b | None => true end
  && match o with
     | OInsert loc b =>
         match loc with
         | BAfter r | BBefore r => alive s r && is_member s r
         | _ => true
         end
     | _ => true
     end.

Section Runs.
  Variable W H : N.
  Variable fails : N -> bool.

  Definition step_sys (s : sys) (now : N) (o : op) : sys := fst (fst (step W H fails s now o)).
  Definition step_out (s : sys) (now : N) (o : op) : list termop := snd (fst (step W H fails s now o)).

  Fixpoint run (s : sys) (ops : list (N * op)) : sys :=
    match ops with
    | [] => s
    | (now, o) :: r => run (step_sys s now o) r
    end.

  (** every call of the history is possible when it is made *)
  Fixpoint hist_ok (s : sys) (ops : list (N * op)) : Prop :=
    match ops with
    | [] => True
    | (now, o) :: r => op_ok s o = true /\ hist_ok (step_sys s now o) r
    end.
End Runs.

(* ------------------------------------------------------------------ C02 (1): the list spec *)
Record aspec := mkas { a_order : list N (* bar ids, top to bottom *); a_dropped : list N }.

(** add / insert / insert_from_back / insert_after / insert_before on a plain list; a bar that is
    in the list already stays where it is ("will have no effect") *)
Definition a_ins (loc : bloc) (b : N) (ord : list N) : list N :=
  if memN b ord then ord else
  match loc with
  | BEnd => ord ++ [b]
  | BIndex p => insert_at ord (Nat.min (N.to_nat p) (length ord)) b
  | BFromBack p => insert_at ord (length ord - N.to_nat p) b
  | BAfter r => match posN r ord with Some p => insert_at ord (S p) b | None => ord end
  | BBefore r => match posN r ord with Some p => insert_at ord p b | None => ord end
  end.

Fixpoint drop_while {A} (f : A -> bool) (l : list A) : list A :=
  match l with
  | [] => []
  | x :: r => if f x then drop_while f r else l
  end.

(** reaping: the dropped bars at the head of the list leave it *)
Definition a_reap (a : aspec) : aspec :=
  mkas (drop_while (fun b => memN b (a_dropped a)) (a_order a)) (a_dropped a).
Definition a_maybe_reap (r : bool) (a : aspec) : aspec := if r then a_reap a else a.

(** the structural effect of a call *)
Definition a_struct (a : aspec) (o : op) : aspec :=
  match o with
  | OInsert loc b => mkas (a_ins loc b (a_order a)) (a_dropped a)
  | ORemove b => mkas (filter (fun x => negb (N.eqb x b)) (a_order a)) (a_dropped a)
  | ODrop b =>
      match a_order a with
      | h :: t => if N.eqb h b then mkas t (b :: a_dropped a) else mkas (a_order a) (b :: a_dropped a)
      | [] => mkas [] (b :: a_dropped a)
      end
  | _ => a
  end.

(** One call on the abstract list.  A call that paints reaps ([r] = the multi draw of this call
    was attempted, i.e. not refused by the refresh limiter); drop finishes and paints first and is
    marked afterwards, remove takes the bar out first and paints afterwards. *)
Definition a_step (r : bool) (a : aspec) (o : op) : aspec :=
  match o with
  | ODrop _ => a_struct (a_maybe_reap r a) o
  | _ => a_maybe_reap r (a_struct a o)
  end.

(** refinement relation between the model state and the abstract list *)
Record Refines (s : sys) (a : aspec) : Prop := mkRef {
  rf_order : ms_order (s_mp s) = map (slot_of s) (a_order a);
  rf_member : forall b, In b (a_order a) -> is_member s b = true;
  rf_alive : forall b, alive s b = true -> is_member s b = true -> In b (a_order a);
  rf_dropped : forall b, In b (a_order a) -> memN b (a_dropped a) = negb (alive s b);
  rf_dead : forall b, In b (a_dropped a) -> alive s b = false;
  rf_zombie : forall b, In b (a_order a) ->
      m_zombie (nthN (ms_members (s_mp s)) (slot_of s b) member_default) = negb (alive s b) }.

(** structural invariants of MultiState (+ the member bars) *)
Record MInv (s : sys) : Prop := mkMInv {
  mi_nd_order : NoDup (ms_order (s_mp s));
  mi_nd_free : NoDup (ms_free (s_mp s));
  mi_disj : forall i, In i (ms_order (s_mp s)) -> ~ In i (ms_free (s_mp s));
  mi_bound : forall i, In i (ms_order (s_mp s)) \/ In i (ms_free (s_mp s)) ->
                       (N.to_nat i < length (ms_members (s_mp s)))%nat;
  (* the two `assert_eq!(self.len(), self.ordering.len())` never fire *)
  mi_len : length (ms_members (s_mp s)) = (length (ms_order (s_mp s)) + length (ms_free (s_mp s)))%nat;
  mi_free_default : forall i, In i (ms_free (s_mp s)) ->
                       nthN (ms_members (s_mp s)) i member_default = member_default;
  mi_alive : forall b i, alive s b = true -> b_target (get_bar s b) = TMulti i ->
                       In i (ms_order (s_mp s))
                       /\ m_zombie (nthN (ms_members (s_mp s)) i member_default) = false;
  mi_distinct : forall b1 b2 i, alive s b1 = true -> alive s b2 = true ->
                       b_target (get_bar s b1) = TMulti i -> b_target (get_bar s b2) = TMulti i -> b1 = b2 }.

(** the slot-allocation part of MultiState (statement vocabulary of C02_slot_reset) *)
Record CoreInv (m : mstate) : Prop := mkCI {
  ci_nd_order : NoDup (ms_order m);
  ci_nd_free : NoDup (ms_free m);
  ci_disj : forall i, In i (ms_order m) -> ~ In i (ms_free m);
  ci_bound : forall i, In i (ms_order m) \/ In i (ms_free m) -> (N.to_nat i < length (ms_members m))%nat;
  ci_len : length (ms_members m) = (length (ms_order m) + length (ms_free m))%nat;
  ci_free_default : forall i, In i (ms_free m) -> nthN (ms_members m) i member_default = member_default }.

(** MultiState::insert on a plain list of slots *)
Definition l_ins (l : iloc) (ord : list N) (idx : N) : option (list N) :=
  match l with
  | LEnd => Some (ord ++ [idx])
  | LIndex p => Some (insert_at ord (Nat.min (N.to_nat p) (length ord)) idx)
  | LFromBack p => Some (insert_at ord (length ord - N.to_nat p) idx)
  | LAfter r => match posN r ord with Some p => Some (insert_at ord (S p) idx) | None => None end
  | LBefore r => match posN r ord with Some p => Some (insert_at ord p idx) | None => None end
  end.

(* ------------------------------------------------------------------ what a multi draw does *)
Section Draws.
  Variable W H : N.

  (** the multi draw is attempted: visible target and not refused by the refresh limiter *)
  Definition ms_attempt (m : mstate) (force : bool) (extra : option (list line)) (now : N) : bool :=
    match ms_target m with
    | TTerm tg =>
        let has_text := match extra with Some _ => true | None => false end
                        || negb (match ms_orphans m with [] => true | _ => false end) in
        let tg1 := if has_text then tt_adjust_clear tg (ms_zombie_lines m) else tg in
        fst (tt_allow tg1 (force || (0 <? visual_line_count (ms_orphans m) W)) now)
    | _ => false
    end.

  (** the lines a multi draw hands to draw_to_term *)
  Definition ms_frame (m : mstate) (extra : option (list line)) : list line :=
    match extra with Some e => e | None => [] end
    ++ ms_orphans m
    ++ concat (map (member_lines (ms_members m)) (ms_order m)).

  Definition ms_has_text (m : mstate) (extra : option (list line)) : bool :=
    match extra with Some _ => true | None => false end
    || negb (match ms_orphans m with [] => true | _ => false end).

  (** last_line_count handed to draw_to_term by a multi draw: after Clear(zombie rows) for println *)
  Definition ms_erase_n (m : mstate) (extra : option (list line)) : N :=
    target_n (ms_target m) + (if ms_has_text m extra then ms_zombie_lines m else 0).

  Definition ms_reap (m : mstate) : mstate :=
    fold_left ms_remove_idx (head_zombies (ms_order m) (ms_members m)) m.

  Definition zombie_rows (m : mstate) : N :=
    fold_left (fun a i => a + member_vlc (nthN (ms_members m) i member_default) W)
              (head_zombies (ms_order m) (ms_members m)) 0.

  (** the drawing event of one MultiState::draw: the exact arguments of draw_to_term
      (statement vocabulary of C02_frame) *)
  Definition ms_draw_event (m : mstate) (extra : option (list line)) : list termop * N * bool :=
    match ms_target m with
    | TTerm tg => draw_to_term (ms_frame m extra) (ms_erase_n m extra) (ms_align m) (tt_below tg) W H
    | _ => ([], 0, false)
    end.
End Draws.

(* ------------------------------------------------------------------ the multi-level calls of one step *)
(** Each public call reaches MultiState through a short sequence of its methods; [op_actions]
    lists them (a twin of [Sys.step] that returns the calls instead of making them;
    MultiProofs.step_mp proves that running them IS what [step] does to MultiState). *)
Inductive maction :=
| AStore (idx : N) (texts bars : list line)      (* Drawable::state() of a member + DrawStateWrapper::drop *)
| ADraw (force : bool) (extra : option (list line))   (* MultiState::draw *)
| AClear                                           (* MultiState::clear *)
| ASuspend (ws : list text)                        (* MultiState::suspend *)
| ARemove (idx : N)                                (* MultiState::remove_idx *)
| AInsert (loc : iloc)                             (* MultiState::insert *)
| AMark (idx : N)                                  (* MultiState::mark_zombie *)
| AAlign (a : alignment)
| AWrite (ws : list text).                         (* the closure of suspend on a detached bar *)

Section Actions.
  Variable W H : N.
  Variable fails : N -> bool.

  Definition mp_exec1 (now : N) (m : mstate) (c : N) (a : maction) : mstate * list termop * N * bool :=
    match a with
    | AStore idx texts bars => (ms_store m idx texts bars, [], c, true)
    | ADraw force extra => ms_draw W H fails m force extra now c
    | AClear => ms_clear W H fails m c
    | ASuspend ws => let '(m', e, c') := ms_suspend W H fails m ws now c in (m', e, c', true)
    | ARemove idx => (ms_remove_idx m idx, [], c, true)
    | AInsert loc => (match ms_insert m loc with Some (m1, _) => m1 | None => m end, [], c, true)
    | AMark idx => (ms_mark_zombie W m idx, [], c, true)
    | AAlign a => (set_ms_align m a, [], c, true)
    | AWrite ws => let '(e, c') := emit_each fails c (map TLine ws) in (m, e, c', true)
    end.

  Fixpoint mp_run (now : N) (m : mstate) (c : N) (acts : list maction) : mstate * list termop * N :=
    match acts with
    | [] => (m, [], c)
    | a :: r => let '(m1, e1, c1, _) := mp_exec1 now m c a in
                let '(m2, e2, c2) := mp_run now m1 c1 r in
                (m2, e1 ++ e2, c2)
    end.

  Definition stored_frame (m : mstate) (br : bar) : list line :=
    match ms_width W m with Some _ => frame_of br | None => [] end.

  Definition draw_actions (s : sys) (b : N) (force : bool) : list maction :=
    let br := get_bar s b in
    match b_target br with
    | TMulti idx => [AStore idx [] (stored_frame (s_mp s) br); ADraw (force || finished br) None]
    | _ => []
    end.

  Definition tick_actions (s : sys) (b : N) : list maction :=
    draw_actions (upd_bar s b (fun x => set_b_tick x (sat_add64 (b_tick x) 1))) b false.

  Definition pos_actions (s : sys) (b : N) (f : N -> N) (now : N) : list maction :=
    let s1 := upd_bar s b (fun x => set_b_pos x (f (b_pos x))) in
    let '(a, ap') := ap_allow (b_ap (get_bar s1 b)) now in
    let s2 := upd_bar s1 b (fun x => set_b_ap x ap') in
    if a then tick_actions s2 b else [].

  Definition finish_upd (k : fin) (x : bar) : bar :=
    let to_len x := match b_len x with Some l => set_b_pos x l | None => x end in
    match k with
    | FAndLeave => set_b_status (to_len x) DoneVisible
    | FWithMessage m => set_b_msg (set_b_status (to_len x) DoneVisible) m
    | FAndClear => set_b_status (to_len x) DoneHidden
    | FAbandon => set_b_status x DoneVisible
    | FAbandonWithMessage m => set_b_msg (set_b_status x DoneVisible) m
    end.

  Definition finish_actions (s : sys) (b : N) (k : fin) : list maction :=
    draw_actions (upd_bar s b (finish_upd k)) b true.

  Definition op_actions (s : sys) (now : N) (o : op) : list maction :=
    match o with
    | OTick b => tick_actions s b
    | OInc b d => pos_actions s b (fun p => wadd64 p d) now
    | ODec b d => pos_actions s b (fun p => wsub64 p d) now
    | OSetPos b p => pos_actions s b (fun _ => p) now
    | OSetLen b l => draw_actions (upd_bar s b (fun x => set_b_len x (Some l))) b false
    | OIncLen b d => draw_actions (upd_bar s b (fun x => set_b_len x (option_map (fun l => sat_add64 l d) (b_len x)))) b false
    | ODecLen b d => draw_actions (upd_bar s b (fun x => set_b_len x (option_map (fun l => sat_sub l d) (b_len x)))) b false
    | OUnsetLen b => draw_actions (upd_bar s b (fun x => set_b_len x None)) b false
    | OSetMsg b m => draw_actions (upd_bar s b (fun x => set_b_msg x m)) b false
    | OSetPrefix b m => draw_actions (upd_bar s b (fun x => set_b_prefix x m)) b false
    | OSetStyle _ _ | OResetEta _ | OResetElapsed _ => []
    | OPrintln b msg =>
        let br := get_bar s b in
        match b_target br with
        | TMulti idx => [AStore idx (text_lines msg) (stored_frame (s_mp s) br); ADraw true None]
        | _ => []
        end
    | OSuspend b ws => match b_target (get_bar s b) with
                       | TMulti _ => [ASuspend ws] | THidden => [AWrite ws] | TTerm _ => []
                       end
    | OReset b =>
        draw_actions (upd_bar s b (fun x =>
           set_b_status (set_b_ap (set_b_pos x 0) (ap_reset (b_ap x) now)) InProgress)) b false
    | OFinish b k => finish_actions s b k
    | OFinishUsingStyle b => finish_actions s b (b_on_finish (get_bar s b))
    | OForceDraw b | OSetTabWidth b => draw_actions s b true
    | ODrop b =>
        let br := get_bar s b in
        (if finished br then [] else finish_actions s b (b_on_finish br))
        ++ match b_target br with TMulti idx => [AMark idx] | _ => [] end
    | OInsert bl b =>
        match b_target (get_bar s b) with
        | TMulti _ => []     (* already a member: no effect (fix bee77c9) *)
        | _ =>
        let loc :=
          match bl with
          | BEnd => Some LEnd
          | BIndex i => Some (LIndex i)
          | BFromBack i => Some (LFromBack i)
          | BAfter r => match b_target (get_bar s r) with TMulti i => Some (LAfter i) | _ => None end
          | BBefore r => match b_target (get_bar s r) with TMulti i => Some (LBefore i) | _ => None end
          end in
        match loc with
        | Some l =>
            match ms_insert (s_mp s) l with
            | Some _ => [AInsert l]
            | None => []
            end
        | None => []
        end
        end
    | ORemove b => match b_target (get_bar s b) with TMulti idx => [ARemove idx; ADraw true None] | _ => [] end
    | OMPrintln m => [ADraw true (Some (match m with [] => [mkline KEmpty []] | _ => map (mkline KText) (lines_of m) end))]
    | OMSuspend ws => [ASuspend ws]
    | OMClear => [AClear]
    | OSetAlign a => [AAlign a]
    end.
End Actions.

(** no bar draws to a terminal of its own: every bar is detached (hidden) or a member *)
Definition no_own_term (s : sys) : Prop :=
  forall b, match b_target (get_bar s b) with TTerm _ => False | _ => True end.

(* ------------------------------------------------------------------ run-level statements *)
(** the model run and an abstract run side by side: after every call the invariants hold and the
    ordering vector is the image of the abstract list *)
Inductive SimRun (W H : N) (fails : N -> bool) : sys -> aspec -> list (N * op) -> Prop :=
| SR_nil s a : MInv s -> Refines s a -> SimRun W H fails s a []
| SR_cons s a now o r rest :
    MInv s -> Refines s a ->
    SimRun W H fails (step_sys W H fails s now o) (a_step r a o) rest ->
    SimRun W H fails s a ((now, o) :: rest).

(** initial configurations: any bars (detached or with their own terminal), an empty MultiProgress *)
Definition init_ok (s : sys) : Prop :=
  ms_members (s_mp s) = [] /\ ms_free (s_mp s) = [] /\ ms_order (s_mp s) = []
  /\ forall b, is_member s b = false.

(** thread interleavings (as in Pos.v): [Merge ts l] = l is an interleaving of the lists ts *)
Inductive Merge {A} : list (list A) -> list A -> Prop :=
| Merge_nil : forall ts, Forall (fun t => t = []) ts -> Merge ts []
| Merge_cons : forall pre x t post l,
    Merge (pre ++ t :: post) l -> Merge (pre ++ (x :: t) :: post) (x :: l).

(** the row counters of the multi target: rows the next draw erases + kept rows above them *)
Definition region_count (m : mstate) : N := target_n (ms_target m) + ms_zombie_lines m.
