(** Correspondence entry point of the C04 check: ordinary system cases (SysCheck.sys_check) and
    iterator-driven histories, in which the end of the wrapped iterator is NOT an op of Sys.v but
    [iter_none_step] (SimSpec.v: ProgressBarIter::next / next_back with an exhausted iterator,
    guard included) - so the shards evaluate the very definition C04_iter speaks about. *)
From IndModel Require Export SysCheck SimSpec.

(* IterNoneThenDrop: a by-value consumer (for_each, fold, count, ...) on an iterator that holds the
   ONLY handle: the None branch runs and the iterator - the last handle - is dropped before the
   caller can look *)
Inductive iop := IOp (o : op) | IterNone (b : N) | IterNoneThenDrop (b : N).

Definition istep (W H : N) (fails : N -> bool) (s : sys) (now : N) (io : iop) : sys * list termop * bool :=
  match io with
  | IOp o => step W H fails s now o
  | IterNone b => iter_none_step W H fails s now b
  | IterNoneThenDrop b =>
      let '(s1, e1, _) := iter_none_step W H fails s now b in
      let '(s2, e2, _) := step W H fails s1 now (ODrop b) in
      (s2, e1 ++ e2, true)
  end.

Fixpoint run_hashes_i (W H : N) (fails : N -> bool) (s : sys) (ops : list (N * iop)) : list N :=
  match ops with
  | [] => []
  | (now, o) :: r =>
      let '(s', e, ok) := istep W H fails s now o in
      hash_obs e ok (s_bars s') :: run_hashes_i W H fails s' r
  end.

(* CIter: configuration, fault oracle and expected hashes from the syscase (its c_ops is unused) *)
Inductive c04case := CSys (c : syscase) | CIter (c : syscase) (ops : list (N * iop)).
Coercion CSys : syscase >-> c04case.

Definition c04_check (c : c04case) : bool :=
  match c with
  | CSys c => sys_check c
  | CIter c ops =>
      list_eqb N.eqb (run_hashes_i (c_W c) (c_H c) (case_fails c) (case_init c) ops) (c_expected c)
  end.

(* ------------------------------------------------------------------ histories with iterator events (round 6) *)
(* the logic side of [istep]: no target, terminal, MultiProgress state or fault oracle *)
Definition ilstep (now : N) (io : iop) (ls : list logic) : list logic :=
  match io with
  | IOp o => lstep now o ls
  | IterNone b => updN ls (N.to_nat b) l_iter_none
  | IterNoneThenDrop b =>
      updN (updN ls (N.to_nat b) l_iter_none) (N.to_nat b) (lstep_bar now (ODrop b))
  end.

Fixpoint irun (W H : N) (fails : N -> bool) (s : sys) (h : list (N * iop)) : sys * list termop :=
  match h with
  | [] => (s, [])
  | (now, io) :: r =>
      let '(s1, e, _) := istep W H fails s now io in
      let '(s2, e2) := irun W H fails s1 r in
      (s2, e ++ e2)
  end.

(* the logic of all bars after every event of the history *)
Fixpoint irun_logics (W H : N) (fails : N -> bool) (s : sys) (h : list (N * iop)) : list (list logic) :=
  match h with
  | [] => []
  | (now, io) :: r =>
      let '(s1, _, _) := istep W H fails s now io in
      bars_logic s1 :: irun_logics W H fails s1 r
  end.

Definition iclosure_writes (io : iop) : list termop :=
  match io with IOp o => closure_writes o | _ => [] end.
