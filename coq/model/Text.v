(** Text, lines and the string helpers the drawing code relies on.
    A character is its Unicode scalar value; the drawing models are restricted to
    printable ASCII (one byte, one column each) plus '\n' (10) inside messages, which is
    what the correspondence generators produce; wide / zero-width / ANSI content is the
    business of C12 (Padded.v), not of the drawing models. *)
From IndModel Require Export Base.

Definition text := list N.
Definition NL : N := 10.
Definition SP : N := 32.

Definition tlen (s : text) : N := N.of_nat (length s).
Definition spaces (n : N) : text := repeat SP (N.to_nat n).
Definition text_eqb : text -> text -> bool := list_eqb N.eqb.

(** [str::split('\n')] : always at least one piece. *)
Fixpoint split_nl_aux (s : text) (cur : text) : list text :=
  match s with
  | [] => [rev cur]
  | c :: r => if N.eqb c NL then rev cur :: split_nl_aux r [] else split_nl_aux r (c :: cur)
  end.
Definition split_nl (s : text) : list text := split_nl_aux s [].

(** [str::lines()] without '\r' in the alphabet: split at '\n', drop one trailing empty piece. *)
Definition lines_of (s : text) : list text :=
  let ps := split_nl s in
  match rev ps with
  | [] :: r => rev r
  | _ => ps
  end.

(** decimal rendering of a u64 ([{pos}], [{len}]) *)
Fixpoint dec_digits (fuel : nat) (n : N) (acc : text) : text :=
  match fuel with
  | O => acc
  | S f => let acc' := (48 + n mod 10) :: acc in
           if n <? 10 then acc' else dec_digits f (n / 10) acc'
  end.
Definition decimal (n : N) : text := dec_digits 40 n [].

(** Lines handed to the draw target (src/draw_target.rs:643-648). *)
Inductive lkind := KText | KBar | KEmpty.
Record line := mkline { lk : lkind; lt : text }.
Definition is_bar (l : line) : bool := match lk l with KBar => true | _ => false end.
Definition lwidth (l : line) : N := tlen (lt l).

(** LineType::wrapped_height (src/draw_target.rs:651-661): max 1 (ceil (cols / width)).
    The Rust code computes the ceiling in f64; for cols, width < 2^53 that is the integer
    ceiling (both operands exact, correctly rounded division, see docs/C19.md). *)
Definition wrapped_height (l : line) (W : N) : N := N.max 1 ((lwidth l + W - 1) / W).

Definition visual_line_count (ls : list line) (W : N) : N :=
  fold_left (fun acc l => acc + wrapped_height l W) ls 0.
