(** The live region of a MultiProgress in the property's words (C02, end-to-end corollary):
    when are the live rows EXACTLY the renderings of the members' latest drawn states, in logical
    order?  Definitions only; nothing in MultiScreen.v / MultiLatest.v is changed.

    The screen ghost [mg_live] (MultiScreen.v) is, by construction, the rows of the last PAINTED
    frame that are still counted by last_line_count.  Between two paints the stored lines of the
    members move on (a member draw stores its rendering BEFORE the refresh limiter is asked; remove
    takes a slot out of the ordering before the redraw; clear erases the rows but not the stored
    lines): the screen then still shows the previous painted frame.  [settled] computes, from the
    calls alone, whether the last event that touched either side was a paint of all members:

      - an attempted MultiState::draw without text lines            -> settled
      - an attempted draw WITH text lines (println)                 -> settled iff no dropped bar is
        at the head of the list (such a bar is painted once more below the text and leaves the list
        WITHOUT Keep: observation O1 of docs/C02.md - its rows stay until the next draw)
      - MultiState::suspend (clear, closure, forced draw)           -> settled
      - a refused draw, mark_zombie, insert, set_alignment          -> unchanged
      - a member store (Drawable::state), remove_idx, clear         -> not settled (until the next paint)  *)
From IndModel Require Export MultiScreen MultiLatest.

Definition no_head_zombie (m : mstate) : bool :=
  match head_zombies (ms_order m) (ms_members m) with [] => true | _ => false end.

Section Settled.
  Variable W H : N.

  Definition c_act (now : N) (m : mstate) (a : maction) (f : bool) : bool :=
    match a with
    | ADraw force extra =>
        if ms_attempt W m force extra now
        then (if ms_has_text m extra then no_head_zombie m else true)
        else f
    | ASuspend _ => true
    | AStore _ _ _ | ARemove _ | AClear => false
    | AInsert _ | AMark _ | AAlign _ | AWrite _ => f
    end.

  (** along the MultiState calls of one public call (same threading as MultiScreen.g_run) *)
  Fixpoint c_run (now : N) (m : mstate) (c : N) (acts : list maction) (f : bool) : bool :=
    match acts with
    | [] => f
    | a :: r => let '(m1, _, c1, _) := mp_exec1 W H nofaults now m c a in
                c_run now m1 c1 r (c_act now m a f)
    end.

  (** along a history, from the flag [f] *)
  Fixpoint settled_from (s : sys) (f : bool) (h : list (N * op)) : bool :=
    match h with
    | [] => f
    | x :: r => settled_from (fst (fst (step W H nofaults s (fst x) (snd x))))
                             (c_run (fst x) (s_mp s) (s_calls s) (op_actions W s (fst x) (snd x)) f) r
    end.

  (** from an empty MultiProgress (no member, no live row: settled) *)
  Definition settled (s0 : sys) (h : list (N * op)) : bool := settled_from s0 true h.

  (** the call paints all members by itself, whatever happened before it *)
  Definition paints_all (s : sys) (now : N) (o : op) : bool :=
    c_run now (s_mp s) (s_calls s) (op_actions W s now o) false.

  (** the call leaves the rows on the screen alone: every draw it makes is refused, it does not
      clear, suspend, write, or turn the head of the list into kept rows *)
  Definition s_act (now : N) (m : mstate) (a : maction) : bool :=
    match a with
    | ADraw force extra => negb (ms_attempt W m force extra now)
    | AStore _ _ _ | ARemove _ | AInsert _ | AAlign _ => true
    | AMark idx => match ms_order m with first :: _ => negb (N.eqb idx first) | [] => true end
    | AClear | ASuspend _ | AWrite _ => false
    end.

  Fixpoint s_run (now : N) (m : mstate) (c : N) (acts : list maction) : bool :=
    match acts with
    | [] => true
    | a :: r => s_act now m a
                && let '(m1, _, c1, _) := mp_exec1 W H nofaults now m c a in s_run now m1 c1 r
    end.

  Definition paints_nothing (s : sys) (now : N) (o : op) : bool :=
    s_run now (s_mp s) (s_calls s) (op_actions W s now o).
End Settled.

(** the rendering the latest-drawn-state ghost [lg] assigns to bar [b] of state [s] *)
Definition latest_frame (lg : lghost) (s : sys) (b : N) : list line := shown lg (slot_of s b).
