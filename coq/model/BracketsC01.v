(** C01 - why the single-bar model may treat every call of its alphabet as ONE atomic step.
    The model (Sys.v [step], SingleBar.v) is sequential: an op mutates the bar state, possibly runs a
    user closure (suspend) and paints, and nothing else happens in between.  On the real code other
    threads may hold clones of the handle, so this is sound only if each call does all of that inside
    a single outermost critical section over the bar mutex.  This file states that discipline over
    the lock footprints (model/Locks.v; generated table gen/LockFootprints.all_programs), in the style
    of model/Brackets.v but over the BAR lock alone and with the position of the callbacks:
      - [bar_sections]: number of outermost critical sections over the bar mutex (exactly 1 for every
        call except tick / inc / dec / set_position, which may do nothing under the mutex: at most 1);
      - [inside_bar]: every state access that the footprints mark - taking the MultiState lock (the
        draw), BarState::tick, and every user callback (the closure of suspend, tracker callbacks of
        the rendering) - happens while the bar mutex is held, and the mutex is never given up by a
        condvar wait or released when not held.
    ProgressBar::drop is the one call of the alphabet that never takes the bar mutex: the last handle
    gives up its Arc first ([CDropArc]) and BarState::drop runs with exclusive ownership; for it
    [owned_access] says that everything happens after that point and the bar mutex is not touched
    (the number of its MultiState sections is Brackets.allowed_sections, property C02).
    NOT visible in the footprints (no [caction] marks them): the atomics that inc / dec / set_position
    and tick touch BEFORE their bar section - position store, position limiter, ticker-slot read.
    In C01 (one thread issues the calls) that is harmless; with concurrent clones it is the source of
    C02's finding D33.  "One op = one atomic step" is justified by this file only for what happens
    behind the mutex.
    Definitions only. *)
From IndModel Require Import Base Locks Brackets Sys SingleBar.
From Coq Require Import String.
Local Open Scope string_scope.

(** the Rust method behind each op of the C01 alphabet *)
Definition c01_call (o : op) : option string :=
  match o with
  | OTick _ => Some "ProgressBar::tick"
  | OInc _ _ => Some "ProgressBar::inc"
  | ODec _ _ => Some "ProgressBar::dec"
  | OSetPos _ _ => Some "ProgressBar::set_position"
  | OSetLen _ _ => Some "ProgressBar::set_length"
  | OIncLen _ _ => Some "ProgressBar::inc_length"
  | ODecLen _ _ => Some "ProgressBar::dec_length"
  | OUnsetLen _ => Some "ProgressBar::unset_length"
  | OSetMsg _ _ => Some "ProgressBar::set_message"
  | OSetPrefix _ _ => Some "ProgressBar::set_prefix"
  | OSetStyle _ _ => Some "ProgressBar::set_style"
  | OPrintln _ _ => Some "ProgressBar::println"
  | OSuspend _ _ => Some "ProgressBar::suspend"
  | OReset _ => Some "ProgressBar::reset"
  | OResetEta _ => Some "ProgressBar::reset_eta"
  | OResetElapsed _ => Some "ProgressBar::reset_elapsed"
  | OFinish _ FAndLeave => Some "ProgressBar::finish"
  | OFinish _ (FWithMessage _) => Some "ProgressBar::finish_with_message"
  | OFinish _ FAndClear => Some "ProgressBar::finish_and_clear"
  | OFinish _ FAbandon => Some "ProgressBar::abandon"
  | OFinish _ (FAbandonWithMessage _) => Some "ProgressBar::abandon_with_message"
  | OFinishUsingStyle _ => Some "ProgressBar::finish_using_style"
  | OForceDraw _ => Some "ProgressBar::force_draw"
  | OSetTabWidth _ => Some "ProgressBar::set_tab_width"
  | ODrop _ => Some "ProgressBar::drop"
  | _ => None
  end.

(* ------------------------------------------------------------------ on one action sequence *)
(** outermost critical sections over the bar mutex *)
Fixpoint bar_sections_from (depth : nat) (fp : list caction) : nat :=
  match fp with
  | [] => 0
  | CAcq CBar :: q => (match depth with O => 1 | _ => 0 end + bar_sections_from (S depth) q)%nat
  | CRel CBar :: q => bar_sections_from (Nat.pred depth) q
  | _ :: q => bar_sections_from depth q
  end.
Definition bar_sections (fp : list caction) : nat := bar_sections_from 0 fp.

(** every marked state access and every callback happens while the bar mutex is held *)
Fixpoint inside_bar_from (depth : nat) (fp : list caction) : bool :=
  match fp with
  | [] => Nat.eqb depth 0
  | CAcq CBar :: q => inside_bar_from (S depth) q
  | CRel CBar :: q => match depth with O => false | S d => inside_bar_from d q end
  | CWaitRel CBar :: _ => false
  | CAcq CMulti :: q | CCallback :: q | CTick :: q =>
      match depth with O => false | _ => inside_bar_from depth q end
  | _ :: q => inside_bar_from depth q
  end.
Definition inside_bar (fp : list caction) : bool := inside_bar_from 0 fp.

(** ProgressBar::drop: nothing before the Arc has been given up, the bar mutex never taken *)
Fixpoint owned_access_from (owned : bool) (fp : list caction) : bool :=
  match fp with
  | [] => true
  | CDropArc :: q => owned_access_from true q
  | CAcq CBar :: _ | CRel CBar :: _ | CWaitRel CBar :: _ => false
  | CAcq CMulti :: q | CCallback :: q | CTick :: q => owned && owned_access_from owned q
  | _ :: q => owned_access_from owned q
  end.
Definition owned_access (fp : list caction) : bool := owned_access_from false fp.

(* ------------------------------------------------------------------ on structured programs *)
(** abstract state = (nesting depth over the bar mutex, bar sections so far); None = [inside_bar] violated *)
Definition bar_step (a : caction) (st : nat * nat) : option (nat * nat) :=
  let '(d, n) := st in
  match a with
  | CAcq CBar => Some (S d, match d with O => S n | _ => n end)
  | CRel CBar => match d with O => None | S d' => Some (d', n) end
  | CWaitRel CBar => None
  | CAcq CMulti | CCallback | CTick => match d with O => None | _ => Some st end
  | _ => Some st
  end.
(** all paths: balanced, everything inside, at most ONE section *)
Definition one_bar_section (p : cprog) : bool :=
  match acheck st_eqb bar_step p [(0, 0)%nat] with
  | Some outs => forallb (fun st => Nat.eqb (fst st) 0 && Nat.leb (snd st) 1) outs
  | None => false
  end.

Definition own_step (a : caction) (owned : bool) : option bool :=
  match a with
  | CDropArc => Some true
  | CAcq CBar | CRel CBar | CWaitRel CBar => None
  | CAcq CMulti | CCallback | CTick => if owned then Some owned else None
  | _ => Some owned
  end.
Definition drop_owned (p : cprog) : bool :=
  match acheck Bool.eqb own_step p [false] with Some _ => true | None => false end.

(** all paths: balanced, everything inside, EXACTLY one section (same check as
    BracketsC16.exactly_one_bar_section, which imports this file and cannot be imported here) *)
Definition just_one_bar_section (p : cprog) : bool :=
  match acheck st_eqb bar_step p [(0, 0)%nat] with
  | Some outs => forallb (fun st => Nat.eqb (fst st) 0 && Nat.eqb (snd st) 1) outs
  | None => false
  end.

(** the calls that may do NOTHING under the bar mutex: [tick] while a steady ticker runs
    (progress_bar.rs tick: the ticker slot is read first, outside the section), and inc / dec /
    set_position when the position limiter refuses the draw.  NOTE what the footprints do not see for
    these four: the position store (AtomicPosition fetch_add / store), the position limiter
    (`pos.allow(now)`, atomics) and the ticker-slot read happen BEFORE the bar section, without the
    bar mutex, and [caction] has no marker for them. *)
Definition c01_may_skip (name : string) : bool :=
  String.eqb name "ProgressBar::tick" || String.eqb name "ProgressBar::inc"
  || String.eqb name "ProgressBar::dec" || String.eqb name "ProgressBar::set_position".

(** the check of one call of the alphabet against a table of structured programs *)
Definition c01_call_okb (tbl : list (string * cprog)) (name : string) : bool :=
  match pg_lookup name tbl with
  | Some p => if String.eqb name "ProgressBar::drop" then drop_owned p && bracket_ok_p (name, p)
              else if c01_may_skip name then one_bar_section p
              else just_one_bar_section p
  | None => false
  end.

(** the calls of the alphabet (the range of [c01_call]) *)
Definition c01_calls : list string :=
  ["ProgressBar::tick"; "ProgressBar::inc"; "ProgressBar::dec"; "ProgressBar::set_position";
   "ProgressBar::set_length"; "ProgressBar::inc_length"; "ProgressBar::dec_length";
   "ProgressBar::unset_length"; "ProgressBar::set_message"; "ProgressBar::set_prefix";
   "ProgressBar::set_style"; "ProgressBar::println"; "ProgressBar::suspend"; "ProgressBar::reset";
   "ProgressBar::reset_eta"; "ProgressBar::reset_elapsed"; "ProgressBar::finish";
   "ProgressBar::finish_with_message"; "ProgressBar::finish_and_clear"; "ProgressBar::abandon";
   "ProgressBar::abandon_with_message"; "ProgressBar::finish_using_style"; "ProgressBar::force_draw";
   "ProgressBar::set_tab_width"; "ProgressBar::drop"].
