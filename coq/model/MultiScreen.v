(** The screen of a MultiProgress (properties C02_screen, C03_log, C04_kept): ghost state, provisos
    and the history runner that executes every emitted TermLike call on the terminal model Term.v.
    Definitions only; nothing in Sys.v / MultiSpec.v / Term.v is changed.

    Scope (stated in every theorem): Top alignment (no set_alignment(Bottom) in the history), no
    I/O faults, the MultiProgress draws to a terminal, no bar owns a terminal of its own.

    The ghost does NOT look at the terminal: it is computed from the op history through the
    MultiState bookkeeping of the model (which members are in the ordering, their stored lines, the
    zombie flags, the verdict of the refresh limiter):
    - [mg_log]  every line handed to MultiProgress::println / ProgressBar::println of a member /
                written by the closure of suspend, in emission order;
    - [mg_kept] the ROWS of visibly finished, dropped bars that LineAdjust::Keep left on the screen
                above the live region (emptied by the next println / clear / suspend, by design);
    - [mg_live] the ROWS of the Bar lines of the last PAINTED frame that are still counted by
                last_line_count (= the rows the next draw erases). *)
From IndModel Require Export MultiSpec Term.

Definition nofaults : N -> bool := fun _ => false.

Record mghost := mkmg { mg_log : list text; mg_kept : list (list N); mg_live : list (list N) }.
Definition mghost0 : mghost := mkmg [] [] [].

Definition is_text (l : line) : bool := negb (is_bar l).

Section Ghost.
  Variable W H : N.
  Let Wn := N.to_nat W.

  (** the Bar lines a multi draw composes: the stored lines of the members in ordering order *)
  Definition bar_lines_of (m : mstate) : list line :=
    concat (map (member_lines (ms_members m)) (ms_order m)).
  (** the text lines a multi draw paints above them *)
  Definition text_lines_of (m : mstate) (extra : option (list line)) : list line :=
    match extra with Some e => e | None => [] end ++ ms_orphans m.

  (** the stored lines of the dropped bars at the head of the ordering, and of the others *)
  Definition zombie_lines_of (m : mstate) : list line :=
    concat (map (member_lines (ms_members m)) (head_zombies (ms_order m) (ms_members m))).
  Definition rest_lines_of (m : mstate) : list line :=
    concat (map (member_lines (ms_members m))
                (drop_while (fun i => m_zombie (nthN (ms_members m) i member_default)) (ms_order m))).

  (** LineAdjust::Keep(k): the first k rows of the live region become kept rows *)
  Definition g_keep (g : mghost) (k : N) : mghost :=
    mkmg (mg_log g) (mg_kept g ++ firstn (N.to_nat k) (mg_live g)) (skipn (N.to_nat k) (mg_live g)).

  (** an ATTEMPTED MultiState::draw: the text lines join the log; with text the kept rows are erased
      (Clear) and every Bar row painted stays in the live region; without text the rows of the
      head zombies (painted for the last time) become kept rows *)
  Definition g_draw (m : mstate) (extra : option (list line)) (g : mghost) : mghost :=
    let log' := mg_log g ++ map lt (text_lines_of m extra) in
    if ms_has_text m extra
    then mkmg log' [] (wrap Wn (map lt (bar_lines_of m)))
    else mkmg log' (mg_kept g ++ wrap Wn (map lt (zombie_lines_of m)))
              (wrap Wn (map lt (rest_lines_of m))).

  (** one MultiState method call *)
  Definition g_act (now : N) (m : mstate) (a : maction) (g : mghost) : mghost :=
    match a with
    | ADraw force extra => if ms_attempt W m force extra now then g_draw m extra g else g
    | AClear => mkmg (mg_log g) [] []
    | ASuspend ws => g_draw m None (mkmg (mg_log g ++ ws) [] [])
    | AMark idx =>
        match ms_order m with
        | first :: _ =>
            if N.eqb idx first
            then g_keep g (N.min (member_vlc (nthN (ms_members m) idx member_default) W)
                                 (target_n (ms_target m)))
            else g
        | [] => g
        end
    | AWrite ws => mkmg (mg_log g ++ ws) (mg_kept g) (mg_live g)
    | AStore _ _ _ | ARemove _ | AInsert _ | AAlign _ => g
    end.

  (** the lines a suspend closure writes: any lines, empty ones included, EXCEPT an empty FIRST
      line while the region is empty (last_line_count + zombie_lines_count = 0: the clear of suspend
      erases nothing and does not move the cursor) and the last draw did not leave the cursor below
      an erased region (cursor_below = false).  In that state the cursor is wrap-pending at the right
      edge when the last terminal write was the write_str of a text-only draw - the open finding
      D28 `empty-line-after-text-only-draw-swallowed`, C03_empty_line_swallowed_refuted - and at
      column 0 otherwise (nothing written yet, or the last write was a closure's write_line); the
      model state does not tell the two apart, so both are excluded. *)
  Definition target_below (t : target) : bool := match t with TTerm tg => tt_below tg | _ => false end.
  Definition closure_ok (m : mstate) (ws : list text) : bool :=
    match ws with
    | [] :: _ => (1 <=? target_n (ms_target m) + ms_zombie_lines m) || target_below (ms_target m)
    | _ => true
    end.

  (** the proviso of one call.  [ADraw]/[ASuspend]: the Bar rows of the composed frame, plus the
      kept rows above them when they are not erased, fit the terminal height (C02's own proviso
      plus the scroll-back caveat: cursor-up cannot reach rows that have scrolled off the screen);
      [ASuspend]: [closure_ok] (an EMPTY first write_line at the right edge only resolves the
      pending wrap: TermProofs.line_spec_edge_empty);  [AAlign]: Top only;
      [AWrite] (suspend through a DETACHED bar while the MultiProgress is on screen writes into
      the live region - foreign code, not indicatif's): nothing is written. *)
  Definition fits_act (now : N) (m : mstate) (a : maction) : Prop :=
    match a with
    | ADraw force extra =>
        ms_attempt W m force extra now = true ->
        (visual_line_count (bar_lines_of m) W
           + (if ms_has_text m extra then 0 else ms_zombie_lines m) <=? H) = true
    | ASuspend ws =>
        closure_ok m ws = true
        /\ (visual_line_count (bar_lines_of m) W <=? H) = true
    | AAlign a => a = Top
    | AWrite ws => ws = []
    | _ => True
    end.

  (** ghost and proviso along the calls of one public call (same threading as MultiSpec.mp_run) *)
  Fixpoint g_run (now : N) (m : mstate) (c : N) (acts : list maction) (g : mghost) : mghost :=
    match acts with
    | [] => g
    | a :: r => let '(m1, _, c1, _) := mp_exec1 W H nofaults now m c a in
                g_run now m1 c1 r (g_act now m a g)
    end.

  Fixpoint fits_run (now : N) (m : mstate) (c : N) (acts : list maction) : Prop :=
    match acts with
    | [] => True
    | a :: r => fits_act now m a
                /\ let '(m1, _, c1, _) := mp_exec1 W H nofaults now m c a in fits_run now m1 c1 r
    end.

  (* ---------------------------------------------------------------- histories *)
  (** one public call: the new system state, the ghost, the terminal after the emitted calls *)
  Definition ms_step (st : sys * mghost * term) (x : N * op) : sys * mghost * term :=
    let '(s, g, t) := st in
    let '(s', e, _) := step W H nofaults s (fst x) (snd x) in
    (s', g_run (fst x) (s_mp s) (s_calls s) (op_actions W s (fst x) (snd x)) g,
     run_ops (N.to_nat W) (N.to_nat H) t e).

  Definition ms_run (st : sys * mghost * term) (h : list (N * op)) : sys * mghost * term :=
    fold_left ms_step h st.

  (** FitsAll: the proviso at every call of the history *)
  Fixpoint FitsAll (s : sys) (h : list (N * op)) : Prop :=
    match h with
    | [] => True
    | x :: r => fits_run (fst x) (s_mp s) (s_calls s) (op_actions W s (fst x) (snd x))
                /\ FitsAll (fst (fst (step W H nofaults s (fst x) (snd x)))) r
    end.
End Ghost.

(** initial configurations: any number of bars, none with a terminal of its own; a MultiProgress
    on a terminal target (any refresh limiter) on which nothing has been drawn; no pending
    orphan lines; every stored member line is a Bar line (in particular: an empty MultiProgress) *)
Definition members_bars (m : mstate) : Prop :=
  forall i ls, m_lines (nthN (ms_members m) i member_default) = Some ls ->
               Forall (fun l => is_bar l = true) ls.

Definition ms_initial (s : sys) : Prop :=
  no_own_term s
  /\ exists tg, ms_target (s_mp s) = TTerm tg /\ tt_n tg = 0 /\ tt_align tg = Top /\ tt_below tg = false
  /\ ms_align (s_mp s) = Top /\ ms_orphans (s_mp s) = [] /\ ms_zombie_lines (s_mp s) = 0
  /\ members_bars (s_mp s).

(** the lines a public call adds to the log, read off the call itself *)
Definition mp_println_lines (m : text) : list text :=
  match m with [] => [[]] | _ => lines_of m end.
Definition bar_println_lines (m : text) : list text :=
  match lines_of m with [] => [[]] | ls => ls end.

Definition op_log (s : sys) (o : op) : list text :=
  match o with
  | OPrintln b m => if is_member s b then bar_println_lines m else []
  | OSuspend _ ws => ws
  | OMPrintln m => mp_println_lines m
  | OMSuspend ws => ws
  | _ => []
  end.

Fixpoint hist_log (W H : N) (s : sys) (h : list (N * op)) : list text :=
  match h with
  | [] => []
  | x :: r => op_log s (snd x) ++ hist_log W H (fst (fst (step W H nofaults s (fst x) (snd x)))) r
  end.

(** the right-hand side of the screen equation *)
Definition ms_expected (W : N) (pre : list (list N)) (g : mghost) : list (list N) :=
  pre ++ wrap (N.to_nat W) (mg_log g) ++ mg_kept g ++ mg_live g.

(* ------------------------------------------------------------------ statement vocabulary of C02_live_forced *)
(** between calls: no pending orphan line, and the MultiProgress draws to a terminal *)
Definition J (m : mstate) : Prop := ms_orphans m = [] /\ exists tg, ms_target m = TTerm tg.

(** [Clean]: the live rows are exactly the stored lines of the members that are in the ordering,
    in ordering order (each member once: the ordering has no duplicates) *)
Definition Clean (W : N) (m : mstate) (g : mghost) : Prop :=
  mg_live g = wrap (N.to_nat W) (map lt (bar_lines_of m)).

(** the calls on a member that force a draw of all members *)
Definition forced_member_op (s : sys) (o : op) : bool :=
  match o with
  | OFinish b _ | OFinishUsingStyle b | OForceDraw b | OSetTabWidth b | ORemove b => is_member s b
  | _ => false
  end.

(* ------------------------------------------------------------------ C04_kept: the final phase *)
(** the calls of the final phase of the kept clause: finishing calls and drops (every multi draw
    they make is forced), in any order, on any bars *)
Definition kept_op (o : op) : bool :=
  match o with
  | OFinish _ _ | OFinishUsingStyle _ | ODrop _ | OForceDraw _ | OSetTabWidth _ => true
  | _ => false
  end.

Section Reaped.
  Variable W H : N.

  (** the stored lines of the members a call reaps (takes out of the ordering while their rows stay
      on the screen as kept rows), at the moment they are reaped *)
  Definition reap_act (now : N) (m : mstate) (a : maction) : list line :=
    match a with
    | ADraw force extra =>
        if ms_attempt W m force extra now && negb (ms_has_text m extra) then zombie_lines_of m else []
    | AMark idx =>
        match ms_order m with
        | first :: _ => if N.eqb idx first then member_lines (ms_members m) idx else []
        | [] => []
        end
    | _ => []
    end.

  Fixpoint reap_run (now : N) (m : mstate) (c : N) (acts : list maction) : list line :=
    match acts with
    | [] => []
    | a :: r => let '(m1, _, c1, _) := mp_exec1 W H nofaults now m c a in
                reap_act now m a ++ reap_run now m1 c1 r
    end.

  Fixpoint reaped_hist (s : sys) (h : list (N * op)) : list line :=
    match h with
    | [] => []
    | x :: r => reap_run (fst x) (s_mp s) (s_calls s) (op_actions W s (fst x) (snd x))
                ++ reaped_hist (fst (fst (step W H nofaults s (fst x) (snd x)))) r
    end.
End Reaped.
