(** C09 – the primitive-float binary64 instance of the generic estimator model (Estimator.v; the
    Flocq instance [FL] is defined there) and the correspondence checker used by the harness
    shards.  Definitions only. *)
From IndModel Require Export Base Estimator.
From IndGen Require Import Constants.
From Coq Require Floats.
From Flocq Require Core.Raux IEEE754.BinarySingleNaN IEEE754.Binary IEEE754.Bits IEEE754.PrimFloat.
Open Scope N_scope.

(** * The primitive-float binary64 instance.  [powf] is DATA (see [FL] in Estimator.v): a table
    (exponent bits -> result bits) filled by the harness with what [0.1_f64.powf(x)] returned on
    this machine; a missing entry yields -1.0, so the comparison fails loudly. *)
Module PF.   (* Coq primitive floats: hardware binary64 through the kernel *)
  Definition F := Coq.Floats.PrimFloat.float.
  Definition of_fl (x : FL.F) : F := Flocq.IEEE754.PrimFloat.B2Prim x.
  Definition to_fl (x : F) : FL.F := Flocq.IEEE754.PrimFloat.Prim2B x.
  Definition pf_of_int (n : N) : F :=
    if n <? 9007199254740992     (* < 2^53: exact, of_uint63 cannot round *)
    then Coq.Floats.PrimFloat.of_uint63 (Coq.Numbers.Cyclic.Int63.Uint63.of_Z (Z.of_N n))
    else of_fl (FL.of_Z (Z.of_N n) false).
  Definition of_bits (b : N) : F := of_fl (FL.of_bits b).
  Definition to_bits (x : F) : N := FL.to_bits (to_fl x).
  Definition fpow (tbl : list (N * N)) (x : F) : F :=
    match table_find (to_bits x) tbl with Some w => of_bits w | None => Coq.Floats.PrimFloat.opp Coq.Floats.PrimFloat.one end.
  Definition ar (tbl : list (N * N)) : arith := {|
    T := F;
    of_int := pf_of_int;
    add := Coq.Floats.PrimFloat.add; sub := Coq.Floats.PrimFloat.sub; mul := Coq.Floats.PrimFloat.mul; div := Coq.Floats.PrimFloat.div;
    pow_base := fpow tbl;
    is_zero := fun x => Coq.Floats.PrimFloat.eqb x Coq.Floats.PrimFloat.zero;
    trunc := fun x => of_fl (FL.ftrunc (to_fl x));
    cast := fun max x => FL.fcast max (to_fl x)
  |}.
End PF.

(** * Correspondence check.
    case = (use_flocq, len0, clock at creation, history, powf table, observed query results)
    an observation = (per_sec bits (NaN canonical), eta ns, duration ns, elapsed ns);
    [None] for eta/duration = the call panicked. *)
(** Number literals of the case files: a decimal [N] literal of 19 digits costs Coq ~1.4 ms to
    interpret, a primitive-integer literal ~0.1 ms, so the harness writes numbers >= 10^6 as
    [(u n)] (n < 2^63) or [(uu hi lo)] (= hi * 2^63 + lo). *)
Module Lit.
  Import Coq.Numbers.Cyclic.Int63.Uint63.
  Definition u (x : int) : N := Z.to_N (to_Z x).
  Definition uu (hi lo : int) : N := u hi * 9223372036854775808 + u lo.
  Arguments u x%uint63.
  Arguments uu (hi lo)%uint63.
End Lit.
Export Lit.

(** [obs_bits], [est_case]'s observation part, [run_obs] and [table_ok] are defined in Estimator.v (after [FL]). *)
Definition est_case : Type :=
  (bool * option N * N * list eop * list (N * N) * list obs_bits)%type.

Definition est_check (c : est_case) : bool :=
  let '(use_flocq, len0, t0, ops, tbl, observed) := c in
  table_ok tbl
  && list_eqb obs_eqb (run_obs (PF.ar tbl) PF.to_bits len0 t0 ops) observed
  && (if use_flocq then list_eqb obs_eqb (run_obs (FL.ar tbl) FL.to_bits len0 t0 ops) observed
      else true).
