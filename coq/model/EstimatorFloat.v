(** C09 – the binary64 instances of the generic estimator model (Estimator.v) and the
    correspondence checker used by the harness shards.  Definitions only. *)
From IndModel Require Export Base Estimator.
From IndGen Require Import Constants.
From Coq Require Floats.
From Flocq Require Core.Raux IEEE754.BinarySingleNaN IEEE754.Binary IEEE754.Bits IEEE754.PrimFloat.
Open Scope N_scope.

(** * binary64 instances: [powf] is DATA – a table (exponent bits -> result bits) filled by the
    harness with what [0.1_f64.powf(x)] returned on this machine.  A missing entry yields -1.0,
    which no genuine weight can be, so the comparison fails loudly. *)
Definition NAN_BITS : N := 9221120237041090560.       (* 0x7FF8_0000_0000_0000, canonical quiet NaN *)
Fixpoint table_find (k : N) (t : list (N * N)) : option N :=
  match t with
  | [] => None
  | (a, w) :: r => if a =? k then Some w else table_find k r
  end.

Module FL.   (* Flocq, pure Gallina *)
  Import Flocq.IEEE754.BinarySingleNaN.
  Definition F := binary_float 53 1024.
  Definition Hp : Flocq.Core.FLX.Prec_gt_0 53 := eq_refl.
  Definition Hm : Prec_lt_emax 53 1024 := eq_refl.
  Definition of_Z (z : Z) (szero : bool) : F :=
    binary_normalize 53 1024 Hp Hm mode_NE z 0 szero.
  Definition of_bits (b : N) : F :=
    Flocq.IEEE754.Binary.B2BSN 53 1024 (Flocq.IEEE754.Bits.b64_of_bits (Z.of_N b)).
  Definition to_bits (x : F) : N :=
    if is_nan x then NAN_BITS
    else Z.to_N (Flocq.IEEE754.Bits.bits_of_b64
                   (Flocq.IEEE754.Binary.BSN2B 53 1024 Flocq.IEEE754.Bits.default_nan_pl64 x)).
  Definition ftrunc (x : F) : F :=
    match x with
    | B754_finite s m e _ => if (0 <=? e)%Z then x else of_Z (Btrunc x) s
    | _ => x
    end.
  (* Rust float->unsigned `as`: NaN -> 0, negative -> 0, too large / +inf -> MAX, else truncate *)
  Definition fcast (max : N) (x : F) : N :=
    match x with
    | B754_nan => 0
    | B754_zero _ => 0
    | B754_infinity s => if s then 0 else max
    | B754_finite s _ _ _ => if s then 0 else N.min max (Z.to_N (Btrunc x))
    end.
  Definition fis_zero (x : F) : bool := match x with B754_zero _ => true | _ => false end.
  Definition minus_one : F := of_Z (-1) false.
  Definition fpow (tbl : list (N * N)) (x : F) : F :=
    match table_find (to_bits x) tbl with Some w => of_bits w | None => minus_one end.
  Definition ar (tbl : list (N * N)) : arith := {|
    T := F;
    of_int := fun n => of_Z (Z.of_N n) false;
    add := @Bplus 53 1024 Hp Hm mode_NE; sub := @Bminus 53 1024 Hp Hm mode_NE;
    mul := @Bmult 53 1024 Hp Hm mode_NE; div := @Bdiv 53 1024 Hp Hm mode_NE;
    pow_base := fpow tbl;
    is_zero := fis_zero;
    trunc := ftrunc;
    cast := fcast
  |}.
End FL.

Module PF.   (* Coq primitive floats: hardware binary64 through the kernel *)
  Definition F := Coq.Floats.PrimFloat.float.
  Definition of_fl (x : FL.F) : F := Flocq.IEEE754.PrimFloat.B2Prim x.
  Definition to_fl (x : F) : FL.F := Flocq.IEEE754.PrimFloat.Prim2B x.
  Definition pf_of_int (n : N) : F :=
    if n <? 9007199254740992     (* < 2^53: exact, of_uint63 cannot round *)
    then Coq.Floats.PrimFloat.of_uint63 (Coq.Numbers.Cyclic.Int63.Uint63.of_Z (Z.of_N n))
    else of_fl (FL.of_Z (Z.of_N n) false).
  Definition of_bits (b : N) : F := of_fl (FL.of_bits b).
  Definition to_bits (x : F) : N := FL.to_bits (to_fl x).
  Definition fpow (tbl : list (N * N)) (x : F) : F :=
    match table_find (to_bits x) tbl with Some w => of_bits w | None => Coq.Floats.PrimFloat.opp Coq.Floats.PrimFloat.one end.
  Definition ar (tbl : list (N * N)) : arith := {|
    T := F;
    of_int := pf_of_int;
    add := Coq.Floats.PrimFloat.add; sub := Coq.Floats.PrimFloat.sub; mul := Coq.Floats.PrimFloat.mul; div := Coq.Floats.PrimFloat.div;
    pow_base := fpow tbl;
    is_zero := fun x => Coq.Floats.PrimFloat.eqb x Coq.Floats.PrimFloat.zero;
    trunc := fun x => of_fl (FL.ftrunc (to_fl x));
    cast := fun max x => FL.fcast max (to_fl x)
  |}.
End PF.

(** * Correspondence check.
    case = (use_flocq, len0, clock at creation, history, powf table, observed query results)
    an observation = (per_sec bits (NaN canonical), eta ns, duration ns, elapsed ns);
    [None] for eta/duration = the call panicked. *)
(** Number literals of the case files: a decimal [N] literal of 19 digits costs Coq ~1.4 ms to
    interpret, a primitive-integer literal ~0.1 ms, so the harness writes numbers >= 10^6 as
    [(u n)] (n < 2^63) or [(uu hi lo)] (= hi * 2^63 + lo). *)
Module Lit.
  Import Coq.Numbers.Cyclic.Int63.Uint63.
  Definition u (x : int) : N := Z.to_N (to_Z x).
  Definition uu (hi lo : int) : N := u hi * 9223372036854775808 + u lo.
  Arguments u x%uint63.
  Arguments uu (hi lo)%uint63.
End Lit.
Export Lit.

Definition obs_bits : Type := (N * option N * option N * N)%type.
Definition est_case : Type :=
  (bool * option N * N * list eop * list (N * N) * list obs_bits)%type.

Definition obs_eqb (a b : obs_bits) : bool :=
  let '(p1, e1, d1, l1) := a in
  let '(p2, e2, d2, l2) := b in
  (p1 =? p2) && option_eqb N.eqb e1 e2 && option_eqb N.eqb d1 d2 && (l1 =? l2).

Definition run_obs (A : arith) (to_bits : T A -> N) (len0 : option N) (t0 : N) (ops : list eop)
  : list obs_bits :=
  let '(_, _, os) := bar_run A ops t0 (bar_new A len0 t0) in
  map (fun o : obs A => let '(p, e, d, l) := o in (to_bits p, e, d, l)) os.

(** sanity of the supplied powf data: 0.1^x in [0,1] for x >= 0, = 1 at x = 0 and < 1 for
    every positive exponent that occurred (this is the float-level counterpart of the
    "denominator 1 - W(t) > 0" theorem) *)
Definition ONE_BITS : N := 4607182418800017408.   (* 1.0 *)
Definition INF_BITS : N := 9218868437227405312.   (* +inf; larger patterns are NaN or negative *)
Definition table_ok (t : list (N * N)) : bool :=
  forallb (fun aw : N * N => let '(a, w) := aw in
     (a <=? INF_BITS) && (w <=? ONE_BITS) && (if a =? 0 then w =? ONE_BITS else w <? ONE_BITS)) t.

Definition est_check (c : est_case) : bool :=
  let '(use_flocq, len0, t0, ops, tbl, observed) := c in
  table_ok tbl
  && list_eqb obs_eqb (run_obs (PF.ar tbl) PF.to_bits len0 t0 ops) observed
  && (if use_flocq then list_eqb obs_eqb (run_obs (FL.ar tbl) FL.to_bits len0 t0 ops) observed
      else true).
