(** C16 - why the tab model (Tabs.v) may treat every RUST CALL behind its alphabet as ONE atomic step.
    [Tabs.step] reads the bar's tab width, expands / stores a text or a style and renders, and
    nothing else happens in between.  Other threads may hold clones of the handle, so on the real
    code this is sound only if each call does "read the width - build the TabExpandedString -
    store it - draw" inside a single outermost critical section over the bar mutex: a
    set_tab_width that got in between would leave a text expanded with a stale width (seeded
    defect C16-5).  This file states that discipline over the lock footprints regenerated from
    /repo/src on every run (gen/LockFootprints.all_programs, tools/locks_extract.py), with the
    trace predicates of C01's file (BracketsC01: [bar_sections], [inside_bar], [one_bar_section],
    [owned_access], [drop_owned] - imported, not changed).
    Definitions only; proofs in proofs/BracketsC16Proofs.v. *)
From IndModel Require Import Base Locks Brackets BracketsC01.
From IndModel Require Tabs.
From Coq Require Import String.
Local Open Scope string_scope.

(** the Rust methods an op of the C16 alphabet stands for (Tabs.v [op]; harness c16.rs).
    [SetStyleDerived] is a SEQUENCE of two calls (style(), then set_style or with_style): the
    statement below is per call, such an op is not atomic as a whole; [SetStyleNew],
    [FinishUsingStyle], [Tick] list alternatives, each one call on the bar. *)
Definition c16_call (o : Tabs.op) : list string :=
  match o with
  | Tabs.SetTabWidth _ => ["ProgressBar::set_tab_width"]
  | Tabs.WithTabWidth _ => ["ProgressBar::with_tab_width"]
  | Tabs.SetStyleNew _ _ _ => ["ProgressBar::set_style"; "ProgressBar::with_style"]
  | Tabs.SetStyleDerived _ => ["ProgressBar::style"; "ProgressBar::set_style"; "ProgressBar::with_style"]
  | Tabs.SaveStyle => ["ProgressBar::style"]
  | Tabs.RestoreStyle => ["ProgressBar::set_style"]
  | Tabs.SetMessage _ => ["ProgressBar::set_message"]
  | Tabs.SetPrefix _ => ["ProgressBar::set_prefix"]
  | Tabs.WithMessage _ => ["ProgressBar::with_message"]
  | Tabs.WithPrefix _ => ["ProgressBar::with_prefix"]
  | Tabs.FinishWithMessage _ => ["ProgressBar::finish_with_message"]
  | Tabs.AbandonWithMessage _ => ["ProgressBar::abandon_with_message"]
  | Tabs.WithFinish _ => ["ProgressBar::with_finish"]
  | Tabs.FinishUsingStyle => ["ProgressBar::finish_using_style"; "ProgressBar::drop"]
  | Tabs.Tick => ["ProgressBar::tick"; "ProgressBar::update"]   (* update: the harness's position / length changes *)
  | Tabs.Println _ => ["ProgressBar::println"]
  | Tabs.GetMessage => ["ProgressBar::message"]
  | Tabs.GetPrefix => ["ProgressBar::prefix"]
  end.

(** all paths: balanced, every marked access inside, EXACTLY one section over the bar mutex *)
Definition exactly_one_bar_section (p : cprog) : bool :=
  match acheck st_eqb bar_step p [(0, 0)%nat] with
  | Some outs => forallb (fun st => Nat.eqb (fst st) 0 && Nat.eqb (snd st) 1) outs
  | None => false
  end.

Definition DROP : string := "ProgressBar::drop".
Definition TICK : string := "ProgressBar::tick".

(** the check of one call against a table of structured programs.  [tick] does nothing at all
    while a steady ticker runs (progress_bar.rs:235-240): at most one section; [drop] runs with
    exclusive ownership and never takes the mutex; every other call: exactly one *)
Definition c16_call_okb (tbl : list (string * cprog)) (name : string) : bool :=
  match pg_lookup name tbl with
  | Some p => if String.eqb name DROP then drop_owned p
              else if String.eqb name TICK then one_bar_section p
              else exactly_one_bar_section p
  | None => false
  end.

(** the range of [c16_call] *)
Definition c16_calls : list string :=
  ["ProgressBar::set_tab_width"; "ProgressBar::with_tab_width"; "ProgressBar::set_style";
   "ProgressBar::with_style"; "ProgressBar::style"; "ProgressBar::set_message";
   "ProgressBar::set_prefix"; "ProgressBar::with_message"; "ProgressBar::with_prefix";
   "ProgressBar::finish_with_message"; "ProgressBar::abandon_with_message";
   "ProgressBar::with_finish"; "ProgressBar::finish_using_style"; "ProgressBar::drop";
   "ProgressBar::tick"; "ProgressBar::update"; "ProgressBar::println"; "ProgressBar::message";
   "ProgressBar::prefix"].

(** the trace-level statement for one call *)
Definition c16_atomic (name : string) (tr : list caction) : Prop :=
  if String.eqb name DROP then owned_access tr = true
  else if String.eqb name TICK then (bar_sections tr <= 1)%nat /\ inside_bar tr = true
  else bar_sections tr = 1%nat /\ inside_bar tr = true.
