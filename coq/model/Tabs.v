(** C16 – tabs are expanded before reaching the terminal.
    Transcribes  TabExpandedString::{new, expanded, set_tab_width}   (/repo/src/state.rs:361-410),
                 BarState::{set_tab_width, set_style}                (src/state.rs:131-141),
                 the message-replacing arms of finish_using_style    (src/state.rs:55, 65),
                 ProgressBar::{with_tab_width, with_prefix, with_message, set_style, set_tab_width,
                               set_prefix, set_message, message, prefix, style}
                                                                    (src/progress_bar.rs:84-120, 162-171, 317-331, 629-636),
                 ProgressStyle::{with_template, new, template, with_key, set_tab_width}
                                                                    (src/style.rs:85-108, 161-172),
                 Template::set_tab_width                             (src/style.rs:641-647),
                 TabRewriter                                         (src/style.rs:428-435),
                 the Literal / msg / prefix / custom-key / NewLine arms of format_state and push_line
                                                                    (src/style.rs:234-426).
    Line numbers refer to /repo at commit 96a75c4.
    The OnceLock cache of a TabExpandedString is explicit ([option text]); reading it through a
    shared reference fills it, so rendering and the getters return an updated state.
    Strings are lists of code points.  Definitions only; proofs in proofs/TabsProofs.v. *)
From IndModel Require Export Base.
From IndGen Require Import Constants.
Open Scope N_scope.

Definition text := list N.
Definition TAB : N := 9.
Definition NL : N := 10.
Definition SPACE : N := 32.

(* str::contains('\t') *)
Definition has_tab (s : text) : bool := existsb (N.eqb TAB) s.
(* " ".repeat(w) *)
Definition tab_spaces (w : N) : text := N.iter w (cons SPACE) [].
(* str::replace('\t', &" ".repeat(w)) *)
Definition expand (s : text) (w : N) : text :=
  flat_map (fun c => if c =? TAB then tab_spaces w else [c]) s.

(** TabExpandedString, state.rs:361-368 *)
Inductive tes :=
| NoTabs (s : text)
| WithTabs (original : text) (expanded : option text) (tab_width : N).

(* TabExpandedString::new, state.rs:371-381 *)
Definition tes_new (s : text) (w : N) : tes :=
  if has_tab s then WithTabs s None w else NoTabs s.

(* TabExpandedString::expanded, state.rs:383-395: OnceLock::get_or_init *)
Definition tes_expanded (t : tes) : text * tes :=
  match t with
  | NoTabs s => (s, t)
  | WithTabs o (Some e) w => (e, t)
  | WithTabs o None w => let e := expand o w in (e, WithTabs o (Some e) w)
  end.

(* TabExpandedString::set_tab_width, state.rs:397-409 *)
Definition tes_set_tw (t : tes) (n : N) : tes :=
  match t with
  | NoTabs _ => t
  | WithTabs o c w => if w =? n then t else WithTabs o None n
  end.

(** Templates.  [tpl] is a parsed template part (the parser itself is C10's subject; the
    harness builds the template text and this list together); [part] is the same with the
    literal turned into a TabExpandedString as Template::from_str does, at DEFAULT_TAB_WIDTH
    (style.rs:499-502, 527-530, 584-586, 628-631, 637-639).  [TOpaque] stands for a built-in key
    whose text this model does not compute (wide_bar, pos, len of the default template). *)
Inductive tpl := TLit (s : text) | TMsg | TPrefix | TKey (k : N) | TNewLine | TOpaque.
Inductive part := PLit (t : tes) | PMsg | PPrefix | PKey (k : N) | PNewLine | POpaque.

Definition part_of_tpl (p : tpl) : part :=
  match p with
  | TLit s => PLit (tes_new s DEFAULT_TAB_WIDTH)
  | TMsg => PMsg | TPrefix => PPrefix | TKey k => PKey k | TNewLine => PNewLine | TOpaque => POpaque
  end.

(* format_map: custom key id -> the chunks its tracker passes to write_str *)
Definition keymap := list (N * list text).
Fixpoint key_lookup (k : N) (m : keymap) : option (list text) :=
  match m with
  | [] => None
  | (k', c) :: r => if k =? k' then Some c else key_lookup k r
  end.

Record style := mkstyle { s_tw : N; s_keys : keymap; s_parts : list part }.

(* ProgressStyle::with_template + with_key…: style.rs:85-87, 94-108, 161-164 *)
Definition style_new (keys : keymap) (t : list tpl) : style :=
  mkstyle DEFAULT_TAB_WIDTH keys (map part_of_tpl t).
(* ProgressStyle::template: style.rs:169-172 (tab_width and format_map are kept) *)
Definition style_template (st : style) (t : list tpl) : style :=
  mkstyle (s_tw st) (s_keys st) (map part_of_tpl t).
(* ProgressStyle::set_tab_width style.rs:89-92, Template::set_tab_width style.rs:641-647 *)
Definition part_set_tw (n : N) (p : part) : part :=
  match p with PLit t => PLit (tes_set_tw t n) | _ => p end.
Definition style_set_tw (st : style) (n : N) : style :=
  mkstyle n (s_keys st) (map (part_set_tw n) (s_parts st)).

(* ProgressStyle::default_bar(): "{wide_bar} {pos}/{len}" (style.rs:73-75) *)
Definition default_tpl : list tpl := [TOpaque; TLit [32]; TOpaque; TLit [47]; TOpaque].

(** BarState (the fields that matter here) plus a style clone held by the caller
    ([b_saved], `let saved = pb.style()`). *)
Record bar := mkbar { b_tw : N; b_msg : tes; b_prefix : tes; b_style : style; b_saved : option style }.

(* BarState::new state.rs:27-39, ProgressState::new state.rs:262-274 *)
Definition bar_init : bar :=
  mkbar DEFAULT_TAB_WIDTH (NoTabs []) (NoTabs []) (style_new [] default_tpl) None.

(* BarState::set_tab_width, state.rs:131-136 *)
Definition bar_set_tw (b : bar) (n : N) : bar :=
  mkbar n (tes_set_tw (b_msg b) n) (tes_set_tw (b_prefix b) n) (style_set_tw (b_style b) n) (b_saved b).
(* BarState::set_style, state.rs:138-141 *)
Definition bar_set_style (b : bar) (st : style) : bar :=
  mkbar (b_tw b) (b_msg b) (b_prefix b) (style_set_tw st (b_tw b)) (b_saved b).
Definition bar_set_msg (b : bar) (s : text) : bar :=     (* TabExpandedString::new(msg, self.tab_width) *)
  mkbar (b_tw b) (tes_new s (b_tw b)) (b_prefix b) (b_style b) (b_saved b).
Definition bar_set_prefix (b : bar) (s : text) : bar :=
  mkbar (b_tw b) (b_msg b) (tes_new s (b_tw b)) (b_style b) (b_saved b).

(** format_state / push_line restricted to the parts above *)
(* str::split('\n') *)
Fixpoint split_nl (s : text) : list text :=
  match s with
  | [] => [[]]
  | c :: r => if c =? NL then [] :: split_nl r
              else match split_nl r with
                   | l :: ls => (c :: l) :: ls
                   | [] => [[c]]
                   end
  end.

(* TabRewriter: every write_str chunk is rewritten on its own, style.rs:430-435 *)
Definition chunks_text (w : N) (chunks : list text) : text := concat (map (fun c => expand c w) chunks).
(* style.rs:257-258; a key that is neither custom nor built in writes nothing (:361) *)
Definition key_text (w : N) (m : keymap) (k : N) : text :=
  match key_lookup k m with Some c => chunks_text w c | None => [] end.

Record fmt := mkfmt { f_msg : tes; f_prefix : tes; f_cur : text; f_lines : list text; f_opaque : bool }.

(* push_line, style.rs:399-425 (wide = None): every '\n'-separated piece becomes a bar line *)
Definition push_line (f : fmt) : fmt :=
  mkfmt (f_msg f) (f_prefix f) [] (f_lines f ++ split_nl (f_cur f)) (f_opaque f).

Definition fmt_part (tw : N) (keys : keymap) (f : fmt) (p : part) : fmt * part :=
  match p with
  | PLit t =>                                                   (* style.rs:386 *)
      let '(e, t') := tes_expanded t in
      (mkfmt (f_msg f) (f_prefix f) (f_cur f ++ e) (f_lines f) (f_opaque f), PLit t')
  | PMsg =>                                                     (* :280, then :382 *)
      let '(e, m') := tes_expanded (f_msg f) in
      (mkfmt m' (f_prefix f) (f_cur f ++ e) (f_lines f) (f_opaque f), p)
  | PPrefix =>                                                  (* :281 *)
      let '(e, m') := tes_expanded (f_prefix f) in
      (mkfmt (f_msg f) m' (f_cur f ++ e) (f_lines f) (f_opaque f), p)
  | PKey k =>                                                   (* :257-258 *)
      (mkfmt (f_msg f) (f_prefix f) (f_cur f ++ key_text tw keys k) (f_lines f) (f_opaque f), p)
  | PNewLine => (push_line f, p)                                (* :387-389 *)
  | POpaque => (mkfmt (f_msg f) (f_prefix f) (f_cur f) (f_lines f) true, p)
  end.

Fixpoint fmt_parts (tw : N) (keys : keymap) (f : fmt) (ps : list part) : fmt * list part :=
  match ps with
  | [] => (f, [])
  | p :: r => let '(f1, p1) := fmt_part tw keys f p in
              let '(f2, r2) := fmt_parts tw keys f1 r in
              (f2, p1 :: r2)
  end.

(** one draw: the bar lines handed to the terminal ([None]: the template contains an opaque
    key, the model does not say what the lines are) and the state with the caches filled *)
Definition format_state (b : bar) : bar * option (list text) :=
  let st := b_style b in
  let '(f, parts') := fmt_parts (s_tw st) (s_keys st) (mkfmt (b_msg b) (b_prefix b) [] [] false) (s_parts st) in
  let f' := match f_cur f with [] => f | _ => push_line f end in     (* style.rs:393-395 *)
  (mkbar (b_tw b) (f_msg f') (f_prefix f') (mkstyle (s_tw st) (s_keys st) parts') (b_saved b),
   if f_opaque f' then None else Some (f_lines f')).

(** public operations *)
Inductive op :=
| SetTabWidth (n : N)                 (* pb.set_tab_width(n): draws *)
| WithTabWidth (n : N)                (* pb.with_tab_width(n): no draw *)
| SetStyleNew (keys : keymap) (t : list tpl)   (* set_style / with_style (ProgressStyle::with_template(t).with_key(..)) *)
| SetStyleDerived (t : list tpl)      (* set_style(pb.style().template(t)) *)
| SaveStyle                           (* saved = pb.style() *)
| RestoreStyle                        (* pb.set_style(saved.clone()) *)
| SetMessage (s : text) | SetPrefix (s : text)                (* draw *)
| WithMessage (s : text) | WithPrefix (s : text)              (* no draw *)
| FinishWithMessage (s : text) | AbandonWithMessage (s : text) (* draw *)
| Tick                                                        (* draw *)
| Println (s : text)                                          (* text line, then the bar lines *)
| GetMessage | GetPrefix.

Inductive out := ODraw (lines : option (list text)) | OGot (s : text) | ONone.

Definition draw (b : bar) : bar * out :=
  let '(b', l) := format_state b in (b', ODraw l).

Definition step (b : bar) (o : op) : bar * out :=
  match o with
  | SetTabWidth n => draw (bar_set_tw b n)                        (* progress_bar.rs:167-171 *)
  | WithTabWidth n => (bar_set_tw b n, ONone)                     (* :95-98 *)
  | SetStyleNew keys t => (bar_set_style b (style_new keys t), ONone)   (* :162-164 / :90-93 *)
  | SetStyleDerived t => (bar_set_style b (style_template (b_style b) t), ONone)
  | SaveStyle => (mkbar (b_tw b) (b_msg b) (b_prefix b) (b_style b) (Some (b_style b)), ONone)  (* :85-87 clone *)
  | RestoreStyle => match b_saved b with
                    | Some st => (bar_set_style b st, ONone)
                    | None => (b, ONone)
                    end
  | SetMessage s => draw (bar_set_msg b s)                        (* :327-331 *)
  | SetPrefix s => draw (bar_set_prefix b s)                      (* :317-321 *)
  | WithMessage s => (bar_set_msg b s, ONone)                     (* :115-120 *)
  | WithPrefix s => (bar_set_prefix b s, ONone)                   (* :104-109 *)
  | FinishWithMessage s => draw (bar_set_msg b s)                 (* state.rs:51-56, 71 *)
  | AbandonWithMessage s => draw (bar_set_msg b s)                (* state.rs:64-66, 71 *)
  | Tick => draw b                                                (* state.rs:143-146, 148-157 *)
  | Println s =>                                                  (* state.rs:159-183 *)
      let '(b', l) := format_state b in
      (b', ODraw (match l with Some ls => Some (s :: ls) | None => None end))
  | GetMessage => let '(e, m') := tes_expanded (b_msg b) in       (* progress_bar.rs:629-631 *)
                  (mkbar (b_tw b) m' (b_prefix b) (b_style b) (b_saved b), OGot e)
  | GetPrefix => let '(e, m') := tes_expanded (b_prefix b) in     (* :634-636 *)
                 (mkbar (b_tw b) (b_msg b) m' (b_style b) (b_saved b), OGot e)
  end.

Fixpoint run (b : bar) (ops : list op) : bar * list out :=
  match ops with
  | [] => (b, [])
  | o :: r => let '(b1, x) := step b o in
              let '(b2, xs) := run b1 r in
              (b2, x :: xs)
  end.

(** ---------------------------------------------------------------- reference (no caches)
    The specification: texts are stored as given, everything is expanded from the originals
    with the CURRENT tab width whenever it is looked at.  "Last call wins" for every setting. *)
Record rbar := mkrbar { r_tw : N; r_msg : text; r_prefix : text;
                        r_keys : keymap; r_tpl : list tpl; r_saved : option (keymap * list tpl) }.

Definition rbar_init : rbar := mkrbar DEFAULT_TAB_WIDTH [] [] [] default_tpl None.

Fixpoint ref_fmt (r : rbar) (ps : list tpl) (cur : text) (lines : list text) (opq : bool)
  : text * list text * bool :=
  match ps with
  | [] => (cur, lines, opq)
  | p :: rest =>
      match p with
      | TLit s => ref_fmt r rest (cur ++ expand s (r_tw r)) lines opq
      | TMsg => ref_fmt r rest (cur ++ expand (r_msg r) (r_tw r)) lines opq
      | TPrefix => ref_fmt r rest (cur ++ expand (r_prefix r) (r_tw r)) lines opq
      | TKey k => ref_fmt r rest (cur ++ key_text (r_tw r) (r_keys r) k) lines opq
      | TNewLine => ref_fmt r rest [] (lines ++ split_nl cur) opq
      | TOpaque => ref_fmt r rest cur lines true
      end
  end.

Definition ref_render (r : rbar) : option (list text) :=
  let '(cur, lines, opq) := ref_fmt r (r_tpl r) [] [] false in
  let lines' := match cur with [] => lines | _ => lines ++ split_nl cur end in
  if opq then None else Some lines'.

Definition ref_step (r : rbar) (o : op) : rbar * out :=
  let upd_tw n := mkrbar n (r_msg r) (r_prefix r) (r_keys r) (r_tpl r) (r_saved r) in
  let upd_msg s := mkrbar (r_tw r) s (r_prefix r) (r_keys r) (r_tpl r) (r_saved r) in
  let upd_prefix s := mkrbar (r_tw r) (r_msg r) s (r_keys r) (r_tpl r) (r_saved r) in
  let drawn r' := (r', ODraw (ref_render r')) in
  match o with
  | SetTabWidth n => drawn (upd_tw n)
  | WithTabWidth n => (upd_tw n, ONone)
  | SetStyleNew keys t => (mkrbar (r_tw r) (r_msg r) (r_prefix r) keys t (r_saved r), ONone)
  | SetStyleDerived t => (mkrbar (r_tw r) (r_msg r) (r_prefix r) (r_keys r) t (r_saved r), ONone)
  | SaveStyle => (mkrbar (r_tw r) (r_msg r) (r_prefix r) (r_keys r) (r_tpl r) (Some (r_keys r, r_tpl r)), ONone)
  | RestoreStyle => match r_saved r with
                    | Some (k, t) => (mkrbar (r_tw r) (r_msg r) (r_prefix r) k t (r_saved r), ONone)
                    | None => (r, ONone)
                    end
  | SetMessage s | FinishWithMessage s | AbandonWithMessage s => drawn (upd_msg s)
  | SetPrefix s => drawn (upd_prefix s)
  | WithMessage s => (upd_msg s, ONone)
  | WithPrefix s => (upd_prefix s, ONone)
  | Tick => drawn r
  | Println s => (r, ODraw (match ref_render r with Some ls => Some (s :: ls) | None => None end))
  | GetMessage => (r, OGot (expand (r_msg r) (r_tw r)))
  | GetPrefix => (r, OGot (expand (r_prefix r) (r_tw r)))
  end.

Fixpoint ref_run (r : rbar) (ops : list op) : rbar * list out :=
  match ops with
  | [] => (r, [])
  | o :: rest => let '(r1, x) := ref_step r o in
                 let '(r2, xs) := ref_run r1 rest in
                 (r2, x :: xs)
  end.

(** closed forms over a history: the last value given to each setting *)
Fixpoint last_tw (d : N) (ops : list op) : N :=
  match ops with
  | [] => d
  | (SetTabWidth n | WithTabWidth n) :: r => last_tw n r
  | _ :: r => last_tw d r
  end.
Fixpoint last_msg (d : text) (ops : list op) : text :=
  match ops with
  | [] => d
  | (SetMessage s | WithMessage s | FinishWithMessage s | AbandonWithMessage s) :: r => last_msg s r
  | _ :: r => last_msg d r
  end.
Fixpoint last_prefix (d : text) (ops : list op) : text :=
  match ops with
  | [] => d
  | (SetPrefix s | WithPrefix s) :: r => last_prefix s r
  | _ :: r => last_prefix d r
  end.

(** ------------------------------------------------------------------ correspondence *)
Definition text_eqb : text -> text -> bool := list_eqb N.eqb.
Definition out_eqb (m o : out) : bool :=
  match m, o with
  | ODraw None, ODraw _ => true                         (* opaque template: lines not compared *)
  | ODraw (Some l), ODraw (Some l') => list_eqb text_eqb l l'
  | OGot s, OGot s' => text_eqb s s'
  | ONone, ONone => true
  | _, _ => false
  end.

(* a history and what was observed after each operation *)
Definition c16_check (c : list op * list out) : bool :=
  let '(ops, obs) := c in
  list_eqb out_eqb (snd (run bar_init ops)) obs.
