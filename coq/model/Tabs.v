(** C16 – tabs are expanded before reaching the terminal.
    Transcribes  TabExpandedString::{new, expanded, set_tab_width}   (/repo/src/state.rs:361-410),
                 BarState::{finish_using_style, set_tab_width, set_style, tick, println, draw}
                                                                    (src/state.rs:43-72, 131-146, 159-184, 200-223),
                 ProgressBar::{style, with_style, with_tab_width, with_prefix, with_message, with_finish,
                               set_style, set_tab_width, tick, println, set_prefix, set_message,
                               finish_with_message, abandon_with_message, finish_using_style, message, prefix}
                                                                    (src/progress_bar.rs:84-120, 145-148, 162-171,
                                                                     231-240, 281-283, 327-341, 381-422, 646-653),
                 ProgressStyle::{with_template, set_tab_width, new, tick_chars, tick_strings, progress_chars,
                                 with_key, template, current_tick_str, format_bar (its output shape)}
                                                                    (src/style.rs:85-234),
                 ProgressStyle::{format_state, push_line}            (src/style.rs:236-430)  - EVERY arm,
                 TabRewriter                                         (src/style.rs:432-439),
                 WideElement::expand                                 (src/style.rs:447-487),
                 Template::set_tab_width                             (src/style.rs:645-651),
                 BarDisplay / RepeatedStringDisplay                  (src/style.rs:698-730),
                 PaddedStringDisplay::fmt                            (src/style.rs:738-773).
    Line numbers refer to /repo at HEAD 7d42cff (style.rs, state.rs, progress_bar.rs unchanged since 6ff82af).

    The OnceLock cache of a TabExpandedString is explicit ([option text]); reading it through a
    shared reference fills it, so rendering and the getters return an updated state.
    Strings are lists of code points.

    What the crate computes from things this model does not contain comes in through [env]
    (universally quantified in every theorem): the column width of a string
    (console::measure_text_width), the width of the draw target, the text of the numeric /
    time built-in keys (pos, len, percent, bytes, elapsed, eta, per_sec, ... : C11/C15's subject)
    and the geometry of a bar (how many filled / current / background cells: C13's subject).
    Everything else of format_state - which text goes where, padding, truncation, styling,
    the wide element, line splitting, the tick string and the progress characters a bar is
    made of - is transcribed.
    Definitions only; proofs in proofs/TabsProofs.v. *)
From IndModel Require Export Base.
From IndModel Require Padded.
From IndGen Require Import Constants.
Open Scope N_scope.

Definition text := list N.
Definition NUL : N := 0.
Definition TAB : N := 9.
Definition NL : N := 10.
Definition CR : N := 13.
Definition SPACE : N := 32.

(** "contains no TAB": the predicate of the property *)
Definition notab (s : text) : Prop := ~ In TAB s.

(* str::contains('\t') *)
Definition has_tab (s : text) : bool := existsb (N.eqb TAB) s.
(* " ".repeat(w) *)
Definition tab_spaces (w : N) : text := N.iter w (cons SPACE) [].
(* str::replace('\t', &" ".repeat(w)) *)
Definition expand (s : text) (w : N) : text :=
  flat_map (fun c => if c =? TAB then tab_spaces w else [c]) s.
(* number of TABs of a text (used by the length law of [expand]) *)
Fixpoint ntabs (s : text) : nat :=
  match s with [] => 0%nat | c :: r => ((if N.eqb c TAB then 1 else 0) + ntabs r)%nat end.

(** TabExpandedString, state.rs:361-368 *)
Inductive tes :=
| NoTabs (s : text)
| WithTabs (original : text) (expanded : option text) (tab_width : N).

(* TabExpandedString::new, state.rs:371-381 *)
Definition tes_new (s : text) (w : N) : tes :=
  if has_tab s then WithTabs s None w else NoTabs s.

(* TabExpandedString::expanded, state.rs:383-395: OnceLock::get_or_init *)
Definition tes_expanded (t : tes) : text * tes :=
  match t with
  | NoTabs s => (s, t)
  | WithTabs o (Some e) w => (e, t)
  | WithTabs o None w => let e := expand o w in (e, WithTabs o (Some e) w)
  end.

(* TabExpandedString::set_tab_width, state.rs:397-409 *)
Definition tes_set_tw (t : tes) (n : N) : tes :=
  match t with
  | NoTabs _ => t
  | WithTabs o c w => if w =? n then t else WithTabs o None n
  end.

(** ------------------------------------------------------------------ the environment *)
Record env := mkenv {
  e_cols : text -> N;                    (* console::measure_text_width *)
  e_termw : N -> N;                      (* width of the draw target at the d-th rendering *)
  e_num : N -> N -> option N -> text;    (* d-th rendering, built-in key number (position in
                                            Constants.FORMAT_KEYS), the placeholder's width
                                            (per_sec uses it as a precision): the text the key writes *)
  e_geom : N -> N -> N * option N * N    (* d-th rendering, number of cells of the bar:
                                            (filled cells, index of the "current" progress
                                             character if any, background cells), style.rs:195-222 *)
}.

(** ------------------------------------------------------------------ PaddedStringDisplay
    style.rs:738-773 on code points; the byte arithmetic ([trunc_range], [pad_split], [nbytes])
    is shared with C12's model.  `self.str.len() - excess` cannot underflow when no character
    has more columns than bytes (C12, C14); where it would, this function returns the text
    unchanged, which is what a build without overflow checks does (the wrapped offset makes
    `get` answer None); with overflow checks the draw panics and nothing is painted. *)
Definition blen (s : text) : N := fold_right (fun c a => Padded.nbytes c + a) 0 s.

Fixpoint drop_bytes (s : text) (n : N) {struct s} : option text :=
  if n =? 0 then Some s else
  match s with
  | [] => None
  | c :: r => if n <? Padded.nbytes c then None else drop_bytes r (n - Padded.nbytes c)
  end.
Fixpoint take_bytes (s : text) (n : N) {struct s} : option text :=
  if n =? 0 then Some [] else
  match s with
  | [] => None
  | c :: r => if n <? Padded.nbytes c then None
              else match take_bytes r (n - Padded.nbytes c) with Some t => Some (c :: t) | None => None end
  end.
(* str::get(st..en) *)
Definition str_get (s : text) (st en : N) : option text :=
  if en <? st then None else
  match drop_bytes s st with
  | None => None
  | Some r => take_bytes r (en - st)
  end.

Definition pad_text (cols : text -> N) (s : text) (width : N) (a : Padded.align) (truncate : bool) : text :=
  let c := cols s in                                   (* :740 *)
  let excess := c - width in                           (* :741 saturating_sub *)
  if (0 <? excess) && negb truncate then s             (* :742-743 *)
  else if 0 <? excess then                             (* :744 *)
    match Padded.trunc_range a (blen s) excess with
    | None => s
    | Some (st, en) => match str_get s st en with Some t => t | None => s end   (* :754 *)
    end
  else
    let diff := width - c in                           (* :757 *)
    let '(l, r) := Padded.pad_split a diff in
    tab_spaces l ++ s ++ tab_spaces r.                 (* :764-771 *)

(* str::trim_end (char::is_whitespace = Unicode White_Space, TAB included) *)
Definition trim_end (s : text) : text :=
  fold_right (fun c acc => match acc with
                           | [] => if Padded.is_ws c then [] else [c]
                           | _ => c :: acc
                           end) [] s.

(** console::Style as it is rendered: `style.apply_to(x)` writes the escape sequences of the
    colours/attributes, x, and the reset sequence (nothing but x when colours are disabled or
    the style is empty).  The two sequences are data (supplied by whoever builds the template). *)
Record sty := mksty { y_pre : text; y_post : text }.
Definition wrap (o : option sty) (x : text) : text :=
  match o with Some y => y_pre y ++ x ++ y_post y | None => x end.

(** ------------------------------------------------------------------ templates
    [tpl] is a parsed template part (the parser itself is C10's subject; the harness builds the
    template text and this list together); [part] is the same with the literal turned into a
    TabExpandedString as Template::from_str does, at DEFAULT_TAB_WIDTH (style.rs:503-506,
    531-534, 588-590, 632-635, 641-643).
    [KNum id]: any built-in key other than the six named ones.  [KCustom k]: a key looked up in
    the style's format_map (a custom key named like a built-in one shadows it, style.rs:259: such
    a placeholder is a [KCustom]); not registered: writes nothing (style.rs:365). *)
Inductive key := KMsg | KPrefix | KWideMsg | KWideBar | KBar | KSpinner | KNum (id : N) | KCustom (k : N).
Record ph := mkph { p_key : key; p_align : Padded.align; p_width : option N; p_trunc : bool;
                    p_style : option sty; p_alt : option sty }.
Inductive tpl := TLit (s : text) | TNewLine | TPh (h : ph).
Inductive part := PLit (t : tes) | PNewLine | PPh (h : ph).

(* {key} without width, alignment, truncation or style *)
Definition bare (k : key) : ph := mkph k Padded.ALeft None false None None.
Definition TMsg : tpl := TPh (bare KMsg).
Definition TPrefix : tpl := TPh (bare KPrefix).
Definition TKey (k : N) : tpl := TPh (bare (KCustom k)).

Definition part_of_tpl (p : tpl) : part :=
  match p with
  | TLit s => PLit (tes_new s DEFAULT_TAB_WIDTH)
  | TNewLine => PNewLine
  | TPh h => PPh h
  end.

(* format_map: custom key id -> the chunks its tracker passes to write_str *)
Definition keymap := list (N * list text).
Fixpoint key_lookup (k : N) (m : keymap) : option (list text) :=
  match m with
  | [] => None
  | (k', c) :: r => if k =? k' then Some c else key_lookup k r
  end.

(** tick strings, progress characters (grapheme clusters) and their common column width
    (`char_width`), style.rs:25-29; stored as given (style.rs:114-160) *)
Record glyphs := mkglyphs { g_ticks : list text; g_pchars : list text; g_cw : N }.
(* ProgressStyle::new, style.rs:94-108 *)
Definition default_glyphs : glyphs :=
  mkglyphs (map (fun c => [c]) DEFAULT_TICK_CHARS) (map (fun c => [c]) DEFAULT_PROGRESS_CHARS) 1.

Record style := mkstyle { s_tw : N; s_keys : keymap; s_parts : list part; s_gl : glyphs }.

(* ProgressStyle::with_template + tick_*/progress_chars + with_key…: style.rs:85-87, 94-166 *)
Definition style_new (keys : keymap) (g : glyphs) (t : list tpl) : style :=
  mkstyle DEFAULT_TAB_WIDTH keys (map part_of_tpl t) g.
(* ProgressStyle::template: style.rs:171-174 (tab_width, format_map, tick strings, progress chars are kept) *)
Definition style_template (st : style) (t : list tpl) : style :=
  mkstyle (s_tw st) (s_keys st) (map part_of_tpl t) (s_gl st).
(* ProgressStyle::set_tab_width style.rs:89-92, Template::set_tab_width style.rs:645-651 *)
Definition part_set_tw (n : N) (p : part) : part :=
  match p with PLit t => PLit (tes_set_tw t n) | _ => p end.
Definition style_set_tw (st : style) (n : N) : style :=
  mkstyle n (s_keys st) (map (part_set_tw n) (s_parts st)) (s_gl st).

(* positions of "pos" and "len" in Constants.FORMAT_KEYS *)
Definition KEY_POS : N := 6.
Definition KEY_LEN : N := 8.
(* ProgressStyle::default_bar(): "{wide_bar} {pos}/{len}" (style.rs:73-75) *)
Definition default_tpl : list tpl :=
  [TPh (bare KWideBar); TLit [32]; TPh (bare (KNum KEY_POS)); TLit [47]; TPh (bare (KNum KEY_LEN))].

(** ProgressFinish (state.rs:631-651) and Status (state.rs) *)
Inductive finish := FAndLeave | FWithMessage (s : text) | FAndClear | FAbandon | FAbandonWithMessage (s : text).
Inductive status := InProgress | DoneVisible | DoneHidden.

(** BarState (the fields that matter here) plus a style clone held by the caller
    ([b_saved], `let saved = pb.style()`) and the number of renderings so far ([b_draws], ghost:
    the index under which the environment is consulted). *)
Record bar := mkbar { b_tw : N; b_msg : tes; b_prefix : tes; b_style : style; b_saved : option style;
                      b_tick : N; b_status : status; b_onfin : finish; b_draws : N }.

(* BarState::new state.rs:27-39 (on_finish: ProgressFinish::default() = AndClear),
   ProgressState::new state.rs:262-274 *)
Definition bar_init : bar :=
  mkbar DEFAULT_TAB_WIDTH (NoTabs []) (NoTabs []) (style_new [] default_glyphs default_tpl) None
        0 InProgress FAndClear 0.

(* BarState::set_tab_width, state.rs:131-136 *)
Definition bar_set_tw (b : bar) (n : N) : bar :=
  mkbar n (tes_set_tw (b_msg b) n) (tes_set_tw (b_prefix b) n) (style_set_tw (b_style b) n) (b_saved b)
        (b_tick b) (b_status b) (b_onfin b) (b_draws b).
(* BarState::set_style, state.rs:138-141 *)
Definition bar_set_style (b : bar) (st : style) : bar :=
  mkbar (b_tw b) (b_msg b) (b_prefix b) (style_set_tw st (b_tw b)) (b_saved b)
        (b_tick b) (b_status b) (b_onfin b) (b_draws b).
Definition bar_set_msg (b : bar) (s : text) : bar :=     (* TabExpandedString::new(msg, self.tab_width) *)
  mkbar (b_tw b) (tes_new s (b_tw b)) (b_prefix b) (b_style b) (b_saved b)
        (b_tick b) (b_status b) (b_onfin b) (b_draws b).
Definition bar_set_prefix (b : bar) (s : text) : bar :=
  mkbar (b_tw b) (b_msg b) (tes_new s (b_tw b)) (b_style b) (b_saved b)
        (b_tick b) (b_status b) (b_onfin b) (b_draws b).
Definition bar_set_status (b : bar) (x : status) : bar :=
  mkbar (b_tw b) (b_msg b) (b_prefix b) (b_style b) (b_saved b) (b_tick b) x (b_onfin b) (b_draws b).
Definition bar_set_onfin (b : bar) (f : finish) : bar :=
  mkbar (b_tw b) (b_msg b) (b_prefix b) (b_style b) (b_saved b) (b_tick b) (b_status b) f (b_draws b).
Definition bar_set_saved (b : bar) (sv : option style) : bar :=
  mkbar (b_tw b) (b_msg b) (b_prefix b) (b_style b) sv (b_tick b) (b_status b) (b_onfin b) (b_draws b).
(* BarState::tick, state.rs:143-146 *)
Definition bar_tick (b : bar) : bar :=
  mkbar (b_tw b) (b_msg b) (b_prefix b) (b_style b) (b_saved b) (sat_add64 (b_tick b) 1) (b_status b)
        (b_onfin b) (b_draws b).
(* BarState::finish_using_style without its draw, state.rs:43-67; pos/len are not in this model *)
Definition status_of_finish (f : finish) : status :=
  match f with FAndClear => DoneHidden | _ => DoneVisible end.
Definition bar_finish (b : bar) (f : finish) : bar :=
  let b1 := bar_set_status b (status_of_finish f) in
  match f with
  | FWithMessage s | FAbandonWithMessage s => bar_set_msg b1 s
  | _ => b1
  end.

(** ------------------------------------------------------------------ format_state *)
(* str::split('\n') *)
Fixpoint split_nl (s : text) : list text :=
  match s with
  | [] => [[]]
  | c :: r => if c =? NL then [] :: split_nl r
              else match split_nl r with
                   | l :: ls => (c :: l) :: ls
                   | [] => [[c]]
                   end
  end.

(* TabRewriter: every write_str chunk is rewritten on its own, style.rs:434-439 *)
Definition chunks_text (w : N) (chunks : list text) : text := concat (map (fun c => expand c w) chunks).
(* style.rs:259-260; a key that is neither custom nor built in writes nothing (:365) *)
Definition key_text (w : N) (m : keymap) (k : N) : text :=
  match key_lookup k m with Some c => chunks_text w c | None => [] end.

(* what a rendering reads besides the two TabExpandedStrings *)
Record rctx := mkrctx { c_env : env; c_d : N; c_tw : N; c_keys : keymap; c_gl : glyphs;
                        c_tick : N; c_fin : bool;
                        c_raw_ticks : bool   (* false: the code as it is.  true: the {spinner} arm of
                                                /repo BEFORE commit 6ff82af, `buf.push_str(self.
                                                current_tick_str(state))` - used by one regression
                                                statement only, never by [run] / [ref_run] *) }.

Definition rep (x : text) (n : N) : text := N.iter n (app x) [].

(* BarDisplay::fmt, style.rs:705-715, for the geometry [geo]; `rest` is always a StyledObject
   (`alt_style.unwrap_or(&Style::new())`, :232) *)
Definition bar_text (g : glyphs) (geo : N * option N * N) (alt : option sty) : text :=
  let '(filled, cur, bg) := geo in
  rep (nth 0 (g_pchars g) []) filled
  ++ match cur with Some i => nth (N.to_nat i) (g_pchars g) [] | None => [] end
  ++ wrap alt (rep (last (g_pchars g) []) bg).
(* ProgressStyle::format_bar, style.rs:193-234: `width / self.char_width` cells *)
Definition format_bar (c : rctx) (width : N) (alt : option sty) : text :=
  bar_text (c_gl c) (e_geom (c_env c) (c_d c) (width / g_cw (c_gl c))) alt.

(* current_tick_str, style.rs:176-191 (the tick string as stored) *)
Definition tick_text (g : glyphs) (tick : N) (fin : bool) : text :=
  let n := N.of_nat (length (g_ticks g)) in
  if fin then last (g_ticks g) [] else nth (N.to_nat (tick mod (n - 1))) (g_ticks g) [].

Inductive wide := WNone | WBar (alt : option sty) | WMsg (a : Padded.align).

(* `buf` for the keys that do not read a TabExpandedString, style.rs:259-365 *)
Definition static_buf (c : rctx) (h : ph) : text :=
  match p_key h with
  | KCustom k => key_text (c_tw c) (c_keys c) k                                          (* :259-260 *)
  | KWideBar | KWideMsg => [NUL]                                                         (* :263-266, 280-283 *)
  | KBar => format_bar c (match p_width h with Some w => w | None => DEFAULT_BAR_WIDTH end) (p_alt h)  (* :267-276 *)
  | KSpinner => if c_raw_ticks c then tick_text (c_gl c) (c_tick c) (c_fin c) else
                expand (tick_text (c_gl c) (c_tick c) (c_fin c)) (c_tw c)               (* :277-279: through
                                   TabRewriter with the style's tab width AT RENDER TIME (since 6ff82af) *)
  | KNum id => e_num (c_env c) (c_d c) id (p_width h)                                    (* :286-364 *)
  | KMsg | KPrefix => []                                                                 (* see fmt_part *)
  end.
Definition wide_of (h : ph) (w : wide) : wide :=
  match p_key h with
  | KWideBar => WBar (p_alt h)
  | KWideMsg => WMsg (p_align h)
  | _ => w
  end.
(* what is appended to `cur` for a placeholder whose `buf` is [buf], style.rs:369-388 *)
Definition ph_post (c : rctx) (h : ph) (buf : text) : text :=
  wrap (p_style h)
       (match p_width h with
        | Some w => pad_text (e_cols (c_env c)) buf w (p_align h) (p_trunc h)
        | None => buf
        end).

(** WideElement::expand, style.rs:447-487 *)
Definition remove_nul (s : text) : text := filter (fun c => negb (c =? NUL)) s.
Definition replace_nul (s x : text) : text := flat_map (fun c => if c =? NUL then x else [c]) s.
Definition ends_nul (s : text) : bool := match rev s with c :: _ => c =? NUL | [] => false end.
Definition wide_left (c : rctx) (cur : text) : N :=                                       (* :456 *)
  e_termw (c_env c) (c_d c) - e_cols (c_env c) (remove_nul cur).
Definition wide_bar_line (c : rctx) (alt : option sty) (cur : text) : text :=             (* :458-464 *)
  replace_nul cur (format_bar c (wide_left c cur) alt).
Definition wide_msg_line (c : rctx) (a : Padded.align) (emsg cur : text) : text :=        (* :465-484 *)
  let buf := pad_text (e_cols (c_env c)) emsg (wide_left c cur) a true in
  replace_nul cur (if ends_nul cur then trim_end buf else buf).

Record fmt := mkfmt { f_msg : tes; f_prefix : tes; f_cur : text; f_lines : list text; f_wide : wide }.

(* push_line, style.rs:403-429: the wide element (if one was met so far) is expanded, then every
   '\n'-separated piece becomes a bar line *)
Definition push_line (c : rctx) (f : fmt) : fmt :=
  match f_wide f with
  | WNone => mkfmt (f_msg f) (f_prefix f) [] (f_lines f ++ split_nl (f_cur f)) (f_wide f)
  | WBar alt =>
      mkfmt (f_msg f) (f_prefix f) [] (f_lines f ++ split_nl (wide_bar_line c alt (f_cur f))) (f_wide f)
  | WMsg a =>
      let '(e, m') := tes_expanded (f_msg f) in                                           (* :470 *)
      mkfmt m' (f_prefix f) [] (f_lines f ++ split_nl (wide_msg_line c a e (f_cur f))) (f_wide f)
  end.

Definition fmt_part (c : rctx) (f : fmt) (p : part) : fmt * part :=
  match p with
  | PLit t =>                                                   (* style.rs:390 *)
      let '(e, t') := tes_expanded t in
      (mkfmt (f_msg f) (f_prefix f) (f_cur f ++ e) (f_lines f) (f_wide f), PLit t')
  | PNewLine => (push_line c f, p)                              (* :391-393 *)
  | PPh h =>
      match p_key h with
      | KMsg =>                                                 (* :284, then :369-388 *)
          let '(e, m') := tes_expanded (f_msg f) in
          (mkfmt m' (f_prefix f) (f_cur f ++ ph_post c h e) (f_lines f) (f_wide f), p)
      | KPrefix =>                                              (* :285 *)
          let '(e, m') := tes_expanded (f_prefix f) in
          (mkfmt (f_msg f) m' (f_cur f ++ ph_post c h e) (f_lines f) (f_wide f), p)
      | _ =>
          (mkfmt (f_msg f) (f_prefix f) (f_cur f ++ ph_post c h (static_buf c h)) (f_lines f)
                 (wide_of h (f_wide f)), p)
      end
  end.

Fixpoint fmt_parts (c : rctx) (f : fmt) (ps : list part) : fmt * list part :=
  match ps with
  | [] => (f, [])
  | p :: r => let '(f1, p1) := fmt_part c f p in
              let '(f2, r2) := fmt_parts c f1 r in
              (f2, p1 :: r2)
  end.

Definition is_finished (x : status) : bool := match x with InProgress => false | _ => true end.

(** one rendering: the bar lines handed to the draw state and the state with the caches filled *)
Definition format_state (E : env) (b : bar) : bar * list text :=
  let st := b_style b in
  let c := mkrctx E (b_draws b) (s_tw st) (s_keys st) (s_gl st) (b_tick b) (is_finished (b_status b)) false in
  let '(f, parts') := fmt_parts c (mkfmt (b_msg b) (b_prefix b) [] [] WNone) (s_parts st) in
  let f' := match f_cur f with [] => f | _ => push_line c f end in     (* style.rs:397-399 *)
  (mkbar (b_tw b) (f_msg f') (f_prefix f') (mkstyle (s_tw st) (s_keys st) parts' (s_gl st)) (b_saved b)
         (b_tick b) (b_status b) (b_onfin b) (b_draws b + 1),
   f_lines f').

(* BarState::draw / println, state.rs:175-180, 214-219: a bar that is DoneHidden renders nothing *)
Definition render (E : env) (b : bar) : bar * list text :=
  match b_status b with
  | DoneHidden => (b, [])
  | _ => format_state E b
  end.

(** public operations *)
Inductive op :=
| SetTabWidth (n : N)                 (* pb.set_tab_width(n): draws *)
| WithTabWidth (n : N)                (* pb.with_tab_width(n): no draw *)
| SetStyleNew (keys : keymap) (g : glyphs) (t : list tpl)
                                      (* set_style / with_style (ProgressStyle::with_template(t)
                                         [.tick_strings(..)] [.progress_chars(..)] .with_key(..)) *)
| SetStyleDerived (t : list tpl)      (* set_style(pb.style().template(t)) *)
| SaveStyle                           (* saved = pb.style() *)
| RestoreStyle                        (* pb.set_style(saved.clone()) *)
| SetMessage (s : text) | SetPrefix (s : text)                (* draw *)
| WithMessage (s : text) | WithPrefix (s : text)              (* no draw *)
| FinishWithMessage (s : text) | AbandonWithMessage (s : text) (* draw *)
| WithFinish (f : finish)                                     (* pb.with_finish(f): no draw *)
| FinishUsingStyle                                            (* pb.finish_using_style(); dropping an
                                                                 unfinished bar takes the same path
                                                                 (state.rs:226-240) *)
| Tick                                                        (* draw *)
| Println (s : text)                                          (* text lines, then the bar lines *)
| GetMessage | GetPrefix.

(** what a call produces: [ODraw txt lines] - the text lines (println only) and the BAR LINES
    put into the draw state, which draw_to_term writes one by one; a getter's result; nothing *)
Inductive out := ODraw (txt : list text) (lines : list text) | OGot (s : text) | ONone
               | OBuildPanic.   (* the style builder panicked: no style was built, the bar is untouched *)

(** ProgressStyle::progress_chars rejects a TAB (`assert!(!s.contains('\t'), ..)`, style.rs:157-158,
    since 6ff82af); the clusters partition the argument, so it contains a TAB iff one of them
    does.  The builder's other rejections (fewer than two clusters, unequal or zero widths; fewer
    than two tick strings) are C14's subject and not modelled here: a history contains only
    [glyphs] that pass them.  [default_glyphs] (the builder is not called) is accepted. *)
Definition glyphs_accept (g : glyphs) : bool := forallb (fun s => negb (has_tab s)) (g_pchars g).

Definition draw (E : env) (b : bar) : bar * out :=
  let '(b', l) := render E b in (b', ODraw [] l).

(* str::lines(): split at '\n', a trailing empty piece is dropped, one trailing '\r' of every
   piece is dropped *)
Definition strip_cr (l : text) : text :=
  match rev l with c :: r => if c =? CR then rev r else l | [] => l end.
Definition str_lines (s : text) : list text :=
  let ps := split_nl s in
  map strip_cr (match rev ps with [] :: r => rev r | _ => ps end).
(* BarState::println, state.rs:167-173: no line at all becomes one empty line *)
Definition println_lines (s : text) : list text :=
  match str_lines s with [] => [[]] | ls => ls end.

Definition step (E : env) (b : bar) (o : op) : bar * out :=
  match o with
  | SetTabWidth n => draw E (bar_set_tw b n)                      (* progress_bar.rs:167-171 *)
  | WithTabWidth n => (bar_set_tw b n, ONone)                     (* :95-98 *)
  | SetStyleNew keys g t =>                                        (* :162-164 / :89-92 *)
      if glyphs_accept g then (bar_set_style b (style_new keys g t), ONone) else (b, OBuildPanic)
  | SetStyleDerived t => (bar_set_style b (style_template (b_style b) t), ONone)
  | SaveStyle => (bar_set_saved b (Some (b_style b)), ONone)      (* :84-86 clone *)
  | RestoreStyle => match b_saved b with
                    | Some st => (bar_set_style b st, ONone)
                    | None => (b, ONone)
                    end
  | SetMessage s => draw E (bar_set_msg b s)                      (* :337-341 *)
  | SetPrefix s => draw E (bar_set_prefix b s)                    (* :327-331 *)
  | WithMessage s => (bar_set_msg b s, ONone)                     (* :115-120 *)
  | WithPrefix s => (bar_set_prefix b s, ONone)                   (* :104-109 *)
  | FinishWithMessage s => draw E (bar_finish b (FWithMessage s))           (* :381-, state.rs:43-72 *)
  | AbandonWithMessage s => draw E (bar_finish b (FAbandonWithMessage s))   (* :405- *)
  | WithFinish f => (bar_set_onfin b f, ONone)                    (* :145-148 *)
  | FinishUsingStyle => draw E (bar_finish b (b_onfin b))         (* :416-422 *)
  | Tick => draw E (bar_tick b)                                   (* :231-240, state.rs:143-157 *)
  | Println s =>                                                  (* state.rs:159-184 *)
      let '(b', l) := render E b in (b', ODraw (println_lines s) l)
  | GetMessage => let '(e, m') := tes_expanded (b_msg b) in       (* progress_bar.rs:646-648 *)
                  (mkbar (b_tw b) m' (b_prefix b) (b_style b) (b_saved b)
                         (b_tick b) (b_status b) (b_onfin b) (b_draws b), OGot e)
  | GetPrefix => let '(e, m') := tes_expanded (b_prefix b) in     (* :651-653 *)
                 (mkbar (b_tw b) (b_msg b) m' (b_style b) (b_saved b)
                        (b_tick b) (b_status b) (b_onfin b) (b_draws b), OGot e)
  end.

Fixpoint run (E : env) (b : bar) (ops : list op) : bar * list out :=
  match ops with
  | [] => (b, [])
  | o :: r => let '(b1, x) := step E b o in
              let '(b2, xs) := run E b1 r in
              (b2, x :: xs)
  end.

(** ---------------------------------------------------------------- reference (no caches)
    The specification: texts are stored as given, everything is expanded from the originals
    with the CURRENT tab width whenever it is looked at.  "Last call wins" for every setting.
    The layout of a line (padding, truncation, styling, wide element, tick string, bar) is the
    same functions as above applied to those expansions. *)
Record rbar := mkrbar { r_tw : N; r_msg : text; r_prefix : text;
                        r_keys : keymap; r_gl : glyphs; r_tpl : list tpl;
                        r_saved : option (keymap * glyphs * list tpl);
                        r_tick : N; r_status : status; r_onfin : finish; r_draws : N }.

Definition rbar_init : rbar :=
  mkrbar DEFAULT_TAB_WIDTH [] [] [] default_glyphs default_tpl None 0 InProgress FAndClear 0.

Definition ref_push (c : rctx) (emsg cur : text) (lines : list text) (w : wide) : list text :=
  lines ++ split_nl (match w with
                     | WNone => cur
                     | WBar alt => wide_bar_line c alt cur
                     | WMsg a => wide_msg_line c a emsg cur
                     end).

(* [emsg], [epre]: message and prefix expanded from their originals with the current width *)
Fixpoint ref_fmt (c : rctx) (emsg epre : text) (ps : list tpl) (cur : text) (lines : list text) (w : wide)
  : text * list text * wide :=
  match ps with
  | [] => (cur, lines, w)
  | p :: rest =>
      match p with
      | TLit s => ref_fmt c emsg epre rest (cur ++ expand s (c_tw c)) lines w
      | TNewLine => ref_fmt c emsg epre rest [] (ref_push c emsg cur lines w) w
      | TPh h =>
          let buf := match p_key h with KMsg => emsg | KPrefix => epre | _ => static_buf c h end in
          ref_fmt c emsg epre rest (cur ++ ph_post c h buf) lines (wide_of h w)
      end
  end.

Definition ref_ctx_gen (raw : bool) (E : env) (r : rbar) : rctx :=
  mkrctx E (r_draws r) (r_tw r) (r_keys r) (r_gl r) (r_tick r) (is_finished (r_status r)) raw.

(* the bar lines of a rendering of [r]; [raw = true]: with the {spinner} arm of before 6ff82af *)
Definition ref_lines_gen (raw : bool) (E : env) (r : rbar) : list text :=
  let c := ref_ctx_gen raw E r in
  let emsg := expand (r_msg r) (r_tw r) in
  let '(cur, lines, w) := ref_fmt c emsg (expand (r_prefix r) (r_tw r)) (r_tpl r) [] [] WNone in
  match cur with [] => lines | _ => ref_push c emsg cur lines w end.
Definition ref_ctx : env -> rbar -> rctx := ref_ctx_gen false.
Definition ref_lines : env -> rbar -> list text := ref_lines_gen false.

Definition ref_render (E : env) (r : rbar) : rbar * list text :=
  match r_status r with
  | DoneHidden => (r, [])
  | _ => (mkrbar (r_tw r) (r_msg r) (r_prefix r) (r_keys r) (r_gl r) (r_tpl r) (r_saved r)
                 (r_tick r) (r_status r) (r_onfin r) (r_draws r + 1),
          ref_lines E r)
  end.

(* the message a finish behaviour installs ([d]: the message so far) *)
Definition finish_msg (f : finish) (d : text) : text :=
  match f with FWithMessage s | FAbandonWithMessage s => s | _ => d end.
Definition rbar_tick (r : rbar) : rbar :=
  mkrbar (r_tw r) (r_msg r) (r_prefix r) (r_keys r) (r_gl r) (r_tpl r) (r_saved r)
         (sat_add64 (r_tick r) 1) (r_status r) (r_onfin r) (r_draws r).
Definition rbar_finish (r : rbar) (f : finish) : rbar :=
  mkrbar (r_tw r)
         (finish_msg f (r_msg r))
         (r_prefix r) (r_keys r) (r_gl r) (r_tpl r) (r_saved r) (r_tick r) (status_of_finish f)
         (r_onfin r) (r_draws r).

Definition ref_step (E : env) (r : rbar) (o : op) : rbar * out :=
  let upd_tw n := mkrbar n (r_msg r) (r_prefix r) (r_keys r) (r_gl r) (r_tpl r) (r_saved r)
                         (r_tick r) (r_status r) (r_onfin r) (r_draws r) in
  let upd_msg s := mkrbar (r_tw r) s (r_prefix r) (r_keys r) (r_gl r) (r_tpl r) (r_saved r)
                          (r_tick r) (r_status r) (r_onfin r) (r_draws r) in
  let upd_prefix s := mkrbar (r_tw r) (r_msg r) s (r_keys r) (r_gl r) (r_tpl r) (r_saved r)
                             (r_tick r) (r_status r) (r_onfin r) (r_draws r) in
  let upd_style k g t := mkrbar (r_tw r) (r_msg r) (r_prefix r) k g t (r_saved r)
                                (r_tick r) (r_status r) (r_onfin r) (r_draws r) in
  let drawn r' := let '(r'', l) := ref_render E r' in (r'', ODraw [] l) in
  match o with
  | SetTabWidth n => drawn (upd_tw n)
  | WithTabWidth n => (upd_tw n, ONone)
  | SetStyleNew keys g t => if glyphs_accept g then (upd_style keys g t, ONone) else (r, OBuildPanic)
  | SetStyleDerived t => (upd_style (r_keys r) (r_gl r) t, ONone)
  | SaveStyle => (mkrbar (r_tw r) (r_msg r) (r_prefix r) (r_keys r) (r_gl r) (r_tpl r)
                         (Some (r_keys r, r_gl r, r_tpl r)) (r_tick r) (r_status r) (r_onfin r) (r_draws r), ONone)
  | RestoreStyle => match r_saved r with
                    | Some (k, g, t) => (upd_style k g t, ONone)
                    | None => (r, ONone)
                    end
  | SetMessage s => drawn (upd_msg s)
  | SetPrefix s => drawn (upd_prefix s)
  | WithMessage s => (upd_msg s, ONone)
  | WithPrefix s => (upd_prefix s, ONone)
  | FinishWithMessage s => drawn (rbar_finish r (FWithMessage s))
  | AbandonWithMessage s => drawn (rbar_finish r (FAbandonWithMessage s))
  | WithFinish f => (mkrbar (r_tw r) (r_msg r) (r_prefix r) (r_keys r) (r_gl r) (r_tpl r) (r_saved r)
                            (r_tick r) (r_status r) f (r_draws r), ONone)
  | FinishUsingStyle => drawn (rbar_finish r (r_onfin r))
  | Tick => drawn (rbar_tick r)
  | Println s => let '(r', l) := ref_render E r in (r', ODraw (println_lines s) l)
  | GetMessage => (r, OGot (expand (r_msg r) (r_tw r)))
  | GetPrefix => (r, OGot (expand (r_prefix r) (r_tw r)))
  end.

Fixpoint ref_run (E : env) (r : rbar) (ops : list op) : rbar * list out :=
  match ops with
  | [] => (r, [])
  | o :: rest => let '(r1, x) := ref_step E r o in
                 let '(r2, xs) := ref_run E r1 rest in
                 (r2, x :: xs)
  end.

(** closed forms over a history: the last value given to each setting *)
Fixpoint last_tw (d : N) (ops : list op) : N :=
  match ops with
  | [] => d
  | (SetTabWidth n | WithTabWidth n) :: r => last_tw n r
  | _ :: r => last_tw d r
  end.
(* [f]: the finish behaviour stored so far (with_finish) *)
Fixpoint last_msg (d : text) (f : finish) (ops : list op) : text :=
  match ops with
  | [] => d
  | (SetMessage s | WithMessage s | FinishWithMessage s | AbandonWithMessage s) :: r => last_msg s f r
  | WithFinish g :: r => last_msg d g r
  | FinishUsingStyle :: r => last_msg (finish_msg f d) f r
  | _ :: r => last_msg d f r
  end.
Fixpoint last_prefix (d : text) (ops : list op) : text :=
  match ops with
  | [] => d
  | (SetPrefix s | WithPrefix s) :: r => last_prefix s r
  | _ :: r => last_prefix d r
  end.

(** ---------------------------------------------------------------- vocabulary of the statements *)
(* the cache invariant, stated on the implementation model alone *)
Definition tes_ok (w : N) (t : tes) : Prop :=
  match t with
  | NoTabs s => has_tab s = false
  | WithTabs o c tw => tw = w /\ (c = None \/ c = Some (expand o w))
  end.
Definition part_ok (w : N) (p : part) : Prop :=
  match p with PLit t => tes_ok w t | _ => True end.
Definition inv (b : bar) : Prop :=
  tes_ok (b_tw b) (b_msg b) /\ tes_ok (b_tw b) (b_prefix b)
  /\ s_tw (b_style b) = b_tw b /\ Forall (part_ok (b_tw b)) (s_parts (b_style b)).

(* the BAR LINES of a draw (the text lines of println are not bar lines) and getter results *)
Definition out_notab (x : out) : Prop :=
  match x with
  | ODraw _ ls => Forall notab ls
  | OGot s => notab s
  | ONone | OBuildPanic => True
  end.

(** what format_state copies verbatim: the escape sequences console::Style writes around a
    styled placeholder *)
Definition sty_ok (o : option sty) : Prop :=
  match o with Some y => notab (y_pre y) /\ notab (y_post y) | None => True end.
Definition tpl_ok (p : tpl) : Prop :=
  match p with TPh h => sty_ok (p_style h) /\ sty_ok (p_alt h) | _ => True end.
Definition op_ok (o : op) : Prop :=
  match o with
  | SetStyleNew _ _ t | SetStyleDerived t => Forall tpl_ok t
  | _ => True
  end.
(* the numeric / time built-in keys write digits, punctuation, unit names: no TAB *)
Definition env_ok (E : env) : Prop := forall d id w, notab (e_num E d id w).

(** ------------------------------------------------------------------ correspondence *)
Definition text_eqb : text -> text -> bool := list_eqb N.eqb.
Definition out_eqb (m o : out) : bool :=
  match m, o with
  | ODraw t l, ODraw t' l' => list_eqb text_eqb t t' && list_eqb text_eqb l l'
  | OGot s, OGot s' => text_eqb s s'
  | ONone, ONone => true
  | OBuildPanic, OBuildPanic => true
  | _, _ => false
  end.

(** The environment of the harness's runs: a draw target of fixed width [W]; bars without a
    length whose position stays 0, so the fraction is 0 and a bar consists of background cells
    only (state.rs:286-295, style.rs:195-222) and the numeric keys are the constants [nums]
    except where [pernum] says otherwise;
    measure_text_width = sum of the characters' widths ([wt]: the characters whose width is
    not 1) outside `ESC ... letter` sequences (the sequences console::Style writes). *)
Fixpoint lookup_or {A} (k : N) (m : list (N * A)) (d : A) : A :=
  match m with
  | [] => d
  | (k', v) :: r => if k =? k' then v else lookup_or k r d
  end.
Definition is_alpha (c : N) : bool := ((65 <=? c) && (c <=? 90)) || ((97 <=? c) && (c <=? 122)).
Fixpoint cols_chk (wt : list (N * N)) (esc : bool) (s : text) : N :=
  match s with
  | [] => 0
  | c :: r => if esc then cols_chk wt (negb (is_alpha c)) r
              else if c =? 27 then cols_chk wt true r
              else lookup_or c wt 1 + cols_chk wt false r
  end.
(* texts of numeric keys that are not constant over a history: (rendering, key, width) -> text
   ({per_sec}: its width is a precision, and a finished bar computes it differently,
   state.rs:330-336) *)
Fixpoint lookup_draw (d id : N) (w : option N) (m : list (N * N * option N * text)) : option text :=
  match m with
  | [] => None
  | (d', id', w', t) :: r =>
      if (d =? d') && (id =? id') && option_eqb N.eqb w w' then Some t else lookup_draw d id w r
  end.
(* geometry of the bars: (rendering, number of cells) -> (filled, current, background); where the
   table is silent the bar consists of background cells only (fraction 0) *)
Fixpoint lookup_geom (d n : N) (m : list (N * N * (N * option N * N))) : option (N * option N * N) :=
  match m with
  | [] => None
  | (d', n', g) :: r => if (d =? d') && (n =? n') then Some g else lookup_geom d n r
  end.
Definition chk_env (W : N) (wt : list (N * N)) (nums : list (N * text))
                   (pernum : list (N * N * option N * text))
                   (geoms : list (N * N * (N * option N * N))) : env :=
  mkenv (cols_chk wt false) (fun _ => W)
        (fun d id w => match lookup_draw d id w pernum with Some t => t | None => lookup_or id nums [] end)
        (fun d n => match lookup_geom d n geoms with Some g => g | None => (0, None, n) end).

(* terminal width, width table, numeric-key tables, bar geometries, a history, what was observed
   after each operation *)
Definition c16_check (c : N * list (N * N) * list (N * text) * list (N * N * option N * text)
                          * list (N * N * (N * option N * N)) * list op * list out) : bool :=
  let '(W, wt, nums, pernum, geoms, ops, obs) := c in
  list_eqb out_eqb (snd (run (chk_env W wt nums pernum geoms) bar_init ops)) obs.
