(** C09 – model of the rate / ETA estimator of indicatif (src/state.rs).

    ONE generic transcription of [Estimator::{new,record,reset,steps_per_second}]
    (state.rs:437-545), [ProgressState::{eta,duration,per_sec,elapsed}] (state.rs:297-340),
    the helper functions [estimator_weight], [duration_to_secs], [secs_to_duration]
    (state.rs:683-696), the position limiter [AtomicPosition::{allow,reset}] (state.rs:564-603,
    it decides which updates reach the estimator) and the [ProgressBar] entry points that feed
    the estimator (progress_bar.rs:231-400), parameterised by the arithmetic [arith]:

      - instance [Rar]    : Coq real numbers, weight [Rpower (1/10) (t/15)]  -> theorems
                            (EstimatorProofs.v, EstimatorBarProofs.v)
      - instance [FL.ar]  : binary64 via Flocq (pure Gallina), [powf] supplied as data  -> cross-check
                            of the correspondence + the binary64 theorems (EstimatorFloatProofs.v)
      - instance [PF.ar]  : binary64 via Coq primitive floats, [powf] supplied as data  -> correspondence
    [PF] and the correspondence checker [est_check] live in EstimatorFloat.v, so that the theorems
    (props/C09.v) do not load Coq's primitive floats / integers at all (coqchk lists those
    primitives as axioms of the context); [FL] is pure Gallina and lives here.

    The last part of the file is the VOCABULARY of the statements in props/C09.v (weight function,
    estimator events, histories, hypotheses such as [hist_ok], [segs_ok], [no_wrap]).

    Definitions only; no proofs in this file. *)
From IndModel Require Export Base.
From IndGen Require Import Constants.
From Coq Require Import Reals.
From Flocq Require Core.Zaux Core.Raux Core.Generic_fmt Core.FLT IEEE754.BinarySingleNaN IEEE754.Binary IEEE754.Bits.
Open Scope N_scope.

(** * Arithmetic interface: what the Rust code does with f64 *)
Record arith : Type := {
  T : Type;
  of_int : N -> T;          (* [n as f64] / [f64::from(n)] for an unsigned integer n < 2^64 *)
  add : T -> T -> T;
  sub : T -> T -> T;
  mul : T -> T -> T;
  div : T -> T -> T;
  pow_base : T -> T;        (* [0.1_f64.powf(x)]  (state.rs:685) *)
  is_zero : T -> bool;      (* [x == 0.0] *)
  trunc : T -> T;           (* [f64::trunc] *)
  cast : N -> T -> N        (* [x as uNN], saturating float->int cast; first argument = uNN::MAX *)
}.

Definition NS_PER_SEC : N := 1000000000.
Definition U32MAX : N := 4294967295.
(* Duration::MAX in nanoseconds: u64::MAX seconds + 999_999_999 ns *)
Definition DUR_MAX : N := U64MAX * NS_PER_SEC + 999999999.

(** [Duration::new(secs, nanos)]: carries whole seconds out of [nanos], panics when the seconds
    overflow u64.  Durations are modelled by their total number of nanoseconds. *)
Definition dur_new (secs nanos : N) : option N :=
  let secs' := secs + nanos / NS_PER_SEC in
  if secs' <=? U64MAX then Some (secs' * NS_PER_SEC + nanos mod NS_PER_SEC) else None.

(** [Duration::saturating_add] *)
Definition dur_sat_add (a b : N) : N := N.min DUR_MAX (a + b).

(** [Instant - Instant] = [saturating_duration_since]; instants are u64 nanoseconds of the
    (mock) monotonic clock, [N] subtraction truncates at 0 exactly like the saturation. *)
Definition since (now earlier : N) : N := now - earlier.

(** Estimator (state.rs:429-435) *)
Record est (F : Type) : Type := mkEst {
  sm : F;            (* smoothed_steps_per_sec *)
  dsm : F;           (* double_smoothed_steps_per_sec *)
  prev_steps : N;
  prev_time : N;
  start_time : N
}.
Arguments mkEst {F}.
Arguments sm {F}. Arguments dsm {F}. Arguments prev_steps {F}.
Arguments prev_time {F}. Arguments start_time {F}.

(** position limiter state, AtomicPosition (state.rs:547-552) without [pos] *)
Record lim : Type := mkLim { l_cap : N; l_prev : N; l_start : N }.

(** the bar as far as C09 is concerned *)
Record bar (F : Type) : Type := mkBar {
  b_pos : N;
  b_len : option N;
  b_done : bool;          (* status != InProgress *)
  b_started : N;
  b_est : est F;
  b_lim : lim
}.
Arguments mkBar {F}.
Arguments b_pos {F}. Arguments b_len {F}. Arguments b_done {F}.
Arguments b_started {F}. Arguments b_est {F}. Arguments b_lim {F}.

(** operations of a history; every call reads the clock once ([Instant::now()]) *)
Inductive eop : Type :=
| Adv (ns : N)        (* the clock advances *)
| SetPos (p : N)      (* pb.set_position(p)       – recorded only if the limiter allows *)
| Inc (d : N)         (* pb.inc(d)                – idem *)
| Dec (d : N)         (* pb.dec(d)                – idem (backwards seek) *)
| UpdPos (p : N)      (* pb.update(|s| s.set_pos(p)) – always ticks, hence always records *)
| Tick                (* pb.tick() *)
| SetLen (l : N)      (* pb.set_length(l) *)
| UnsetLen            (* pb.unset_length() *)
| ResetEta | ResetElapsed | ResetAll
| Finish              (* pb.finish(): status done, pos := len *)
| Abandon             (* pb.abandon(): status done *)
| Query.              (* observe per_sec(), eta(), duration(), elapsed() *)

Section Generic.
  Variable A : arith.
  Notation F := (T A).

  Definition fzero : F := of_int A 0.
  Definition fone : F := of_int A 1.

  (** duration_to_secs (state.rs:688-690) and Duration::as_secs_f64 (same formula in std) *)
  Definition dur_secs (d : N) : F :=
    add A (of_int A (d / NS_PER_SEC)) (div A (of_int A (d mod NS_PER_SEC)) (of_int A NS_PER_SEC)).

  (** estimator_weight (state.rs:683-686) *)
  Definition est_weight (age : F) : F :=
    pow_base A (div A age (of_int A EST_WEIGHTING_SECONDS)).

  (** secs_to_duration (state.rs:692-696) *)
  Definition secs_to_duration (s : F) : option N :=
    let secs := cast A U64MAX (trunc A s) in
    let nanos := cast A U32MAX (mul A (sub A s (trunc A s)) (of_int A NS_PER_SEC)) in
    dur_new secs nanos.

  (** Estimator::new (state.rs:438-446) *)
  Definition est_new (now : N) : est F := mkEst fzero fzero 0 now now.

  (** Estimator::reset (state.rs:491-498): prev_steps is kept *)
  Definition est_reset (now : N) (e : est F) : est F :=
    mkEst fzero fzero (prev_steps e) now now.

  (** Estimator::record (state.rs:448-487) *)
  Definition est_record (new_steps now : N) (e : est F) : est F :=
    if (new_steps <=? prev_steps e) || (now <=? prev_time e) then
      (* state.rs:450-458 *)
      if new_steps <? prev_steps e
      then est_reset now (mkEst (sm e) (dsm e) new_steps (prev_time e) (start_time e))
      else e
    else
      let delta_steps := new_steps - prev_steps e in                       (* :460 *)
      let delta_t := dur_secs (since now (prev_time e)) in                 (* :461 *)
      let new_sps := div A (of_int A delta_steps) delta_t in               (* :464 *)
      let weight := est_weight delta_t in                                  (* :467 *)
      let s' := add A (mul A (sm e) weight) (mul A new_sps (sub A fone weight)) in   (* :468-469 *)
      let delta_t_start := dur_secs (since now (start_time e)) in          (* :477 *)
      let total_weight := sub A fone (est_weight delta_t_start) in         (* :478 *)
      let normalized := div A s' total_weight in                           (* :479 *)
      let d' := add A (mul A (dsm e) weight) (mul A normalized (sub A fone weight)) in (* :482-483 *)
      mkEst s' d' new_steps now (start_time e).                            (* :485-486 *)

  (** Estimator::steps_per_second (state.rs:501-544, with fix 56491a5: no time has passed since
      the (re)start => 0.0 instead of 0.0 / 0.0) *)
  Definition est_sps (e : est F) (now : N) : F :=
    let delta_t := dur_secs (since now (prev_time e)) in                   (* :506 *)
    let reweight := est_weight delta_t in                                  (* :507 *)
    let delta_t_start := dur_secs (since now (start_time e)) in            (* :528 *)
    let total_weight := sub A fone (est_weight delta_t_start) in           (* :529 *)
    if is_zero A total_weight then fzero else                              (* :534-536 *)
    let sps := div A (mul A (sm e) reweight) total_weight in               (* :541 *)
    let dsps := add A (mul A (dsm e) reweight) (mul A sps (sub A fone reweight)) in  (* :542 *)
    div A dsps total_weight.                                               (* :543 *)

  (** the same function BEFORE fix 56491a5 (kept for the regression statements
      C09_*_pre_56491a5: it divides by zero at the restart instant) *)
  Definition est_sps_pre_56491a5 (e : est F) (now : N) : F :=
    let delta_t := dur_secs (since now (prev_time e)) in
    let reweight := est_weight delta_t in
    let delta_t_start := dur_secs (since now (start_time e)) in
    let total_weight := sub A fone (est_weight delta_t_start) in
    let sps := div A (mul A (sm e) reweight) total_weight in
    let dsps := add A (mul A (dsm e) reweight) (mul A sps (sub A fone reweight)) in
    div A dsps total_weight.

  (** AtomicPosition::allow (state.rs:564-597); returns the decision and the new limiter *)
  Definition lim_allow (now : N) (l : lim) : bool * lim :=
    if now <? l_start l then (false, l) else
    let elapsed := wrap64 (since now (l_start l)) in       (* as_nanos() as u64 *)
    let diff := elapsed - l_prev l in                      (* saturating_sub *)
    if (l_cap l =? 0) && (diff <? AP_INTERVAL_NS) then (false, l) else
    let new := diff / AP_INTERVAL_NS in
    let remainder := diff mod AP_INTERVAL_NS in
    let cap := (N.min AP_MAX_BURST (l_cap l + new) - 1) mod U8 in
    (true, mkLim cap (elapsed - remainder) (l_start l)).

  (** ProgressState::per_sec (state.rs:330-336) *)
  Definition bar_per_sec (b : bar F) (now : N) : F :=
    if b_done b
    then div A (of_int A (b_pos b)) (dur_secs (since now (b_started b)))
    else est_sps (b_est b) now.

  (** ProgressState::eta (state.rs:298-319); [None] = Duration::new panicked *)
  Definition bar_eta (b : bar F) (now : N) : option N :=
    if b_done b then Some 0 else
    match b_len b with
    | None => Some 0
    | Some len =>
        let sps := est_sps (b_est b) now in
        if is_zero A sps then Some 0
        else secs_to_duration (div A (of_int A (len - b_pos b)) sps)    (* saturating_sub *)
    end.

  (** ProgressState::elapsed (state.rs:338-340) *)
  Definition bar_elapsed (b : bar F) (now : N) : N := since now (b_started b).

  (** ProgressState::duration (state.rs:322-327) *)
  Definition bar_duration (b : bar F) (now : N) : option N :=
    match b_len b with
    | None => Some 0
    | Some _ =>
        if b_done b then Some 0
        else option_map (dur_sat_add (bar_elapsed b now)) (bar_eta b now)
    end.

  (** ProgressBar::with_draw_target(len, hidden) with the clock at [now]
      (ProgressState::new state.rs:262-274, AtomicPosition::new state.rs:555-562) *)
  Definition bar_new (len : option N) (now : N) : bar F :=
    mkBar 0 len false now (est_new now) (mkLim AP_MAX_BURST 0 now).

  (** BarState::update_estimate_and_draw (state.rs:148-157): the estimator part *)
  Definition bar_record (now : N) (b : bar F) : bar F :=
    mkBar (b_pos b) (b_len b) (b_done b) (b_started b) (est_record (b_pos b) now (b_est b)) (b_lim b).

  (** inc / dec / set_position (progress_bar.rs:243-258, 295-301): store, ask the limiter, tick *)
  Definition bar_move (newpos : N) (now : N) (b : bar F) : bar F :=
    let '(ok, l') := lim_allow now (b_lim b) in
    let b' := mkBar newpos (b_len b) (b_done b) (b_started b) (b_est b) l' in
    if ok then bar_record now b' else b'.

  (** the estimator part of BarState::reset (state.rs:79-84):
      [est.reset(now); est.prev_steps = pos.load()] *)
  Definition bar_reset_est (now pos : N) (e : est F) : est F :=
    let e' := est_reset now e in
    mkEst (sm e') (dsm e') pos (prev_time e') (start_time e').

  Definition bar_step (o : eop) (now : N) (b : bar F) : bar F :=
    match o with
    | Adv _ | Query => b
    | SetPos p => bar_move p now b
    | Inc d => bar_move (wadd64 (b_pos b) d) now b
    | Dec d => bar_move (wsub64 (b_pos b) d) now b
    | UpdPos p =>      (* BarState::update state.rs:100-105 with tick = true *)
        bar_record now (mkBar p (b_len b) (b_done b) (b_started b) (b_est b) (b_lim b))
    | Tick => bar_record now b
    | SetLen l =>      (* state.rs:112-115 *)
        bar_record now (mkBar (b_pos b) (Some l) (b_done b) (b_started b) (b_est b) (b_lim b))
    | UnsetLen =>      (* state.rs:107-110 *)
        bar_record now (mkBar (b_pos b) None (b_done b) (b_started b) (b_est b) (b_lim b))
    | ResetEta =>      (* BarState::reset, Reset::Eta (state.rs:74-98) *)
        mkBar (b_pos b) (b_len b) (b_done b) (b_started b) (bar_reset_est now (b_pos b) (b_est b)) (b_lim b)
    | ResetElapsed =>  (* + started := now (state.rs:86-88) *)
        mkBar (b_pos b) (b_len b) (b_done b) now (bar_reset_est now (b_pos b) (b_est b)) (b_lim b)
    | ResetAll =>      (* AtomicPosition::reset FIRST (state.rs:75-77, 599-603), then the estimator
                          restarts from position 0; status := InProgress *)
        mkBar 0 (b_len b) false now (bar_reset_est now 0 (b_est b))
              (mkLim (l_cap (b_lim b)) (wrap64 (since now (l_start (b_lim b)))) (l_start (b_lim b)))
    | Finish =>        (* finish_using_style AndLeave (state.rs:43-50): no estimator update *)
        mkBar (match b_len b with Some l => l | None => b_pos b end)
              (b_len b) true (b_started b) (b_est b) (b_lim b)
    | Abandon =>
        mkBar (b_pos b) (b_len b) true (b_started b) (b_est b) (b_lim b)
    end.

  (** what a [Query] observes: per_sec, eta, duration, elapsed *)
  Definition obs : Type := (F * option N * option N * N)%type.
  Definition bar_query (b : bar F) (now : N) : obs :=
    (bar_per_sec b now, bar_eta b now, bar_duration b now, bar_elapsed b now).

  (** run a history from clock value [now]; returns final bar, final clock, observations *)
  Fixpoint bar_run (ops : list eop) (now : N) (b : bar F) : bar F * N * list obs :=
    match ops with
    | [] => (b, now, [])
    | Adv ns :: r => bar_run r (wadd64 now ns) b
    | Query :: r =>
        let '(b', n', os) := bar_run r now b in (b', n', bar_query b now :: os)
    | o :: r => bar_run r now (bar_step o now b)
    end.
End Generic.


(** * Instance R: exact real arithmetic (used by the theorems) *)
Definition R_pow_base (x : R) : R :=
  Rpower (IZR (Z.of_N EST_WEIGHT_BASE_NUM) / IZR (Z.of_N EST_WEIGHT_BASE_DEN)) x.
Definition R_cast (max : N) (x : R) : N :=
  Z.to_N (Z.min (Z.of_N max) (Z.max 0 (Flocq.Core.Raux.Ztrunc x))).
Definition Rar : arith := {|
  T := R;
  of_int := fun n => IZR (Z.of_N n);
  add := Rplus; sub := Rminus; mul := Rmult; div := Rdiv;
  pow_base := R_pow_base;
  is_zero := fun x => if Req_EM_T x 0 then true else false;
  trunc := fun x => IZR (Flocq.Core.Raux.Ztrunc x);
  cast := R_cast
|}.


(** * Instance FL: binary64 via Flocq (pure Gallina).  [powf] is DATA: a function [F -> F]; the
    correspondence instantiates it with a table (exponent bits -> result bits) filled by the
    harness with what [0.1_f64.powf(x)] returned on this machine.  A missing entry yields -1.0,
    which no genuine weight can be, so the comparison fails loudly. *)
Definition NAN_BITS : N := 9221120237041090560.       (* 0x7FF8_0000_0000_0000, canonical quiet NaN *)
Fixpoint table_find (k : N) (t : list (N * N)) : option N :=
  match t with
  | [] => None
  | (a, w) :: r => if a =? k then Some w else table_find k r
  end.

Module FL.
  Import Flocq.IEEE754.BinarySingleNaN.
  Definition F := binary_float 53 1024.
  Definition Hp : Flocq.Core.FLX.Prec_gt_0 53 := eq_refl.
  Definition Hm : Prec_lt_emax 53 1024 := eq_refl.
  Definition of_Z (z : Z) (szero : bool) : F :=
    binary_normalize 53 1024 Hp Hm mode_NE z 0 szero.
  Definition of_bits (b : N) : F :=
    Flocq.IEEE754.Binary.B2BSN 53 1024 (Flocq.IEEE754.Bits.b64_of_bits (Z.of_N b)).
  Definition to_bits (x : F) : N :=
    if is_nan x then NAN_BITS
    else Z.to_N (Flocq.IEEE754.Bits.bits_of_b64
                   (Flocq.IEEE754.Binary.BSN2B 53 1024 Flocq.IEEE754.Bits.default_nan_pl64 x)).
  Definition ftrunc (x : F) : F :=
    match x with
    | B754_finite s m e _ => if (0 <=? e)%Z then x else of_Z (Btrunc x) s
    | _ => x
    end.
  (* Rust float->unsigned `as`: NaN -> 0, negative -> 0, too large / +inf -> MAX, else truncate *)
  Definition fcast (max : N) (x : F) : N :=
    match x with
    | B754_nan => 0
    | B754_zero _ => 0
    | B754_infinity s => if s then 0 else max
    | B754_finite s _ _ _ => if s then 0 else N.min max (Z.to_N (Btrunc x))
    end.
  Definition fis_zero (x : F) : bool := match x with B754_zero _ => true | _ => false end.
  Definition minus_one : F := of_Z (-1) false.
  (** the arithmetic with an arbitrary [powf] *)
  Definition arp (p : F -> F) : arith := {|
    T := F;
    of_int := fun n => of_Z (Z.of_N n) false;
    add := @Bplus 53 1024 Hp Hm mode_NE; sub := @Bminus 53 1024 Hp Hm mode_NE;
    mul := @Bmult 53 1024 Hp Hm mode_NE; div := @Bdiv 53 1024 Hp Hm mode_NE;
    pow_base := p;
    is_zero := fis_zero;
    trunc := ftrunc;
    cast := fcast
  |}.
  Definition fpow (tbl : list (N * N)) (x : F) : F :=
    match table_find (to_bits x) tbl with Some w => of_bits w | None => minus_one end.
  Definition ar (tbl : list (N * N)) : arith := arp (fpow tbl).
End FL.

(** ** What a run observes, as bit patterns (used by the correspondence check [est_check] in
    EstimatorFloat.v and by the binary64 statements of props/C09.v).
    an observation = (per_sec bits (NaN canonical), eta ns, duration ns, elapsed ns);
    [None] for eta/duration = the call panicked. *)
Definition obs_bits : Type := (N * option N * option N * N)%type.

Definition obs_eqb (a b : obs_bits) : bool :=
  let '(p1, e1, d1, l1) := a in
  let '(p2, e2, d2, l2) := b in
  (p1 =? p2) && option_eqb N.eqb e1 e2 && option_eqb N.eqb d1 d2 && (l1 =? l2).

Definition run_obs (A : arith) (to_bits : T A -> N) (len0 : option N) (t0 : N) (ops : list eop)
  : list obs_bits :=
  let '(_, _, os) := bar_run A ops t0 (bar_new A len0 t0) in
  map (fun o : obs A => let '(p, e, d, l) := o in (to_bits p, e, d, l)) os.

(** sanity of the supplied powf data: 0.1^x in [0,1] for x >= 0, = 1 at x = 0 and < 1 for
    every positive exponent that occurred (this is the float-level counterpart of the
    "denominator 1 - W(t) > 0" theorem) *)
Definition ONE_BITS : N := 4607182418800017408.   (* 1.0 *)
Definition INF_BITS : N := 9218868437227405312.   (* +inf; larger patterns are NaN or negative *)
Definition table_ok (t : list (N * N)) : bool :=
  forallb (fun aw : N * N => let '(a, w) := aw in
     (a <=? INF_BITS) && (w <=? ONE_BITS) && (if a =? 0 then w =? ONE_BITS else w <? ONE_BITS)) t.

(** calls that restart the estimator AND are named by the property as "reset" *)
Definition is_reset_op (o : eop) : bool :=
  match o with ResetEta | ResetElapsed | ResetAll => true | _ => false end.


(** * Vocabulary of the statements in props/C09.v (definitions only; the lemmas about them are in
    proofs/EstimatorProofs.v and proofs/EstimatorBarProofs.v) *)
Local Open Scope R_scope.

(** the weight function W(t) = (1/10)^(t/15), t in seconds (state.rs:683-686 over R) *)
Definition W (t : R) : R := Rpower (1 / 10) (t / 15).

(** seconds of a duration given in nanoseconds *)
Definition secs (d : N) : R := IZR (Z.of_N d) / 1000000000.

(** the rate of the segment a record would add *)
Definition seg_rate (e : est R) (new now : N) : R :=
  IZR (Z.of_N (new - prev_steps e)) / secs (now - prev_time e).

(** ** Histories at the level of the estimator *)
Inductive ev : Type :=
| ERec (new now : N)     (* Estimator::record(new, now) *)
| ERst (now pos : N).    (* BarState::reset: est.reset(now); est.prev_steps = pos *)

Definition ev_time (x : ev) : N := match x with ERec _ t => t | ERst t _ => t end.
Definition ev_pos (x : ev) : N := match x with ERec p _ => p | ERst _ p => p end.
Definition est_ev (x : ev) (e : est R) : est R :=
  match x with
  | ERec new now => est_record Rar new now e
  | ERst now pos => bar_reset_est Rar now pos e
  end.
Fixpoint est_run (evs : list ev) (e : est R) : est R :=
  match evs with [] => e | x :: r => est_run r (est_ev x e) end.

(** monotonic clock: no call carries an instant before the estimator's last sample / restart *)
Fixpoint hist_ok (evs : list ev) (e : est R) : Prop :=
  match evs with
  | [] => True
  | x :: r => (prev_time e <= ev_time x)%N /\ hist_ok r (est_ev x e)
  end.

(** every segment the estimator accepts has a rate satisfying P *)
Fixpoint segs_ok (P : R -> Prop) (evs : list ev) (e : est R) : Prop :=
  match evs with
  | [] => True
  | x :: r =>
      match x with
      | ERec new now => (prev_steps e < new)%N -> (prev_time e < now)%N -> P (seg_rate e new now)
      | ERst _ _ => True
      end /\ segs_ok P r (est_ev x e)
  end.

Definition wf (e : est R) : Prop := (start_time e <= prev_time e)%N.
(** normaliser at the last sample: 1 - W(prev_time - start_time) *)
Definition Np (e : est R) : R := 1 - W (secs (prev_time e - start_time e)).
Definition J_nonneg (e : est R) : Prop := 0 <= sm e /\ 0 <= dsm e.
(** the state steady progress at rate r leaves *)
Definition J_steady (r : R) (e : est R) : Prop := sm e = r * Np e /\ dsm e = r * Np e.

(** steps_per_second over R as a function of the two averages, the stall weight w = W(now -
    last sample) and the normaliser n = 1 - W(now - restart)  (state.rs:541-543) *)
Definition sps_R (s d : R) (w n : R) : R := (d * w + s * w / n * (1 - w)) / n.

(** the rate reported x SECONDS (a real number) into a stall, i.e. x seconds after the last
    accepted sample: [est_sps Rar e now = stall_rate e (secs (now - prev_time e))] *)
Definition stall_rate (e : est R) (x : R) : R :=
  sps_R (sm e) (dsm e) (W x) (1 - W (secs (prev_time e - start_time e)) * W x).

(** "progress has been seen": a sample was accepted after the last (re)start.  [record] moves
    [prev_time] past [start_time] exactly when it accepts a sample; every restart makes them equal. *)
Definition progress_seen {F} (e : est F) : Prop := (start_time e < prev_time e)%N.

(** the stall discount of steady progress: with A = W(last sample - restart), w = W(now - last
    sample) a steady stream at rate r is reported as r * steady_discount A w *)
Definition steady_discount (A w : R) : R :=
  1 - ((1 - w) / (1 - A * w)) * ((1 - w) / (1 - A * w)).

(** all reported (position, instant) pairs lie on the line pos = r * t + c *)
Definition on_line (r c : R) (p t : N) : Prop := IZR (Z.of_N p) = r * secs t + c.
Definition ev_on_line (r c : R) (x : ev) : Prop := on_line r c (ev_pos x) (ev_time x).

Definition pt_on_line (r c : R) (pt : N * N) : Prop := on_line r c (fst pt) (snd pt).

(** binary64 round-to-nearest-even with gradual underflow, and the two stall lengths (ns) at which
    the weight W leaves the normal range of binary64 (4615 s: W < 2^-1022) and at which it rounds
    to zero (4855 s: W < 2^-1075, half the smallest subnormal); proved in
    [EstimatorProofs.weight_underflow] *)
Definition RN64 (x : R) : R :=
  Flocq.Core.Generic_fmt.round Flocq.Core.Zaux.radix2 (Flocq.Core.FLT.FLT_exp (-1074) 53)
    (Flocq.Core.Generic_fmt.Znearest (fun z => negb (Z.even z))) x.
Definition STALL_SUBNORMAL_NS : N := 4615000000000.
Definition STALL_ZERO_NS : N := 4855000000000.

(** translation of the positions *)
Definition est_shift {F} (p : N) (e : est F) : est F :=
  mkEst (sm e) (dsm e) (prev_steps e + p)%N (prev_time e) (start_time e).
Definition shift_ev (p : N) (x : ev) : ev :=
  match x with ERec n t => ERec (n + p) t | ERst t q => ERst t (q + p) end.

(** the same history vocabulary for an arbitrary arithmetic (used by the binary64 statements) *)
Definition est_evA (A : arith) (x : ev) (e : est (T A)) : est (T A) :=
  match x with
  | ERec new now => est_record A new now e
  | ERst now pos => bar_reset_est A now pos e
  end.
Fixpoint est_runA (A : arith) (evs : list ev) (e : est (T A)) : est (T A) :=
  match evs with [] => e | x :: r => est_runA A r (est_evA A x e) end.
(** [x] restarts the estimator [e]: reset_eta / reset_elapsed / reset, or a record whose position is
    below the baseline (a recorded backwards seek) *)
Definition is_restart {F} (x : ev) (e : est F) : Prop :=
  match x with ERst _ _ => True | ERec p _ => (p < prev_steps e)%N end.
(** positions and instants are u64 in the Rust code *)
Definition ev_u64 (x : ev) : Prop := (ev_time x < U64)%N /\ (ev_pos x < U64)%N.
Definition op_u64 (o : eop) : Prop :=
  match o with SetPos p | UpdPos p | SetLen p => (p < U64)%N | _ => True end.

(** what a supplied binary64 [powf] has to satisfy for the float-side sanity theorems: for a
    finite non-negative exponent the value is a weight (finite, in [0,1]), and it is below 1 for
    exponents >= 2^-34 (0.1^(2^-34) = 1 - 1.3e-10 is far from rounding to 1; ages are >= 1 ns,
    i.e. exponents >= 6.6e-11 > 2^-34).  [table_ok] checks exactly this on the values that occur
    in a run. *)
Definition pow_ok (p : FL.F -> FL.F) : Prop :=
  forall x, Flocq.IEEE754.BinarySingleNaN.is_finite x = true ->
    0 <= Flocq.IEEE754.BinarySingleNaN.B2R x ->
    (Flocq.IEEE754.BinarySingleNaN.is_finite (p x) = true /\
     0 <= Flocq.IEEE754.BinarySingleNaN.B2R (p x) <= 1) /\
    (Flocq.Core.Raux.bpow Flocq.Core.Zaux.radix2 (-34) <= Flocq.IEEE754.BinarySingleNaN.B2R x ->
     Flocq.IEEE754.BinarySingleNaN.B2R (p x) < 1).

(** ** Histories of ProgressBar calls *)
Definition clock_step (o : eop) (now : N) : N :=
  match o with Adv ns => wadd64 now ns | _ => now end.

Section RunGeneric.
  Variable A : arith.
  (** the state and the clock after a history (first components of [bar_run]) *)
  Fixpoint run_state (ops : list eop) (now : N) (b : bar (T A)) : bar (T A) * N :=
    match ops with
    | [] => (b, now)
    | o :: r => run_state r (clock_step o now) (bar_step A o now b)
    end.

  (** two bars that differ at most in what their estimators have learned *)
  Definition same_but_est (b1 b2 : bar (T A)) : Prop :=
    b_pos b1 = b_pos b2 /\ b_len b1 = b_len b2 /\ b_done b1 = b_done b2 /\
    b_started b1 = b_started b2 /\ b_lim b1 = b_lim b2.
End RunGeneric.

(** the clock does not wrap around u64 nanoseconds (584 years) during the history *)
Fixpoint no_wrap (ops : list eop) (now : N) : Prop :=
  match ops with
  | [] => True
  | o :: r => match o with Adv ns => (now + ns < U64)%N | _ => True end /\ no_wrap r (clock_step o now)
  end.

(** the estimator events a call produces *)
Definition bar_evs_step (o : eop) (now : N) (b : bar R) : list ev :=
  match o with
  | Adv _ | Query | Finish | Abandon => []
  | SetPos p => if fst (lim_allow now (b_lim b)) then [ERec p now] else []
  | Inc d => if fst (lim_allow now (b_lim b)) then [ERec (wadd64 (b_pos b) d) now] else []
  | Dec d => if fst (lim_allow now (b_lim b)) then [ERec (wsub64 (b_pos b) d) now] else []
  | UpdPos p => [ERec p now]
  | Tick | SetLen _ | UnsetLen => [ERec (b_pos b) now]
  | ResetEta | ResetElapsed => [ERst now (b_pos b)]
  | ResetAll => [ERst now 0%N]
  end.

Fixpoint bar_evs (ops : list eop) (now : N) (b : bar R) : list ev :=
  match ops with
  | [] => []
  | o :: r => bar_evs_step o now b ++ bar_evs r (clock_step o now) (bar_step Rar o now b)
  end.

(** the (position, instant) pairs a user can see: the position right after every call that can
    reach the estimator (everything except clock advances, queries, finish, abandon), whether or
    not the position limiter lets it through.  A call that leaves the position exactly where the
    estimator's baseline already is - a tick / set_length / set_message (or a repeated
    set_position) after an update that was recorded - brings no news: [record] ignores it, and it
    is NOT listed (so such calls may be interleaved anywhere in a steady stream).  reset_eta /
    reset_elapsed / reset are always listed: they make the pair the new baseline. *)
Definition reaches_est (o : eop) : bool :=
  match o with Adv _ | Query | Finish | Abandon => false | _ => true end.
Definition brings_news (o : eop) (now : N) (b : bar R) : bool :=
  reaches_est o &&
  (is_reset_op o || negb (N.eqb (b_pos (bar_step Rar o now b)) (prev_steps (b_est b)))).
Fixpoint bar_points (ops : list eop) (now : N) (b : bar R) : list (N * N) :=
  match ops with
  | [] => []
  | o :: r =>
      (if brings_news o now b then [(b_pos (bar_step Rar o now b), now)] else [])
      ++ bar_points r (clock_step o now) (bar_step Rar o now b)
  end.

(** invariant of the bar under every call *)
Definition BInv (now : N) (b : bar R) : Prop :=
  wf (b_est b) /\ J_nonneg (b_est b) /\ (prev_time (b_est b) <= now)%N /\
  (b_started b <= start_time (b_est b))%N.
