(** C05 – vocabulary relating the two transcriptions of the limiters: model/Limiter.v (C05) and
    model/Sys.v (the drawing-system model).  Definitions only; the agreement statement is
    props/C05.v [C05_limiter_models_agree], proved in proofs/LimiterAgree.v. *)
From IndModel Require Limiter Sys.

(* a RateLimiter / AtomicPosition-limiter state of Limiter.v, as a state of Sys.v (same fields) *)
Definition rl_to_sys (r : Limiter.rl) : Sys.ratelimiter :=
  Sys.mkrl (Limiter.rl_interval r) (Limiter.rl_cap r) (Limiter.rl_prev r).
Definition ap_to_sys (a : Limiter.ap) : Sys.apos :=
  Sys.mkap (Limiter.ap_cap a) (Limiter.ap_prev a) (Limiter.ap_start a).
