(** MultiProgress: the per-member "latest drawn state" ghost (properties C02 / C05).
    Definitions only; nothing in Sys.v / MultiSpec.v is changed.

    A member bar does not render at paint time: BarState::draw / BarState::println render the bar's
    CURRENT logic state into the bar's slot of MultiState (Sys.ms_store) BEFORE the refresh limiter
    of the MultiProgress target is asked (Sys.ms_draw), and MultiState::draw composes the frame
    from the stored lines of all members.  The ghost below records, per slot, which bar stored
    there last, at which call of the history (a global call counter) and in which logic state;
    per bar, the call number of its most recent draw step.  It never looks at a limiter. *)
From IndModel Require Export MultiSpec.

(** the part of a bar record the rendering depends on *)
Definition logic (x : bar) : N * option N * N * status * text * text * list tpart :=
  (b_pos x, b_len x, b_tick x, b_status x, b_msg x, b_prefix x, b_tmpl x).

(* ------------------------------------------------------------------ which calls are a draw step *)
(** ProgressBar::{inc,dec,set_position}: the position is stored first; only if the bar's own
    position limiter (AtomicPosition::allow) agrees the call goes on to tick + draw *)
Definition pos_draw (x : bar) (f : N -> N) (now : N) : option bar :=
  let x1 := set_b_pos x (f (b_pos x)) in
  let '(a, ap') := ap_allow (b_ap x1) now in
  if a then Some (set_b_tick (set_b_ap x1 ap') (sat_add64 (b_tick x1) 1)) else None.

(** [op_draw s now o = Some (b, st)]: the call reaches BarState::draw / BarState::println of bar [b]
    whose record is [st] at that moment (enumerated from Sys.step).  [None]: no draw step -
    set_style, reset_eta, reset_elapsed, suspend, a position update refused by the bar's position
    limiter, drop of a finished bar, add/insert*/remove, and the calls on the MultiProgress. *)
Definition op_draw (s : sys) (now : N) (o : op) : option (N * bar) :=
  match o with
  | OTick b => Some (b, let x := get_bar s b in set_b_tick x (sat_add64 (b_tick x) 1))
  | OInc b d => option_map (pair b) (pos_draw (get_bar s b) (fun p => wadd64 p d) now)
  | ODec b d => option_map (pair b) (pos_draw (get_bar s b) (fun p => wsub64 p d) now)
  | OSetPos b p => option_map (pair b) (pos_draw (get_bar s b) (fun _ => p) now)
  | OSetLen b l => Some (b, set_b_len (get_bar s b) (Some l))
  | OIncLen b d => Some (b, let x := get_bar s b in set_b_len x (option_map (fun l => sat_add64 l d) (b_len x)))
  | ODecLen b d => Some (b, let x := get_bar s b in set_b_len x (option_map (fun l => sat_sub l d) (b_len x)))
  | OUnsetLen b => Some (b, set_b_len (get_bar s b) None)
  | OSetMsg b m => Some (b, set_b_msg (get_bar s b) m)
  | OSetPrefix b m => Some (b, set_b_prefix (get_bar s b) m)
  | OPrintln b _ => Some (b, get_bar s b)
  | OReset b => Some (b, let x := get_bar s b in
                         set_b_status (set_b_ap (set_b_pos x 0) (ap_reset (b_ap x) now)) InProgress)
  | OFinish b k => Some (b, finish_upd k (get_bar s b))
  | OFinishUsingStyle b => Some (b, let x := get_bar s b in finish_upd (b_on_finish x) x)
  | OForceDraw b | OSetTabWidth b => Some (b, get_bar s b)
  | ODrop b => let x := get_bar s b in
               if finished x then None else Some (b, finish_upd (b_on_finish x) x)
  | OSetStyle _ _ | OResetEta _ | OResetElapsed _ | OSuspend _ _
  | OInsert _ _ | ORemove _ | OMPrintln _ | OMSuspend _ | OMClear | OSetAlign _ => None
  end.

(** the calls that change the logic state of bar [b] WITHOUT a draw step *)
Definition silent_change (s : sys) (now : N) (o : op) (b : N) : bool :=
  match o with
  | OSetStyle b' _ => N.eqb b' b
  | OInc b' _ | ODec b' _ | OSetPos b' _ =>
      N.eqb b' b && negb (fst (ap_allow (b_ap (get_bar s b')) now))
  | _ => false
  end.

(** the text lines a call hands to BarState::println of a member *)
Definition op_texts (o : op) : list line :=
  match o with OPrintln _ m => text_lines m | _ => [] end.

(* ------------------------------------------------------------------ the ghost *)
(** one slot: the bar that stored there last, the number of that call in the history, the bar
    record at that call, and [le_sync] = no silent change of that bar since *)
Record lent := mkle { le_bar : N; le_step : nat; le_state : bar; le_sync : bool }.
Record lghost := mklg { lg_slot : N -> option lent; lg_last : N -> option nat }.
Definition lg_empty : lghost := mklg (fun _ => None) (fun _ => None).

Definition fupd {A} (f : N -> A) (i : N) (v : A) : N -> A := fun j => if N.eqb j i then v else f j.

Definition bloc_iloc (s : sys) (bl : bloc) : option iloc :=
  match bl with
  | BEnd => Some LEnd
  | BIndex i => Some (LIndex i)
  | BFromBack i => Some (LFromBack i)
  | BAfter r => match b_target (get_bar s r) with TMulti i => Some (LAfter i) | _ => None end
  | BBefore r => match b_target (get_bar s r) with TMulti i => Some (LBefore i) | _ => None end
  end.

(** the slot an add/insert* call allocates (none for a bar that is a member already: no effect) *)
Definition insert_slot (s : sys) (o : op) : option N :=
  match o with
  | OInsert bl b =>
      match b_target (get_bar s b) with
      | TMulti _ => None
      | _ =>
          match bloc_iloc s bl with
          | Some l => option_map snd (ms_insert (s_mp s) l)
          | None => None
          end
      end
  | _ => None
  end.

(** ghost after call number [k] (= the number of calls made before it), made in state [s] *)
Definition lat_step (s : sys) (now : N) (o : op) (k : nat) (g : lghost) : lghost :=
  match op_draw s now o with
  | Some (b, st) =>
      match b_target (get_bar s b) with
      | TMulti idx => mklg (fupd (lg_slot g) idx (Some (mkle b k st true))) (fupd (lg_last g) b (Some k))
      | _ => g
      end
  | None =>
      match insert_slot s o with
      | Some idx => mklg (fupd (lg_slot g) idx None) (lg_last g)
      | None =>
          match op_bar o with
          | Some b =>
              if silent_change s now o b then
                match b_target (get_bar s b) with
                | TMulti idx =>
                    match lg_slot g idx with
                    | Some e => mklg (fupd (lg_slot g) idx (Some (mkle (le_bar e) (le_step e) (le_state e) false)))
                                     (lg_last g)
                    | None => g
                    end
                | _ => g
                end
              else g
          | None => g
          end
      end
  end.

(** what a composed frame shows for slot [i] according to the ghost *)
Definition shown (g : lghost) (i : N) : list line :=
  match lg_slot g i with Some e => frame_of (le_state e) | None => [] end.

Section LRuns.
  Variable W H : N.
  Variable fails : N -> bool.

  (** state and ghost along a history; [k] = number of calls made so far *)
  Fixpoint lrun (s : sys) (k : nat) (g : lghost) (h : list (N * op)) : sys * nat * lghost :=
    match h with
    | [] => (s, k, g)
    | (now, o) :: r => lrun (step_sys W H fails s now o) (S k) (lat_step s now o k g) r
    end.

  (** the MultiState just before the draw inside MultiState::suspend *)
  Definition sus_mid (m : mstate) (c : N) : mstate :=
    let m1 := fst (fst (fst (ms_clear W H fails m c))) in
    set_ms_target m1 (match ms_target m1 with
                      | TTerm tg => TTerm (mktt 0 (tt_rl tg) (tt_align tg) (tt_below tg))
                      | t => t
                      end).

  (** the MultiState::draw calls of a sequence of MultiState method calls, each with the
      MultiState it is made on (same threading as MultiSpec.mp_run) *)
  Fixpoint mp_draws (now : N) (m : mstate) (c : N) (acts : list maction)
    : list (mstate * bool * option (list line)) :=
    match acts with
    | [] => []
    | a :: r =>
        let '(m1, _, c1, _) := mp_exec1 W H fails now m c a in
        match a with
        | ADraw force extra => [(m, force, extra)]
        | ASuspend _ => [(sus_mid m c, true, None)]
        | _ => []
        end ++ mp_draws now m1 c1 r
    end.

  (** the MultiState::draw calls of one public call *)
  Definition step_draws (s : sys) (now : N) (o : op) : list (mstate * bool * option (list line)) :=
    mp_draws now (s_mp s) (s_calls s) (op_actions W s now o).
End LRuns.

(** the reap flag of a call, computed: one of its MultiState::draw calls is attempted (not refused
    by the refresh limiter) - an attempted draw takes the dropped bars at the head off the list *)
Definition op_reaps (W H : N) (fails : N -> bool) (s : sys) (now : N) (o : op) : bool :=
  existsb (fun d => ms_attempt W (fst (fst d)) (snd (fst d)) (snd d) now) (step_draws W H fails s now o).

(** the MultiProgress draws to a terminal *)
Definition mp_visible (s : sys) : Prop := exists tg, ms_target (s_mp s) = TTerm tg.

(** text lines / bar lines *)
Definition all_text (ls : list line) : Prop := Forall (fun l => is_bar l = false) ls.
Definition all_bar (ls : list line) : Prop := Forall (fun l => is_bar l = true) ls.

(* ------------------------------------------------------------------ the invariant (statement) *)
Definition lines_at (m : mstate) (j : N) : option (list line) :=
  m_lines (nthN (ms_members m) j member_default).

Definition ent_lines (o : option lent) : option (list line) :=
  match o with Some e => Some (frame_of (le_state e)) | None => None end.


(** the text lines a call hands over through BarState::println of a MEMBER *)
Definition member_texts (s : sys) (o : op) : list line :=
  match o with
  | OPrintln b m => if is_member s b then text_lines m else []
  | _ => []
  end.

(** [quiet s b h]: along the history [h] from state [s] no call is a draw step of bar [b], a silent
    change of [b], or remove(b) - nothing touches [b] *)
Section Quiet.
  Variable W H : N.
  Variable fails : N -> bool.
  Fixpoint quiet (s : sys) (b : N) (h : list (N * op)) : Prop :=
    match h with
    | [] => True
    | (now, o) :: r =>
        (forall st, op_draw s now o <> Some (b, st)) /\ silent_change s now o b = false
        /\ o <> ORemove b /\ quiet (step_sys W H fails s now o) b r
    end.
End Quiet.
