(** Correspondence entry point of the C01 check: besides the drawing-system cases of
    SysCheck.v ([SysCase]), cases that tie the terminal model Term.v to the real vt100 crate:
    [TermCase W H ops vis cursor all top] = the TermLike call stream [ops] observed on the
    implementation (or a random one), the H visible rows and the cursor the vt100 crate showed
    after it ([None] when the vt100 crate cannot run it: it overflows on 1-row terminals), and
    all rows incl. scroll-back + index of the first visible row of the harness' reference
    terminal [sysrun::Vt] (which the screen oracles use).  Rows are right-trimmed on both sides. *)
From IndModel Require Export SysCheck Term.
Local Open Scope nat_scope.

Fixpoint drop_sp (r : row) : row :=
  match r with
  | c :: r' => if N.eqb c SP then drop_sp r' else r
  | [] => []
  end.
Definition rtrim (r : row) : row := rev (drop_sp (rev r)).

Fixpoint drop_empty (rs : list row) : list row :=
  match rs with
  | [] :: r' => drop_empty r'
  | _ => rs
  end.
Definition drop_trailing_empty (rs : list row) : list row := rev (drop_empty (rev rs)).

Inductive c01case :=
| SysCase (c : syscase)
| TermCase (W H : N) (ops : list termop) (vis : option (list text)) (cursor : N * N)
           (all : list text) (top : N).

Definition term_check (W H : N) (ops : list termop) (vis : option (list text)) (cursor : N * N)
           (all : list text) (top : N) : bool :=
  let w := N.to_nat W in
  let h := N.to_nat H in
  let tm := run_ops w h term_init ops in
  match vis with
  | Some v => list_eqb text_eqb (map rtrim (visible h tm)) v
              && N.eqb (N.of_nat (t_vis tm)) (fst cursor)
  | None => true
  end
  && N.eqb (N.of_nat (t_col tm)) (snd cursor)
  && list_eqb text_eqb (drop_trailing_empty (map rtrim (all_rows tm))) all
  && N.eqb (N.of_nat (t_top tm)) top.

Definition c01_check (c : c01case) : bool :=
  match c with
  | SysCase c => sys_check c
  | TermCase W H ops vis cursor all top => term_check W H ops vis cursor all top
  end.
