(** Correspondence entry point of the C01 check: besides the drawing-system cases of
    SysCheck.v ([SysCase]), cases that tie the terminal model Term.v to the real vt100 crate:
    [TermCase W H ops vis cursor all top] = the TermLike call stream [ops] observed on the
    implementation (or a random one), the H visible rows and the cursor the vt100 crate showed
    after it ([None] when the vt100 crate cannot run it: it overflows on 1-row terminals), and
    all rows incl. scroll-back + index of the first visible row of the harness' reference
    terminal [sysrun::Vt] (which the screen oracles use).  Rows are right-trimmed on both sides. *)
From IndModel Require Export SysCheck Term SingleBar.
Local Open Scope nat_scope.

Fixpoint drop_sp (r : row) : row :=
  match r with
  | c :: r' => if N.eqb c SP then drop_sp r' else r
  | [] => []
  end.
Definition rtrim (r : row) : row := rev (drop_sp (rev r)).

Fixpoint drop_empty (rs : list row) : list row :=
  match rs with
  | [] :: r' => drop_empty r'
  | _ => rs
  end.
Definition drop_trailing_empty (rs : list row) : list row := rev (drop_empty (rev rs)).

(** [SysCase c verdict left_fits]: a single-bar history with what the screen oracle of bin c01 said about
    it on the implementation: verdict 0 = every check passed, 1 = it failed with the class of the open
    finding 'empty-line-after-text-only-draw-swallowed' (D28), 2 = anything else (other class, panic);
    [left_fits] = the oracle stopped at a painted frame taller than the terminal (outside the proviso). *)
Inductive c01case :=
| SysCase (c : syscase) (verdict : N) (left_fits : bool)
| TermCase (W H : N) (ops : list termop) (vis : option (list text)) (cursor : N * N)
           (all : list text) (top : N).

Definition term_check (W H : N) (ops : list termop) (vis : option (list text)) (cursor : N * N)
           (all : list text) (top : N) : bool :=
  let w := N.to_nat W in
  let h := N.to_nat H in
  let tm := run_ops w h term_init ops in
  match vis with
  | Some v => list_eqb text_eqb (map rtrim (visible h tm)) v
              && N.eqb (N.of_nat (t_vis tm)) (fst cursor)
  | None => true
  end
  && N.eqb (N.of_nat (t_col tm)) (snd cursor)
  && list_eqb text_eqb (drop_trailing_empty (map rtrim (all_rows tm))) all
  && N.eqb (N.of_nat (t_top tm)) top.

(** The SPEC side of C01_screen_partial evaluated on the observed case: the hypotheses [hist_okb], [fitsb]
    of the theorem (SingleBar.v) on the case's own history, cross-checked with the oracle verdict:
    - both hypotheses hold  ->  the oracle passed (the theorem's conclusion, as judged on the real code);
    - the oracle blamed D28 ->  [hist_okb] is false (the excluded class really is the one the oracle names);
    - the oracle left Fits  ->  [fitsb] is false;  it passed without leaving Fits -> [fitsb] is true
      (the oracle's own frame heights agree with the model's [visual_line_count]). *)
Definition c01_spec_check (c : syscase) (verdict : N) (left_fits : bool) : bool :=
  let s0 := case_init c in
  let hk := hist_okb (c_W c) (c_H c) s0 (ghost_for term_init) (c_ops c) in
  let ft := fitsb (c_W c) (c_H c) s0 (c_ops c) in
  (if hk && ft then N.eqb verdict 0 else true)
  && (if N.eqb verdict 1 then negb hk else true)
  && (if left_fits then negb ft else true)
  && (if N.eqb verdict 0 && negb left_fits then ft else true).

Definition c01_check (c : c01case) : bool :=
  match c with
  | SysCase c v lf => sys_check c && c01_spec_check c v lf
  | TermCase W H ops vis cursor all top => term_check W H ops vis cursor all top
  end.

(* ------------------------------------------------------------------ entry point of the C19 check *)
(** [C19Sys c]: any drawing-system case (MultiProgress histories): trace correspondence only.
    [C19Single c verdict]: a single standalone bar on a terminal that may be LOWER than its frame, with the
    verdict of the screen oracle (sysoracle.rs) on the implementation: 0 = every check passed,
    1 = class 'empty-line-after-text-only-draw-swallowed' (D28), 3 = class
    'height-cut-leaves-cursor-mid-row' (D14), 2 = anything else.  The hypotheses of
    C19_erase_exact_partial, [hist_okb] and [no_text_cutb], are evaluated on the case's own history:
    - both hold -> the oracle passed (screen = log ++ fitting prefix after every painted call);
    - the oracle blamed D28 -> [hist_okb] is false;  it blamed D14 -> [no_text_cutb] is false. *)
Inductive c19case :=
| C19Sys (c : syscase)
| C19Single (c : syscase) (verdict : N).

Definition c19_spec_check (c : syscase) (verdict : N) : bool :=
  let s0 := case_init c in
  let hk := hist_okb (c_W c) (c_H c) s0 (ghost_for term_init) (c_ops c) in
  let nc := no_text_cutb (c_W c) (c_H c) s0 (c_ops c) in
  (if hk && nc then N.eqb verdict 0 else true)
  && (if N.eqb verdict 1 then negb hk else true)
  && (if N.eqb verdict 3 then negb nc else true).

Definition c19_check (c : c19case) : bool :=
  match c with
  | C19Sys c => sys_check c
  | C19Single c v => sys_check c && c19_spec_check c v
  end.
