(** Shared conventions of all models: machine integers as [N] with explicit
    wrap / saturation, outcomes, small list helpers.  Definitions only. *)
From Coq Require Export List NArith ZArith Bool Lia.
Export ListNotations.
Open Scope N_scope.

Definition U64 : N := 18446744073709551616.   (* 2^64 *)
Definition U64MAX : N := 18446744073709551615.
Definition U16 : N := 65536.
Definition U8 : N := 256.

Definition wrap64 (x : N) : N := x mod U64.
(* fetch_add / fetch_sub on an AtomicU64 : wrapping arithmetic *)
Definition wadd64 (a b : N) : N := (a + b) mod U64.
Definition wsub64 (a b : N) : N := (a + U64 - b mod U64) mod U64.
(* u64::saturating_add / saturating_sub *)
Definition sat_add64 (a b : N) : N := N.min U64MAX (a + b).
Definition sat_sub (a b : N) : N := a - b.          (* N subtraction truncates at 0 *)

(** Outcome of a modelled call. *)
Inductive outcome (A : Type) : Type :=
| Ok (a : A)
| Panic (site : N).
Arguments Ok {A} a.
Arguments Panic {A} site.

(** indices of the cases whose check fails; used by every correspondence file *)
Fixpoint mismatches_from {A} (chk : A -> bool) (i : N) (l : list A) : list N :=
  match l with
  | [] => []
  | x :: r => if chk x then mismatches_from chk (i + 1) r
              else i :: mismatches_from chk (i + 1) r
  end.
Definition mismatches {A} (chk : A -> bool) (l : list A) : list N := mismatches_from chk 0 l.

Definition option_eqb {A} (eqb : A -> A -> bool) (a b : option A) : bool :=
  match a, b with
  | Some x, Some y => eqb x y
  | None, None => true
  | _, _ => false
  end.

Fixpoint list_eqb {A} (eqb : A -> A -> bool) (a b : list A) : bool :=
  match a, b with
  | [], [] => true
  | x :: a', y :: b' => eqb x y && list_eqb eqb a' b'
  | _, _ => false
  end.
