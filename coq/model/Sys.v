(** The drawing system: bars (BarState/ProgressState), draw targets, the MultiProgress
    state, both rate limiters, and every public operation of ProgressBar / MultiProgress that
    the properties C01-C04, C06, C18, C19 quantify over, as one executable state machine
    producing the exact sequence of TermLike calls.

    Transcribed from src/state.rs (BarState, Drop, AtomicPosition), src/progress_bar.rs
    (the public wrappers), src/draw_target.rs (drawable, Drawable::{state,clear,draw},
    DrawStateWrapper::drop, RateLimiter, LineAdjust) and src/multi.rs (MultiState).
    Not modelled here: steady tickers (C08), the estimator (C09), tab expansion (C16),
    set_move_cursor(true), set_draw_target on a MultiProgress, resizing. Rendering is the
    template family {Lit, msg, prefix, pos, len, spinner, newline}. *)
From IndModel Require Export Draw.
From IndGen Require Import Constants.

(* ------------------------------------------------------------------ limiters *)
Record ratelimiter := mkrl { rl_interval : N; rl_cap : N; rl_prev : N }.

(* RateLimiter::new, src/draw_target.rs *)
Definition rl_new (rate now : N) : ratelimiter :=
  mkrl ((RL_INTERVAL_NUMERATOR_NS + rate - 1) / rate) RL_MAX_BURST now.

(* RateLimiter::allow *)
Definition rl_allow (r : ratelimiter) (now : N) : bool * ratelimiter :=
  if now <? rl_prev r then (false, r) else
  let elapsed := now - rl_prev r in
  if (rl_cap r =? 0) && (elapsed <? rl_interval r) then (false, r) else
  let new := elapsed / rl_interval r in
  let rem := elapsed mod rl_interval r in
  (true, mkrl (rl_interval r) ((N.min RL_MAX_BURST (rl_cap r + new) - 1) mod U8) (now - rem)).

Record apos := mkap { ap_cap : N; ap_prev : N; ap_start : N }.
Definition ap_new (now : N) : apos := mkap AP_MAX_BURST 0 now.

(* AtomicPosition::allow, src/state.rs *)
Definition ap_allow (a : apos) (now : N) : bool * apos :=
  if now <? ap_start a then (false, a) else
  let elapsed := (now - ap_start a) mod U64 in
  let diff := elapsed - ap_prev a in
  if (ap_cap a =? 0) && (diff <? AP_INTERVAL_NS) then (false, a) else
  let new := diff / AP_INTERVAL_NS in
  let rem := diff mod AP_INTERVAL_NS in
  (true, mkap ((N.min AP_MAX_BURST (ap_cap a + new) - 1) mod U8) (elapsed - rem) (ap_start a)).

(* AtomicPosition::reset (the position itself lives in the bar record) *)
Definition ap_reset (a : apos) (now : N) : apos :=
  mkap (ap_cap a) ((now - ap_start a) mod U64) (ap_start a).

(* ------------------------------------------------------------------ bars *)
Inductive status := InProgress | DoneVisible | DoneHidden.
Inductive tpart := PLit (s : text) | PMsg | PPrefix | PPos | PLen | PSpinner | PNewLine.
Inductive fin := FAndLeave | FWithMessage (m : text) | FAndClear | FAbandon | FAbandonWithMessage (m : text).

Record ttarget := mktt { tt_n : N; tt_rl : option ratelimiter; tt_align : alignment; tt_below : bool }.
Inductive target := THidden | TTerm (t : ttarget) | TMulti (idx : N).

Record bar := mkbar {
  b_pos : N; b_len : option N; b_tick : N; b_status : status;
  b_msg : text; b_prefix : text; b_tmpl : list tpart; b_on_finish : fin;
  b_ap : apos; b_target : target; b_alive : bool }.
Definition set_b_pos (x : bar) v : bar := mkbar v (b_len x) (b_tick x) (b_status x) (b_msg x) (b_prefix x) (b_tmpl x) (b_on_finish x) (b_ap x) (b_target x) (b_alive x).
Definition set_b_len (x : bar) v : bar := mkbar (b_pos x) v (b_tick x) (b_status x) (b_msg x) (b_prefix x) (b_tmpl x) (b_on_finish x) (b_ap x) (b_target x) (b_alive x).
Definition set_b_tick (x : bar) v : bar := mkbar (b_pos x) (b_len x) v (b_status x) (b_msg x) (b_prefix x) (b_tmpl x) (b_on_finish x) (b_ap x) (b_target x) (b_alive x).
Definition set_b_status (x : bar) v : bar := mkbar (b_pos x) (b_len x) (b_tick x) v (b_msg x) (b_prefix x) (b_tmpl x) (b_on_finish x) (b_ap x) (b_target x) (b_alive x).
Definition set_b_msg (x : bar) v : bar := mkbar (b_pos x) (b_len x) (b_tick x) (b_status x) v (b_prefix x) (b_tmpl x) (b_on_finish x) (b_ap x) (b_target x) (b_alive x).
Definition set_b_prefix (x : bar) v : bar := mkbar (b_pos x) (b_len x) (b_tick x) (b_status x) (b_msg x) v (b_tmpl x) (b_on_finish x) (b_ap x) (b_target x) (b_alive x).
Definition set_b_tmpl (x : bar) v : bar := mkbar (b_pos x) (b_len x) (b_tick x) (b_status x) (b_msg x) (b_prefix x) v (b_on_finish x) (b_ap x) (b_target x) (b_alive x).
Definition set_b_on_finish (x : bar) v : bar := mkbar (b_pos x) (b_len x) (b_tick x) (b_status x) (b_msg x) (b_prefix x) (b_tmpl x) v (b_ap x) (b_target x) (b_alive x).
Definition set_b_ap (x : bar) v : bar := mkbar (b_pos x) (b_len x) (b_tick x) (b_status x) (b_msg x) (b_prefix x) (b_tmpl x) (b_on_finish x) v (b_target x) (b_alive x).
Definition set_b_target (x : bar) v : bar := mkbar (b_pos x) (b_len x) (b_tick x) (b_status x) (b_msg x) (b_prefix x) (b_tmpl x) (b_on_finish x) (b_ap x) v (b_alive x).
Definition set_b_alive (x : bar) v : bar := mkbar (b_pos x) (b_len x) (b_tick x) (b_status x) (b_msg x) (b_prefix x) (b_tmpl x) (b_on_finish x) (b_ap x) (b_target x) v.

Definition finished (b : bar) : bool :=
  match b_status b with InProgress => false | _ => true end.

(* format_state restricted to the template family (src/style.rs:227-418).
   tick strings are "0123456789X" (tick_chars): spinner = tick mod 10, 'X' once finished *)
Definition expand (p : tpart) (b : bar) : text :=
  match p with
  | PLit s => s
  | PMsg => b_msg b
  | PPrefix => b_prefix b
  | PPos => decimal (b_pos b)
  | PLen => decimal (match b_len b with Some l => l | None => b_pos b end)
  | PSpinner => if finished b then [88] else [48 + (b_tick b) mod 10]
  | PNewLine => []
  end.

Definition push_line (cur : text) : list line := map (mkline KBar) (split_nl cur).

Fixpoint render_parts (ps : list tpart) (b : bar) (cur : text) (acc : list line) : list line :=
  match ps with
  | [] => match cur with [] => acc | _ => acc ++ push_line cur end
  | PNewLine :: r => render_parts r b [] (acc ++ push_line cur)
  | p :: r => render_parts r b (cur ++ expand p b) acc
  end.

Definition render (b : bar) : list line := render_parts (b_tmpl b) b [] [].

(* the bar lines a draw produces: nothing once finished-and-cleared *)
Definition frame_of (b : bar) : list line :=
  match b_status b with DoneHidden => [] | _ => render b end.

(* println: msg.lines() as Text lines, an empty message still prints one (Empty) line *)
Definition text_lines (msg : text) : list line :=
  match lines_of msg with
  | [] => [mkline KEmpty []]
  | ls => map (mkline KText) ls
  end.

(* ------------------------------------------------------------------ multi *)
Record member := mkmem { m_lines : option (list line); m_zombie : bool }.
Definition member_default : member := mkmem None false.

Record mstate := mkms {
  ms_members : list member; ms_free : list N (* stack: head = last pushed *);
  ms_order : list N; ms_align : alignment; ms_orphans : list line;
  ms_zombie_lines : N; ms_target : target }.
Definition set_ms_members (x : mstate) v : mstate := mkms v (ms_free x) (ms_order x) (ms_align x) (ms_orphans x) (ms_zombie_lines x) (ms_target x).
Definition set_ms_free (x : mstate) v : mstate := mkms (ms_members x) v (ms_order x) (ms_align x) (ms_orphans x) (ms_zombie_lines x) (ms_target x).
Definition set_ms_order (x : mstate) v : mstate := mkms (ms_members x) (ms_free x) v (ms_align x) (ms_orphans x) (ms_zombie_lines x) (ms_target x).
Definition set_ms_align (x : mstate) v : mstate := mkms (ms_members x) (ms_free x) (ms_order x) v (ms_orphans x) (ms_zombie_lines x) (ms_target x).
Definition set_ms_orphans (x : mstate) v : mstate := mkms (ms_members x) (ms_free x) (ms_order x) (ms_align x) v (ms_zombie_lines x) (ms_target x).
Definition set_ms_zombie_lines (x : mstate) v : mstate := mkms (ms_members x) (ms_free x) (ms_order x) (ms_align x) (ms_orphans x) v (ms_target x).
Definition set_ms_target (x : mstate) v : mstate := mkms (ms_members x) (ms_free x) (ms_order x) (ms_align x) (ms_orphans x) (ms_zombie_lines x) v.

Record sys := mksys { s_bars : list bar; s_mp : mstate; s_calls : N }.
Definition set_s_bars (x : sys) v : sys := mksys v (s_mp x) (s_calls x).
Definition set_s_mp (x : sys) v : sys := mksys (s_bars x) v (s_calls x).
Definition set_s_calls (x : sys) v : sys := mksys (s_bars x) (s_mp x) v.

Definition nthN {A} (l : list A) (i : N) (d : A) : A := nth (N.to_nat i) l d.
Fixpoint updN {A} (l : list A) (i : nat) (f : A -> A) : list A :=
  match l, i with
  | [], _ => []
  | x :: r, O => f x :: r
  | x :: r, S i' => x :: updN r i' f
  end.
Definition memN (x : N) (l : list N) : bool := existsb (N.eqb x) l.
Fixpoint posN (x : N) (l : list N) : option nat :=
  match l with
  | [] => None
  | y :: r => if N.eqb x y then Some O else option_map S (posN x r)
  end.
Fixpoint insert_at {A} (l : list A) (i : nat) (x : A) : list A :=
  match i, l with
  | O, _ => x :: l
  | S i', [] => [x]
  | S i', y :: r => y :: insert_at r i' x
  end.

Definition bar_default : bar :=
  mkbar 0 None 0 InProgress [] [] [] FAndClear (mkap 0 0 0) THidden false.
Definition get_bar (s : sys) (b : N) : bar := nthN (s_bars s) b bar_default.
Definition upd_bar (s : sys) (b : N) (f : bar -> bar) : sys :=
  set_s_bars s (updN (s_bars s) (N.to_nat b) f).

Section WithTerminal.
  (** terminal size and the fault oracle: call number k (counting every fallible TermLike call
      of the run) fails iff [fails k] *)
  Variable W H : N.
  Variable fails : N -> bool.

  (* a sequence of calls joined by `?`: stops at the first failure *)
  Fixpoint emit (c : N) (ops : list termop) : list termop * N * bool :=
    match ops with
    | [] => ([], c, true)
    | o :: r => if fails c then ([], c + 1, false)
                else let '(e, c', ok) := emit (c + 1) r in (o :: e, c', ok)
    end.

  (* independent calls whose results are ignored (the closure passed to suspend) *)
  Fixpoint emit_each (c : N) (ops : list termop) : list termop * N :=
    match ops with
    | [] => ([], c)
    | o :: r => let '(e, c') := emit_each (c + 1) r in
                if fails c then (e, c') else (o :: e, c')
    end.

  (* drawable(force, now) for a Term/TermLike target: force || limiter.allow(now) *)
  Definition tt_allow (t : ttarget) (force : bool) (now : N) : bool * ttarget :=
    if force then (true, t) else
    match tt_rl t with
    | None => (true, t)
    | Some r => let '(a, r') := rl_allow r now in (a, mktt (tt_n t) (Some r') (tt_align t) (tt_below t))
    end.

  (* Drawable::draw for a Term/TermLike target: on a failed terminal call last_line_count keeps its
     old value CAPPED at the terminal height (draw_to_term caps `*bar_count` in place before its first
     fallible call, fix 7d42cff); it is set to the new count only on success *)
  Definition term_draw (t : ttarget) (ls : list line) (c : N) : ttarget * list termop * N * bool :=
    let '(ops, n', below') := draw_to_term ls (tt_n t) (tt_align t) (tt_below t) W H in
    let '(e, c', ok) := emit c ops in
    (mktt (if ok then n' else N.min (tt_n t) H) (tt_rl t) (tt_align t) (if ok then below' else tt_below t), e, c', ok).

  Definition tt_adjust_clear (t : ttarget) (k : N) : ttarget := mktt (tt_n t + k) (tt_rl t) (tt_align t) (tt_below t).
  Definition tt_adjust_keep (t : ttarget) (k : N) : ttarget := mktt (tt_n t - k) (tt_rl t) (tt_align t) (tt_below t).

  (* ProgressDrawTarget::adjust_last_line_count: only Term/TermLike targets *)
  Definition target_adjust_keep (t : target) (k : N) : target :=
    match t with TTerm tg => TTerm (tt_adjust_keep tg k) | _ => t end.

  (* ProgressDrawTarget::last_line_count *)
  Definition target_n (t : target) : N :=
    match t with TTerm tg => tt_n tg | _ => 0 end.

  Definition ms_width (m : mstate) : option N :=
    match ms_target m with TTerm _ => Some W | _ => None end.

  Definition member_vlc (mem : member) (w : N) : N :=
    match m_lines mem with Some ls => visual_line_count ls w | None => 0 end.

  (* MultiState::remove_idx *)
  Definition ms_remove_idx (m : mstate) (idx : N) : mstate :=
    if memN idx (ms_free m) then m else
    set_ms_order
      (set_ms_free (set_ms_members m (updN (ms_members m) (N.to_nat idx) (fun _ => member_default)))
                   (idx :: ms_free m))
      (filter (fun x => negb (N.eqb x idx)) (ms_order m)).

  (* the consecutive zombies at the head of the ordering *)
  Fixpoint head_zombies (order : list N) (mems : list member) : list N :=
    match order with
    | [] => []
    | i :: r => if m_zombie (nthN mems i member_default) then i :: head_zombies r mems else []
    end.

  Definition member_lines (mems : list member) (i : N) : list line :=
    match m_lines (nthN mems i member_default) with Some ls => ls | None => [] end.

  (* MultiState::draw, src/multi.rs (after fix commits 7be6e32 and bae6780) *)
  Definition ms_draw (m : mstate) (force : bool) (extra : option (list line)) (now c : N)
    : mstate * list termop * N * bool :=
    match ms_target m with
    | TTerm tg =>
        let zs := head_zombies (ms_order m) (ms_members m) in
        let adj := fold_left (fun a i => a + member_vlc (nthN (ms_members m) i member_default) W) zs 0 in
        (* println of the MultiProgress or of a member: erase the kept zombie rows as well *)
        let has_text := match extra with Some _ => true | None => false end
                        || negb (match ms_orphans m with [] => true | _ => false end) in
        let '(tg1, zl1) := if has_text then (tt_adjust_clear tg (ms_zombie_lines m), 0)
                           else (tg, ms_zombie_lines m) in
        let force' := force || (0 <? visual_line_count (ms_orphans m) W) in
        let '(allowed, tg2) := tt_allow tg1 force' now in
        if negb allowed then
          (set_ms_target (set_ms_zombie_lines m zl1) (TTerm tg2), [], c, true)
        else
          let tg2a := mktt (tt_n tg2) (tt_rl tg2) (ms_align m) (tt_below tg2) in
          let ls := match extra with Some e => e | None => [] end
                    ++ ms_orphans m
                    ++ concat (map (member_lines (ms_members m)) (ms_order m)) in
          let '(tg3, e, c', ok) := term_draw tg2a ls c in
          let m1 := set_ms_target (set_ms_zombie_lines (set_ms_orphans m []) zl1) (TTerm tg3) in
          let m2 := fold_left ms_remove_idx zs m1 in
          (* only rows that have been drawn can be kept: min adj last_line_count *)
          let adj' := N.min adj (target_n (ms_target m2)) in
          let m3 := if has_text then m2
                    else set_ms_zombie_lines
                           (set_ms_target m2 (target_adjust_keep (ms_target m2) adj'))
                           (ms_zombie_lines m2 + adj') in
          (m3, e, c', ok)
    | _ => (m, [], c, true)
    end.

  (* MultiState::clear *)
  Definition ms_clear (m : mstate) (c : N) : mstate * list termop * N * bool :=
    match ms_target m with
    | TTerm tg =>
        let tg1 := tt_adjust_clear tg (ms_zombie_lines m) in
        let '(tg2, e, c', ok) := term_draw tg1 [] c in
        (set_ms_target (set_ms_zombie_lines m 0) (TTerm tg2), e, c', ok)
    | _ => (m, [], c, true)
    end.

  (* MultiState::suspend: clear, run the closure, forced draw; results discarded *)
  Definition ms_suspend (m : mstate) (writes : list text) (now c : N) : mstate * list termop * N :=
    let '(m1, e1, c1, _) := ms_clear m c in
    (* fix 96a75c4: Keep(usize::MAX) - rows kept by a bottom-aligned clear are not erased again *)
    let m1 := set_ms_target m1 (match ms_target m1 with
                                | TTerm tg => TTerm (mktt 0 (tt_rl tg) (tt_align tg) (tt_below tg))
                                | t => t
                                end) in
    let '(e2, c2) := emit_each c1 (map TLine writes) in
    let '(m3, e3, c3, _) := ms_draw m1 true None now c2 in
    (m3, e1 ++ e2 ++ e3, c3).

  (* MultiState::mark_zombie *)
  Definition ms_mark_zombie (m : mstate) (idx : N) : mstate :=
    match ms_order m with
    | [] => m  (* `.first().unwrap()` – unreachable: a member being dropped is in the ordering *)
    | first :: _ =>
        if negb (N.eqb idx first) then
          set_ms_members m (updN (ms_members m) (N.to_nat idx)
                                 (fun mem => mkmem (m_lines mem) true))
        else
          let lc := match ms_width m with
                    | Some w => member_vlc (nthN (ms_members m) idx member_default) w
                    | None => 0
                    end in
          let lc := N.min lc (target_n (ms_target m)) in
          ms_remove_idx
            (set_ms_target (set_ms_zombie_lines m (ms_zombie_lines m + lc))
                           (target_adjust_keep (ms_target m) lc))
            idx
    end.

  Inductive iloc := LEnd | LIndex (i : N) | LFromBack (i : N) | LAfter (idx : N) | LBefore (idx : N).

  (* MultiState::insert; None = the `.unwrap()` on a missing reference index would panic *)
  Definition ms_insert (m : mstate) (loc : iloc) : option (mstate * N) :=
    let '(m1, idx) :=
      match ms_free m with
      | i :: fr => (set_ms_free (set_ms_members m (updN (ms_members m) (N.to_nat i) (fun _ => member_default))) fr, i)
      | [] => (set_ms_members m (ms_members m ++ [member_default]), N.of_nat (length (ms_members m)))
      end in
    let ord := ms_order m1 in
    let n := length ord in
    match loc with
    | LEnd => Some (set_ms_order m1 (ord ++ [idx]), idx)
    | LIndex p => Some (set_ms_order m1 (insert_at ord (Nat.min (N.to_nat p) n) idx), idx)
    | LFromBack p => Some (set_ms_order m1 (insert_at ord (n - N.to_nat p) idx), idx)
    | LAfter r => match posN r ord with
                  | Some p => Some (set_ms_order m1 (insert_at ord (S p) idx), idx)
                  | None => None
                  end
    | LBefore r => match posN r ord with
                   | Some p => Some (set_ms_order m1 (insert_at ord p idx), idx)
                   | None => None
                   end
    end.

  (* ------------------------------------------------------------------ bar-level drawing *)
  (* Drawable::state() for a member: get_or_insert + reset, then the lines are stored;
     DrawStateWrapper::drop moves Text/Empty lines to orphan_lines and keeps the Bar lines *)
  Definition ms_store (m : mstate) (idx : N) (texts bars : list line) : mstate :=
    set_ms_orphans
      (set_ms_members m (updN (ms_members m) (N.to_nat idx) (fun mem => mkmem (Some bars) (m_zombie mem))))
      (ms_orphans m ++ texts).

  (* BarState::draw *)
  Definition bar_draw (s : sys) (b : N) (force : bool) (now : N) : sys * list termop :=
    let br := get_bar s b in
    let force' := force || finished br in
    match b_target br with
    | THidden => (s, [])
    | TTerm tg =>
        let '(allowed, tg1) := tt_allow tg force' now in
        if negb allowed then (upd_bar s b (fun x => set_b_target x (TTerm tg1)), [])
        else
          let '(tg2, e, c', _) := term_draw tg1 (frame_of br) (s_calls s) in
          (set_s_calls (upd_bar s b (fun x => set_b_target x (TTerm tg2))) c', e)
    | TMulti idx =>
        let m := s_mp s in
        let bars := match ms_width m with Some _ => frame_of br | None => [] end in
        let '(m2, e, c', _) := ms_draw (ms_store m idx [] bars) force' None now (s_calls s) in
        (set_s_calls (set_s_mp s m2) c', e)
    end.

  (* BarState::println *)
  Definition bar_println (s : sys) (b : N) (msg : text) (now : N) : sys * list termop :=
    let br := get_bar s b in
    match b_target br with
    | THidden => (s, [])
    | TTerm tg =>
        let '(tg2, e, c', _) := term_draw tg (text_lines msg ++ frame_of br) (s_calls s) in
        (set_s_calls (upd_bar s b (fun x => set_b_target x (TTerm tg2))) c', e)
    | TMulti idx =>
        let m := s_mp s in
        let bars := match ms_width m with Some _ => frame_of br | None => [] end in
        let '(m2, e, c', _) := ms_draw (ms_store m idx (text_lines msg) bars) true None now (s_calls s) in
        (set_s_calls (set_s_mp s m2) c', e)
    end.

  (* BarState::suspend *)
  Definition bar_suspend (s : sys) (b : N) (writes : list text) (now : N) : sys * list termop :=
    let br := get_bar s b in
    match b_target br with
    | TMulti _ =>
        let '(m2, e, c') := ms_suspend (s_mp s) writes now (s_calls s) in
        (set_s_calls (set_s_mp s m2) c', e)
    | THidden =>
        let '(e, c') := emit_each (s_calls s) (map TLine writes) in
        (set_s_calls s c', e)
    | TTerm tg =>
        let '(tg1, e1, c1, _) := term_draw tg [] (s_calls s) in
        let '(e2, c2) := emit_each c1 (map TLine writes) in
        let s1 := set_s_calls (upd_bar s b (fun x => set_b_target x (TTerm tg1))) c2 in
        let '(s2, e3) := bar_draw s1 b true now in
        (s2, e1 ++ e2 ++ e3)
    end.

  (* BarState::tick = tick += 1 (saturating); update_estimate_and_draw *)
  Definition bar_tick (s : sys) (b : N) (now : N) : sys * list termop :=
    bar_draw (upd_bar s b (fun x => set_b_tick x (sat_add64 (b_tick x) 1))) b false now.

  (* ProgressBar::{inc,dec,set_position}: position first, then tick if the position limiter allows *)
  Definition bar_pos_update (s : sys) (b : N) (f : N -> N) (now : N) : sys * list termop :=
    let s1 := upd_bar s b (fun x => set_b_pos x (f (b_pos x))) in
    let '(a, ap') := ap_allow (b_ap (get_bar s1 b)) now in
    let s2 := upd_bar s1 b (fun x => set_b_ap x ap') in
    if a then bar_tick s2 b now else (s2, []).

  (* BarState::finish_using_style *)
  Definition bar_finish (s : sys) (b : N) (k : fin) (now : N) : sys * list termop :=
    let to_len x := match b_len x with Some l => set_b_pos x l | None => x end in
    let f x :=
      match k with
      | FAndLeave => set_b_status (to_len x) DoneVisible
      | FWithMessage m => set_b_msg (set_b_status (to_len x) DoneVisible) m
      | FAndClear => set_b_status (to_len x) DoneHidden
      | FAbandon => set_b_status x DoneVisible
      | FAbandonWithMessage m => set_b_msg (set_b_status x DoneVisible) m
      end in
    bar_draw (upd_bar s b f) b true now.

  Definition mark_zombie (s : sys) (b : N) : sys :=
    match b_target (get_bar s b) with
    | TMulti idx => set_s_mp s (ms_mark_zombie (s_mp s) idx)
    | _ => s
    end.

  (* Drop for BarState (last handle dropped) *)
  Definition bar_drop (s : sys) (b : N) (now : N) : sys * list termop :=
    let br := get_bar s b in
    let '(s1, e) := if finished br then (s, []) else bar_finish s b (b_on_finish br) now in
    (upd_bar (mark_zombie s1 b) b (fun x => set_b_alive x false), e).

  (* ProgressBar::set_draw_target: disconnect the old target, then replace it *)
  Definition bar_set_target (s : sys) (b : N) (t : target) (now : N) : sys * list termop :=
    let '(s1, e) :=
      match b_target (get_bar s b) with
      | TMulti idx0 =>
          let '(m2, e, c', _) := ms_draw (ms_store (s_mp s) idx0 [] []) true None now (s_calls s) in
          (set_s_calls (set_s_mp s m2) c', e)
      | _ => (s, [])
      end in
    (upd_bar s1 b (fun x => set_b_target x t), e).

  (* insert locations as the public API names them: After/Before refer to another bar handle *)
  Inductive bloc := BEnd | BIndex (i : N) | BFromBack (i : N) | BAfter (r : N) | BBefore (r : N).

  Inductive op :=
  | OTick (b : N) | OInc (b d : N) | ODec (b d : N) | OSetPos (b p : N)
  | OSetLen (b l : N) | OIncLen (b d : N) | ODecLen (b d : N) | OUnsetLen (b : N)
  | OSetMsg (b : N) (m : text) | OSetPrefix (b : N) (m : text) | OSetStyle (b : N) (t : list tpart)
  | OPrintln (b : N) (m : text) | OSuspend (b : N) (ws : list text)
  | OReset (b : N) | OResetEta (b : N) | OResetElapsed (b : N)
  | OFinish (b : N) (k : fin) | OFinishUsingStyle (b : N)
  | OForceDraw (b : N) | OSetTabWidth (b : N)
  | ODrop (b : N)
  | OInsert (loc : bloc) (b : N) | ORemove (b : N)
  | OMPrintln (m : text) | OMSuspend (ws : list text) | OMClear | OSetAlign (a : alignment).

  (** One public call at (mock) time [now]. Returns the new state, the TermLike calls that
      reached the terminal, and the io::Result of the call (true = Ok; only
      MultiProgress::{println,clear} report one). Calls on dropped handles do not exist. *)
  Definition step (s : sys) (now : N) (o : op) : sys * list termop * bool :=
    let ok2 (r : sys * list termop) := (fst r, snd r, true) in
    match o with
    | OTick b => ok2 (bar_tick s b now)
    | OInc b d => ok2 (bar_pos_update s b (fun p => wadd64 p d) now)
    | ODec b d => ok2 (bar_pos_update s b (fun p => wsub64 p d) now)
    | OSetPos b p => ok2 (bar_pos_update s b (fun _ => p) now)
    | OSetLen b l => ok2 (bar_draw (upd_bar s b (fun x => set_b_len x (Some l))) b false now)
    | OIncLen b d => ok2 (bar_draw (upd_bar s b (fun x => set_b_len x (option_map (fun l => sat_add64 l d) (b_len x)))) b false now)
    | ODecLen b d => ok2 (bar_draw (upd_bar s b (fun x => set_b_len x (option_map (fun l => sat_sub l d) (b_len x)))) b false now)
    | OUnsetLen b => ok2 (bar_draw (upd_bar s b (fun x => set_b_len x None)) b false now)
    | OSetMsg b m => ok2 (bar_draw (upd_bar s b (fun x => set_b_msg x m)) b false now)
    | OSetPrefix b m => ok2 (bar_draw (upd_bar s b (fun x => set_b_prefix x m)) b false now)
    | OSetStyle b t => (upd_bar s b (fun x => set_b_tmpl x t), [], true)
    | OPrintln b m => ok2 (bar_println s b m now)
    | OSuspend b ws => ok2 (bar_suspend s b ws now)
    | OReset b =>
        ok2 (bar_draw (upd_bar s b (fun x =>
               set_b_status (set_b_ap (set_b_pos x 0) (ap_reset (b_ap x) now)) InProgress)) b false now)
    | OResetEta b | OResetElapsed b => (s, [], true)
    | OFinish b k => ok2 (bar_finish s b k now)
    | OFinishUsingStyle b => ok2 (bar_finish s b (b_on_finish (get_bar s b)) now)
    | OForceDraw b | OSetTabWidth b => ok2 (bar_draw s b true now)
    | ODrop b => ok2 (bar_drop s b now)
    | OInsert bl b =>
        (* fix bee77c9: adding a bar that is already a member of the MultiProgress has no effect *)
        match b_target (get_bar s b) with TMulti _ => (s, [], true) | _ =>
        let loc :=
          match bl with
          | BEnd => Some LEnd
          | BIndex i => Some (LIndex i)
          | BFromBack i => Some (LFromBack i)
          | BAfter r => match b_target (get_bar s r) with TMulti i => Some (LAfter i) | _ => None end
          | BBefore r => match b_target (get_bar s r) with TMulti i => Some (LBefore i) | _ => None end
          end in
        match match loc with Some l => ms_insert (s_mp s) l | None => None end with
        | Some (m1, idx) => ok2 (bar_set_target (set_s_mp s m1) b (TMulti idx) now)
        | None => (s, [], true)   (* API misuse: reference bar is not a member (panics) - not generated *)
        end
        end
    | ORemove b =>
        (* MultiProgress::remove (after fix dbf4cde): hide the bar, free its slot, forced redraw *)
        match b_target (get_bar s b) with
        | TMulti idx =>
            let s1 := upd_bar s b (fun x => set_b_target x THidden) in
            let '(m2, e, c', _) := ms_draw (ms_remove_idx (s_mp s1) idx) true None now (s_calls s1) in
            (set_s_calls (set_s_mp s1 m2) c', e, true)
        | _ => (s, [], true)
        end
    | OMPrintln m =>
        let ls := match m with [] => [mkline KEmpty []] | _ => map (mkline KText) (lines_of m) end in
        let '(m2, e, c', ok) := ms_draw (s_mp s) true (Some ls) now (s_calls s) in
        (set_s_calls (set_s_mp s m2) c', e, ok)
    | OMSuspend ws =>
        let '(m2, e, c') := ms_suspend (s_mp s) ws now (s_calls s) in
        (set_s_calls (set_s_mp s m2) c', e, true)
    | OMClear =>
        let '(m2, e, c', ok) := ms_clear (s_mp s) (s_calls s) in
        (set_s_calls (set_s_mp s m2) c', e, ok)
    | OSetAlign a => (set_s_mp s (set_ms_align (s_mp s) a), [], true)
    end.

End WithTerminal.

(* initial configurations *)
Definition new_bar (len : option N) (fk : fin) (tm : list tpart) (t : target) (now : N) : bar :=
  mkbar 0 len 0 InProgress [] [] tm fk (ap_new now) t true.
Definition new_ttarget (rate : option N) (now : N) : ttarget :=
  mktt 0 (option_map (fun r => rl_new r now) rate) Top false.
Definition new_ms (t : target) : mstate := mkms [] [] [] Top [] 0 t.
