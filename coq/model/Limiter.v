(** C05 – redraw throttling.  Executable model, definitions only.

    Transcribes (tree at /repo HEAD 7d42cff, i.e. after fix commits e4a1051 and 3894c8b)
      - RateLimiter::{new,allow}            src/draw_target.rs:441-493
      - AtomicPosition::{new,allow,reset}   src/state.rs:547-619
      - the request paths that feed them    src/progress_bar.rs:231-258, 295-301, 309-311,
                                            337-341, 366-368
                                            src/state.rs:74-98 (reset), 143-157 (tick,
                                            update_estimate_and_draw), 200-223 (draw)
                                            src/draw_target.rs:162-208 (drawable)
                                            src/multi.rs:286-382 (MultiState::draw),
                                            386-393 (draw_state)
    Instants are integer nanoseconds (the mock clock of src/verif_clock.rs is a u64 of
    nanoseconds; std::time::Instant has the same resolution).  Machine integers are [N]
    with every cast / saturation / possible panic written out. *)
From IndModel Require Export Base.
From IndGen Require Import Constants.

(** * RateLimiter (one per draw target) *)

(* struct RateLimiter { interval: u32 /* ns */, capacity: u8, prev: Instant }
   draw_target.rs:441-446 *)
Record rl := mk_rl { rl_interval : N; rl_cap : N; rl_prev : N }.

(* draw_target.rs:454  interval: (1_000_000_000 + (rate as u32) - 1) / (rate as u32)
   u32 arithmetic; for rate in 1..=255 the numerator is < 2^32 (no wrap); rate = 0 is a
   documented panic (division by zero) and outside the property's domain. *)
Definition rl_interval_of (rate : N) : N := (RL_INTERVAL_NUMERATOR_NS + rate - 1) / rate.

(* draw_target.rs:450-458  RateLimiter::new – reads the clock *)
Definition rl_new (rate now : N) : rl :=
  {| rl_interval := rl_interval_of rate; rl_cap := RL_MAX_BURST; rl_prev := now |}.

(* draw_target.rs:460-490  RateLimiter::allow.
   Panic 1 = the `- 1` at line 483 underflows (u128; debug builds panic, release builds
             would wrap and store 255);
   Panic 2 = `checked_sub(..).unwrap()` at lines 486-488 is None. *)
Definition rl_allow (s : rl) (now : N) : outcome (rl * bool) :=
  if now <? rl_prev s then Ok (s, false)                          (* 461-463 *)
  else
    let elapsed := now - rl_prev s in                             (* 465 *)
    if (rl_cap s =? 0) && (elapsed <? rl_interval s)              (* 469 *)
    then Ok (s, false)                                            (* 470 *)
    else
      let new := elapsed / rl_interval s in                       (* 477 *)
      let remainder := elapsed mod rl_interval s in               (* 478 *)
      let m := N.min RL_MAX_BURST (rl_cap s + new) in             (* 483, u128 *)
      if m =? 0 then Panic 1                                      (* 483: `- 1` *)
      else if now <? remainder mod U64 then Panic 2               (* 486-488 *)
      else Ok ({| rl_interval := rl_interval s;
                  rl_cap := (m - 1) mod U8;                       (* 483: `as u8` *)
                  rl_prev := now - remainder mod U64 |},          (* 487: `as u64` *)
               true).                                             (* 489 *)

(** * AtomicPosition's limiter (one per bar) *)

(* struct AtomicPosition { pos, capacity: AtomicU8, prev: AtomicU64 /* ns after start */,
   start: Instant }   state.rs:547-552 *)
Record ap := mk_ap { ap_cap : N; ap_prev : N; ap_start : N }.

(* state.rs:555-562 *)
Definition ap_new (now : N) : ap := {| ap_cap := AP_MAX_BURST; ap_prev := 0; ap_start := now |}.

(* state.rs:564-597  AtomicPosition::allow (single caller; the two atomics are read and
   written as one step – concurrent callers are outside the property, see docs/C05.md).
   Panic 3 = the `- 1` at line 591 underflows; Panic 4 = `elapsed - remainder` at line 595
   underflows (u64, overflow checks on). *)
Definition ap_allow (s : ap) (now : N) : outcome (ap * bool) :=
  if now <? ap_start s then Ok (s, false)                         (* 565-567 *)
  else
    let capacity := ap_cap s in                                   (* 569 *)
    let prev := ap_prev s in                                      (* 571 *)
    let elapsed := (now - ap_start s) mod U64 in                  (* 573: as_nanos() as u64 *)
    let diff := sat_sub elapsed prev in                           (* 575 *)
    if (capacity =? 0) && (diff <? AP_INTERVAL_NS)                (* 580 *)
    then Ok (s, false)                                            (* 581 *)
    else
      let new := diff / AP_INTERVAL_NS in                         (* 588 *)
      let remainder := diff mod AP_INTERVAL_NS in                 (* 588 *)
      let m := N.min AP_MAX_BURST (capacity + new) in             (* 591, u128 *)
      if m =? 0 then Panic 3                                      (* 591: `- 1` *)
      else if elapsed <? remainder then Panic 4                   (* 595 *)
      else Ok ({| ap_cap := (m - 1) mod U8;                       (* 591: `as u8`, 594 *)
                  ap_prev := elapsed - remainder;                 (* 595 *)
                  ap_start := ap_start s |},
               true).                                             (* 596 *)

(* state.rs:599-603  AtomicPosition::reset – position to 0 (modelled in the bar below) and
   prev := saturating_duration_since(start).as_nanos() as u64; capacity is left alone. *)
Definition ap_reset (s : ap) (now : N) : ap :=
  {| ap_cap := ap_cap s; ap_prev := (now - ap_start s) mod U64; ap_start := ap_start s |}.

(** * Runs of one limiter over a list of request instants (verdict sequences) *)

Fixpoint rl_run (s : rl) (ts : list N) : list (outcome bool) :=
  match ts with
  | [] => []
  | t :: r => match rl_allow s t with
              | Panic k => [Panic k]
              | Ok (s', v) => Ok v :: rl_run s' r
              end
  end.

(* requests and reset() calls on a position limiter *)
Inductive apop := AReq (t : N) | ARst (t : N).

Fixpoint ap_run (s : ap) (ops : list apop) : list (outcome bool) :=
  match ops with
  | [] => []
  | AReq t :: r => match ap_allow s t with
                   | Panic k => [Panic k]
                   | Ok (s', v) => Ok v :: ap_run s' r
                   end
  | ARst t :: r => Ok false :: ap_run (ap_reset s t) r
  end.

(** * A bar (or the bars of a MultiProgress) in front of a draw target *)

(* what a painted row shows: the template used by the tie is "{pos}/{len}/{msg}/{prefix}"; the
   model keeps the first three fields (the prefix is compared by the harness oracle only) *)
Definition frame := (N * N * N)%type.

(* per bar: the live ProgressState fields that are rendered, the bar's position limiter, and –
   for a member of a MultiProgress – the member's stored DrawState (multi.rs:396-403, 497-501), i.e. what
   the bar looked like at its most recent draw request, painted or not. *)
Record mbar := mk_mbar { m_pos : N; m_len : N; m_msg : N; m_ap : ap; m_shown : option frame }.

Definition live (b : mbar) : frame := (m_pos b, m_len b, m_msg b).

(* s_multi = false: one stand-alone bar on ProgressDrawTarget::term_like[_with_hz];
   s_multi = true : the bars are members of one MultiProgress over that target.
   s_rl = None: term_like() without a limiter (draw_target.rs:88-97, `map_or(true, ..)`). *)
Record sys := mk_sys { s_multi : bool; s_rl : option rl; s_bars : list mbar }.

Inductive bop :=
| OInc (d : N) | ODec (d : N) | OSetPos (p : N)     (* progress_bar.rs:243-258, 295-301 *)
| OTick                                             (* progress_bar.rs:231-240 *)
| OSetMsg (m : N) | OSetLen (l : N)                 (* progress_bar.rs:337-341, 309-311 *)
| OSetPrefix (p : N)                                (* progress_bar.rs:327-331: a draw step like
                                                       set_message; the prefix is not part of a
                                                       [frame] row, the harness oracle checks it *)
| OReset.                                           (* progress_bar.rs:366-368, state.rs:74-98 *)

Fixpoint set_nth {A} (i : nat) (x : A) (l : list A) : list A :=
  match l, i with
  | [], _ => []
  | _ :: r, O => x :: r
  | y :: r, S j => y :: set_nth j x r
  end.

Definition shown_rows (bars : list mbar) : list frame :=
  flat_map (fun b => match m_shown b with Some f => [f] | None => [] end) bars.

(* draw_target.rs:197  `force_draw || rate_limiter.as_mut().map_or(true, |r| r.allow(now))`
   with force_draw = false *)
Definition rl_opt_allow (r : option rl) (now : N) : outcome (option rl * bool) :=
  match r with
  | None => Ok (None, true)
  | Some r => match rl_allow r now with
              | Ok (r', v) => Ok (Some r', v)
              | Panic k => Panic k
              end
  end.

(* BarState::draw(false, now) of an unfinished bar (state.rs:200-223): [b] is bar [i] with the
   caller's state change already applied.
   stand-alone: ask the limiter; if allowed render the LIVE state and paint (one flush).
   member of a multi: drawable() is always Some (draw_target.rs:183-191), the member's DrawState
   is re-rendered from the live state first (state.rs:212-219), then MultiState::draw asks the
   multi's limiter (multi.rs:341) and paints the stored rows of all members in order
   (multi.rs:356-361). *)
Definition sys_request (s : sys) (i : nat) (b : mbar) (now : N)
  : outcome (sys * option (list frame)) :=
  if s_multi s then
    let b' := mk_mbar (m_pos b) (m_len b) (m_msg b) (m_ap b) (Some (live b)) in
    let bars' := set_nth i b' (s_bars s) in
    match rl_opt_allow (s_rl s) now with
    | Panic k => Panic k
    | Ok (r', v) => Ok (mk_sys true r' bars', if v then Some (shown_rows bars') else None)
    end
  else
    match rl_opt_allow (s_rl s) now with
    | Panic k => Panic k
    | Ok (r', v) => Ok (mk_sys false r' (set_nth i b (s_bars s)), if v then Some [live b] else None)
    end.

(* inc/dec/set_position: the position is stored first, then `if self.pos.allow(now)
   { self.tick_inner(now) }` (progress_bar.rs:243-258, 295-301).
   Output: (did the update reach BarState::tick, painted frame). *)
Definition via_ap (s : sys) (i : nat) (b : mbar) (now : N)
  : outcome (sys * (bool * option (list frame))) :=
  match ap_allow (m_ap b) now with
  | Panic k => Panic k
  | Ok (a', false) =>
      Ok (mk_sys (s_multi s) (s_rl s)
                 (set_nth i (mk_mbar (m_pos b) (m_len b) (m_msg b) a' (m_shown b)) (s_bars s)),
          (false, None))
  | Ok (a', true) =>
      match sys_request s i (mk_mbar (m_pos b) (m_len b) (m_msg b) a' (m_shown b)) now with
      | Panic k => Panic k
      | Ok (s', fr) => Ok (s', (true, fr))
      end
  end.

Definition with_pos (b : mbar) (p : N) : mbar := mk_mbar p (m_len b) (m_msg b) (m_ap b) (m_shown b).

Definition sys_step (s : sys) (now : N) (i : N) (o : bop)
  : outcome (sys * (bool * option (list frame))) :=
  let k := N.to_nat i in
  match nth_error (s_bars s) k with
  | None => Ok (s, (false, None))
  | Some b =>
      match o with
      | OInc d => via_ap s k (with_pos b (wadd64 (m_pos b) d)) now       (* state.rs:605-607 *)
      | ODec d => via_ap s k (with_pos b (wsub64 (m_pos b) d)) now       (* state.rs:609-611 *)
      | OSetPos p => via_ap s k (with_pos b p) now                       (* state.rs:613-615 *)
      | OTick =>
          match sys_request s k b now with
          | Panic e => Panic e | Ok (s', fr) => Ok (s', (true, fr)) end
      | OSetMsg m =>
          match sys_request s k (mk_mbar (m_pos b) (m_len b) m (m_ap b) (m_shown b)) now with
          | Panic e => Panic e | Ok (s', fr) => Ok (s', (true, fr)) end
      | OSetLen l =>
          match sys_request s k (mk_mbar (m_pos b) l (m_msg b) (m_ap b) (m_shown b)) now with
          | Panic e => Panic e | Ok (s', fr) => Ok (s', (true, fr)) end
      | OSetPrefix _ =>
          match sys_request s k b now with
          | Panic e => Panic e | Ok (s', fr) => Ok (s', (true, fr)) end
      | OReset =>
          (* state.rs:74-97: pos.reset(now), trackers get reset() (not tick()), draw(false) *)
          match sys_request s k (mk_mbar 0 (m_len b) (m_msg b) (ap_reset (m_ap b) now) (m_shown b)) now with
          | Panic e => Panic e | Ok (s', fr) => Ok (s', (false, fr)) end
      end
  end.

Definition sout := outcome (bool * option (list frame)).

Fixpoint sys_run (s : sys) (ops : list (N * N * bop)) : list sout :=
  match ops with
  | [] => []
  | (now, i, o) :: r =>
      match sys_step s now i o with
      | Panic k => [Panic k]
      | Ok (s', out) => Ok out :: sys_run s' r
      end
  end.

(* configuration: multi?, refresh rate (None = no limiter), clock at target creation,
   per bar (clock at bar creation, initial length) *)
Definition syscfg := (bool * option N * N * list (N * N))%type.

Definition sys_new (c : syscfg) : sys :=
  let '(multi, rate, t0, bars) := c in
  mk_sys multi (option_map (fun r => rl_new r t0) rate)
         (map (fun '(tb, l) => mk_mbar 0 l 0 (ap_new tb) None) bars).

(* state after a run *)
Fixpoint sys_exec (s : sys) (ops : list (N * N * bop)) : outcome sys :=
  match ops with
  | [] => Ok s
  | (now, i, o) :: r =>
      match sys_step s now i o with
      | Panic k => Panic k
      | Ok (s', _) => sys_exec s' r
      end
  end.

(** * A draw target attached late: ProgressBar::set_draw_target (progress_bar.rs:443-447)

    The bar is created on ProgressDrawTarget::hidden() and receives the calls [pre]; then
    `set_draw_target(term_like[_with_hz](..))` replaces the target by one created at that instant
    [t0]; then it receives the calls [ops].
    - On a hidden target `drawable()` is None (draw_target.rs:205-206): nothing is ever painted.
      Everything a call does on the bar's side - position, texts, the bar's OWN position limiter,
      the tracker notifications - does not depend on the target, so the hidden phase is the run
      on an unthrottled target with the frames erased ([hide]).
    - `set_draw_target` on a hidden (or TermLike) target paints nothing (`disconnect`,
      draw_target.rs:211-227) and swaps the target: the new target's limiter is FRESH (created at
      [t0]), the bar's position limiter is NOT - it keeps whatever the calls [pre] left of it. *)
Definition hide (o : sout) : sout :=
  match o with Ok (re, _) => Ok (re, None) | Panic k => Panic k end.

Definition sys_attach (s : sys) (rate : option N) (now : N) : sys :=
  mk_sys (s_multi s) (option_map (fun r => rl_new r now) rate) (s_bars s).

(* configuration as for [sys_new]: the clock at TARGET creation [t0] is the attach instant *)
Definition late_run (c : syscfg) (pre ops : list (N * N * bop)) : list sout :=
  let '(multi, rate, t0, bars) := c in
  let s0 := sys_new (multi, None, t0, bars) in
  map hide (sys_run s0 pre) ++
  match sys_exec s0 pre with
  | Ok s1 => sys_run (sys_attach s1 rate t0) ops
  | Panic _ => []
  end.

(** * Correspondence entry point *)

Definition frame_eqb (a b : frame) : bool :=
  let '(p, l, m) := a in let '(p', l', m') := b in N.eqb p p' && N.eqb l l' && N.eqb m m'.

Definition sout_eqb (a b : sout) : bool :=
  match a, b with
  | Panic _, Panic _ => true
  | Ok (r, f), Ok (r', f') => Bool.eqb r r' && option_eqb (list_eqb frame_eqb) f f'
  | _, _ => false
  end.

(* a case: configuration, the calls made while the bar was still on a hidden target (empty for
   all but the late-target stream of the harness; [late_run c [] ops = sys_run (sys_new c) ops],
   LimiterSysProofs.late_run_nil), the calls (absolute clock, bar index, operation), and what
   was observed on the implementation after each call of [pre ++ ops] *)
Definition c05_check (c : syscfg * list (N * N * bop) * list (N * N * bop) * list sout) : bool :=
  let '(cfg, pre, ops, obs) := c in
  list_eqb sout_eqb (late_run cfg pre ops) obs.

(** * Specification vocabulary used by the theorems (props/C05.v) *)

(* non-decreasing instants, none before [lo] *)
Fixpoint nondec (lo : N) (ts : list N) : Prop :=
  match ts with
  | [] => True
  | t :: r => lo <= t /\ nondec t r
  end.

Definition apop_time (o : apop) : N := match o with AReq t | ARst t => t end.

(* every instant is less than 2^64 ns (584 years) after the bar's creation [st], so that
   `as_nanos() as u64` (state.rs:573) does not truncate *)
Definition ap_times_ok (st : N) (ops : list apop) : Prop :=
  forall o, In o ops -> apop_time o < st + U64.

(* number of requests answered `true` whose instant lies in the closed window [lo, hi] *)
Fixpoint allowed_in (lo hi : N) (ts : list N) (vs : list (outcome bool)) : N :=
  match ts, vs with
  | t :: tr, v :: vr =>
      (match v with
       | Ok true => if (lo <=? t) && (t <=? hi) then 1 else 0
       | _ => 0
       end) + allowed_in lo hi tr vr
  | _, _ => 0
  end.

(* instant of the most recent request answered `true` (for the position limiter: or of the
   most recent reset(), which also restarts the limiter's clock) *)
Fixpoint last_allowed (acc : option N) (ts : list N) (vs : list (outcome bool)) : option N :=
  match ts, vs with
  | t :: tr, v :: vr => last_allowed (match v with Ok true => Some t | _ => acc end) tr vr
  | _, _ => acc
  end.

Fixpoint ap_last_event (acc : option N) (ops : list apop) (vs : list (outcome bool)) : option N :=
  match ops, vs with
  | AReq t :: tr, v :: vr => ap_last_event (match v with Ok true => Some t | _ => acc end) tr vr
  | ARst t :: tr, _ :: vr => ap_last_event (Some t) tr vr
  | _, _ => acc
  end.

(* state after a run (Panic if any step panics) *)
Fixpoint rl_exec (s : rl) (ts : list N) : outcome rl :=
  match ts with
  | [] => Ok s
  | t :: r => match rl_allow s t with
              | Panic k => Panic k
              | Ok (s', _) => rl_exec s' r
              end
  end.

Fixpoint ap_exec (s : ap) (ops : list apop) : outcome ap :=
  match ops with
  | [] => Ok s
  | AReq t :: r => match ap_allow s t with
                   | Panic k => Panic k
                   | Ok (s', _) => ap_exec s' r
                   end
  | ARst t :: r => ap_exec (ap_reset s t) r
  end.

(** * Specification vocabulary for the bar-level theorems *)

(* the live state after one more call – independent of every limiter *)
Definition upd (f : frame) (o : bop) : frame :=
  let '(p, l, m) := f in
  match o with
  | OInc d => (wadd64 p d, l, m)
  | ODec d => (wsub64 p d, l, m)
  | OSetPos q => (q, l, m)
  | OTick => f
  | OSetMsg m' => (p, l, m')
  | OSetLen l' => (p, l', m)
  | OSetPrefix _ => f
  | OReset => (0, l, m)
  end.

(* instant of the most recent call that painted a frame *)
Fixpoint last_paint (acc : option N) (ts : list N) (vs : list sout) : option N :=
  match ts, vs with
  | t :: tr, v :: vr =>
      last_paint (match v with Ok (_, Some _) => Some t | _ => acc end) tr vr
  | _, _ => acc
  end.

(* calls on the single bar of a stand-alone system *)
Definition std_ops (ops : list (N * bop)) : list (N * N * bop) :=
  map (fun '(t, o) => (t, 0, o)) ops.

(** * Specification vocabulary for the system-level theorems (frames of [sys_run], any
      configuration: stand-alone bar or members of a MultiProgress) *)

Definition op_time (c : N * N * bop) : N := fst (fst c).

(* number of calls that painted a (non-forced) frame at an instant in the closed window [lo, hi] *)
Fixpoint frames_in (lo hi : N) (ts : list N) (vs : list sout) : N :=
  match ts, vs with
  | t :: tr, v :: vr =>
      (match v with
       | Ok (_, Some _) => if (lo <=? t) && (t <=? hi) then 1 else 0
       | _ => 0
       end) + frames_in lo hi tr vr
  | _, _ => 0
  end.

(* did call [o] on bar [i] ask the draw target for a (non-forced) redraw?  tick / set_message /
   set_length / reset of an existing bar always do (state.rs:156, :96 `self.draw(false, now)`);
   inc / dec / set_position do iff the bar's position limiter let them through, which is what the
   [reached] flag of the call's outcome reports (progress_bar.rs:246, 255, 298) *)
Definition requested (nbars : nat) (i : N) (o : bop) (reached : bool) : bool :=
  (N.to_nat i <? nbars)%nat &&
  match o with OInc _ | ODec _ | OSetPos _ => reached | _ => true end.

(* every call addresses an existing bar *)
Definition ops_valid (nbars : nat) (ops : list (N * N * bop)) : Prop :=
  Forall (fun c => (N.to_nat (snd (fst c)) < nbars)%nat) ops.

(** * The limiter BEFORE fix commits e4a1051 / 3894c8b (documentation only: defects D12, D13).
    interval = floor(1000 / rate) milliseconds; the cap was applied after the `- 1`. *)
Definition rl_new_old (rate now : N) : rl :=
  {| rl_interval := 1000 / rate; rl_cap := RL_MAX_BURST; rl_prev := now |}.

Definition rl_allow_old (s : rl) (now : N) : rl * bool :=
  if now <? rl_prev s then (s, false)
  else
    let elapsed := now - rl_prev s in
    if (rl_cap s =? 0) && (elapsed <? rl_interval s * 1000000) then (s, false)
    else
      let new := (elapsed / 1000000) / rl_interval s in
      let remainder := elapsed mod (rl_interval s * 1000000) in
      ({| rl_interval := rl_interval s;
          rl_cap := N.min RL_MAX_BURST (rl_cap s + new - 1);
          rl_prev := now - remainder |}, true).

Fixpoint rl_run_old (s : rl) (ts : list N) : list (outcome bool) :=
  match ts with
  | [] => []
  | t :: r => let '(s', v) := rl_allow_old s t in Ok v :: rl_run_old s' r
  end.
