(** C14 - every style the builder accepts can be rendered without panicking.

    Transcribes, from /repo/src/style.rs (HEAD, after the fix: commits b968e56, 16b074b,
    8070567, 1ac360f):
      - width()                                   (style.rs:58-69)   [width_of]
      - ProgressStyle::new / default_bar / default_spinner / with_template (73-108)
      - tick_chars / tick_strings / progress_chars / with_key / template   (114-172)
        with their assertions AS CODED                                     [bstep]
      - set_tab_width (89-92, reached through ProgressBar::set_style)      [OSetTab]
      - get_tick_str / get_final_tick_str / current_tick_str (174-189)
      - format_bar + BarDisplay::fmt (191-232, 701-711)                    [format_bar]
      - the partial operations of format_state (234-396), push_line (399-425),
        WideElement::expand (443-483), PaddedStringDisplay::fmt (734-769)  [render_outcome]
    and from /repo/src/draw_target.rs the partial operations of one frame:
      - LineType::wrapped_height (703-713), visual_line_count (689-693),
        DrawState::draw_to_term (514-627)   (line numbers of /repo at commit 951c29f)                                  [frame_outcome]

    A "site" is a program point that can panic: an assertion, an `unwrap`, an index, a
    division / remainder, or a `+`/`-` on usize that panics when overflow checks are on
    (debug build, and the harness build).  Site codes are the line number in style.rs, or
    10000 + the line number in draw_target.rs; where one line holds several sites a
    digit is appended.

    What depends on the CONTENT of strings or on f32 arithmetic is not computed by this
    model but supplied by an [oracles] record over which every theorem quantifies
    universally: the byte length / column width of every buffer that is measured, the
    three float-derived integers of format_bar, the width of the current line, whether
    the last line is empty.  The model is therefore an over-approximation: it admits
    every behaviour of unicode-width and of the FPU (and more).
    usize is 64 bits.  Definitions only; proofs are in proofs/BuilderProofs.v. *)
From IndModel Require Export Base Template.
From IndGen Require Import Constants.
From Coq Require String.
Open Scope N_scope.

(** ** sites *)
Definition SITE_WIDTH_UNEQUAL : N := 64.   (* assert_eq!(old, new, "got passed un-equal width ...") *)
Definition SITE_WIDTH_UNWRAP : N := 68.    (* fold(None, ..).unwrap() on an empty slice *)
Definition SITE_DEFAULT_UNWRAP : N := 74.  (* Template::from_str(<literal>).unwrap(), lines 74 and 79 *)
Definition SITE_TICK_CHARS : N := 118.     (* assert!(tick_strings.len() >= 2) in tick_chars *)
Definition SITE_TICK_STRINGS : N := 133.   (* assert!(tick_strings.len() >= 2) in tick_strings *)
Definition SITE_PCHARS_LT2 : N := 148.     (* assert!(progress_chars.len() >= 2) *)
Definition SITE_PCHARS_ZERO : N := 153.    (* assert!(char_width > 0) *)
Definition SITE_TICK_SUB : N := 1831.      (* :183 tick_strings.len() - 1   (usize underflow) *)
Definition SITE_TICK_REM : N := 1832.      (* :183 idx % (len - 1)          (remainder by zero) *)
Definition SITE_TICK_IDX : N := 1833.      (* :183 tick_strings[..]         (index) *)
Definition SITE_FINAL_SUB : N := 1881.     (* :188 tick_strings.len() - 1 *)
Definition SITE_FINAL_IDX : N := 1882.     (* :188 tick_strings[len - 1] *)
Definition SITE_BAR_DIV : N := 193.        (* width / self.char_width *)
Definition SITE_BAR_LAST : N := 222.       (* progress_chars[progress_chars.len() - 1] *)
Definition SITE_BAR_IDX0 : N := 704.       (* self.chars[0] *)
Definition SITE_BAR_CUR : N := 707.        (* self.chars[cur] *)
Definition SITE_PRECISION : N := 320.      (* "{:.1$}": a precision argument above u16::MAX panics in core::fmt *)
Definition SITE_TAB_REPEAT : N := 433.     (* " ".repeat(tab_width): capacity overflow above isize::MAX - TabRewriter::write_str
                                              (style.rs:433) and TabExpandedString::expanded (state.rs:393) *)
Definition SITE_PAD_LEFT : N := 742.       (* self.str.len() - excess *)
Definition SITE_PAD_CENTER : N := 746.     (* self.str.len() - excess.saturating_sub(excess / 2) *)
Definition SITE_REAL_ADD : N := 10590.     (* draw_target.rs:590 real_height += line_height *)
Definition SITE_REPEAT : N := 10610.       (* draw_target.rs:610 " ".repeat(n): capacity overflow above isize::MAX *)
Definition SITE_COUNT_ADD : N := 10624.    (* draw_target.rs:624 real_height + shift *)

Definition USIZE_MAX : N := U64MAX.
Definition ISIZE_MAX : N := 9223372036854775807.

(** ** the style *)
(* a grapheme cluster of progress_chars: its scalar values, and what `measure` (style.rs:46-54,
   unicode_width::UnicodeWidthStr::width) answers for it - DATA supplied with the argument *)
Record cluster := mkcl { cl_text : list N; cl_w : N }.

Record style := mkstyle {
  st_ticks : list (list N);      (* tick_strings *)
  st_chars : list cluster;       (* progress_chars *)
  st_cw : N;                     (* char_width *)
  st_parts : list part;          (* template.parts (Template.v) *)
  st_keys : list (list N);       (* keys of format_map *)
  st_tab : N }.                  (* tab_width *)

(** width() (style.rs:58-69): the fold keeps the FIRST width and compares every other to it *)
Fixpoint width_fold (acc : option N) (ws : list N) : outcome (option N) :=
  match ws with
  | [] => Ok acc
  | w :: r =>
      match acc with
      | None => width_fold (Some w) r                                   (* :63 *)
      | Some old => if old =? w then width_fold acc r                   (* :64, :66 *)
                    else Panic SITE_WIDTH_UNEQUAL
      end
  end.

Definition width_of (c : list cluster) : outcome N :=
  match width_fold None (map cl_w c) with
  | Ok (Some w) => Ok w
  | Ok None => Panic SITE_WIDTH_UNWRAP                                  (* :68 *)
  | Panic s => Panic s
  end.

(** result of a builder call: a style, Err(TemplateError) (with_template / template), or a panic *)
Inductive bres := BOk (s : style) | BErr (st : tstate) (c : N) | BPanic (site : N).

(* segment("█░") and the tick string literal of ProgressStyle::new (style.rs:95-101); both
   block characters are one column wide (checked by the harness against unicode-width) *)
Definition default_chars : list cluster := map (fun c => mkcl [c] 1) DEFAULT_PROGRESS_CHARS.
Definition default_ticks : list (list N) := map (fun c => [c]) DEFAULT_TICK_CHARS.

(* ProgressStyle::new (style.rs:94-108) *)
Definition new_style (parts : list part) : bres :=
  match width_of default_chars with                                     (* :96 *)
  | Ok w => BOk (mkstyle default_ticks default_chars w parts [] DEFAULT_TAB_WIDTH)
  | Panic s => BPanic s
  end.

Inductive ctor := CDefaultBar | CDefaultSpinner | CWithTemplate (s : list N).

Definition construct (c : ctor) : bres :=
  match c with
  | CDefaultBar =>                                                      (* :73-75 *)
      match parse DEFAULT_BAR_TEMPLATE with
      | POk ps => new_style ps
      | PErr _ _ => BPanic SITE_DEFAULT_UNWRAP
      end
  | CDefaultSpinner =>                                                  (* :78-80 *)
      match parse DEFAULT_SPINNER_TEMPLATE with
      | POk ps => new_style ps
      | PErr _ _ => BPanic SITE_DEFAULT_UNWRAP
      end
  | CWithTemplate s =>                                                  (* :85-87 *)
      match parse s with
      | POk ps => new_style ps
      | PErr st c => BErr st c
      end
  end.

Inductive bop :=
| OTickChars (s : list N)                 (* tick_chars(s): one tick string per char *)
| OTickStrings (l : list (list N))        (* tick_strings(&[..]) *)
| OProgressChars (cl : list cluster)      (* progress_chars(s): cl = segment(s) with measured widths *)
| OTemplate (s : list N)                  (* template(s) *)
| OWithKey (k : list N)                   (* with_key(k, tracker) *)
| OSetTab (w : N).                        (* ProgressBar::set_style / set_tab_width -> set_tab_width(w) *)

Definition bstep (st : style) (o : bop) : bres :=
  match o with
  | OTickChars s =>                                                     (* :114-123 *)
      let t := map (fun c => [c]) s in
      if nlen t <? 2 then BPanic SITE_TICK_CHARS
      else BOk (mkstyle t (st_chars st) (st_cw st) (st_parts st) (st_keys st) (st_tab st))
  | OTickStrings l =>                                                   (* :129-138 *)
      if nlen l <? 2 then BPanic SITE_TICK_STRINGS
      else BOk (mkstyle l (st_chars st) (st_cw st) (st_parts st) (st_keys st) (st_tab st))
  | OProgressChars cl =>                                                (* :144-158 *)
      if nlen cl <? 2 then BPanic SITE_PCHARS_LT2                       (* :148 *)
      else match width_of cl with                                       (* :152 *)
           | Panic s => BPanic s
           | Ok w => if w =? 0 then BPanic SITE_PCHARS_ZERO             (* :153 *)
                     else BOk (mkstyle (st_ticks st) cl w (st_parts st) (st_keys st) (st_tab st))
           end
  | OTemplate s =>                                                      (* :169-172 *)
      match parse s with
      | POk ps => BOk (mkstyle (st_ticks st) (st_chars st) (st_cw st) ps (st_keys st) (st_tab st))
      | PErr s' c => BErr s' c
      end
  | OWithKey k =>                                                       (* :161-164 *)
      BOk (mkstyle (st_ticks st) (st_chars st) (st_cw st) (st_parts st) (k :: st_keys st) (st_tab st))
  | OSetTab w =>                                                        (* :89-92 *)
      BOk (mkstyle (st_ticks st) (st_chars st) (st_cw st) (st_parts st) (st_keys st) w)
  end.

(* a chain of builder calls stops at the first call that does not return a style; the number
   is the index of that call (0 = the constructor, k = the k-th method) *)
Fixpoint brun_idx (i : N) (st : style) (ops : list bop) : N * bres :=
  match ops with
  | [] => (i, BOk st)
  | o :: r => match bstep st o with
              | BOk st' => brun_idx (i + 1) st' r
              | e => (i + 1, e)
              end
  end.

Definition build_idx (c : ctor) (ops : list bop) : N * bres :=
  match construct c with
  | BOk st => brun_idx 0 st ops
  | e => (0, e)
  end.

Definition build (c : ctor) (ops : list bop) : bres := snd (build_idx c ops).

(** ** rendering: the partial operations of one format_state call *)
(* what the code asks of a string it measures: str::len() and console::measure_text_width *)
Record mtext := mkmt { mt_len : N; mt_cols : N }.

Record snapshot := mksnap {
  sn_pos : N;                 (* state.pos() *)
  sn_len : option N;          (* state.len() *)
  sn_tick : N;                (* state.tick *)
  sn_finished : bool;         (* state.is_finished() *)
  sn_msg : mtext;             (* state.message.expanded() *)
  sn_prefix : mtext;          (* state.prefix.expanded() *)
  sn_msg_tab : bool;          (* the message contains a tab (TabExpandedString::WithTabs) *)
  sn_prefix_tab : bool }.

(* the integers format_bar derives through f32 arithmetic and saturating `as usize` casts
   (style.rs:195-212): any usize / bool *)
Record fbar := mkfbar {
  fb_filled : N;              (* :197 entirely_filled = fill as usize *)
  fb_head : bool;             (* :200 fill > 0.0 && entirely_filled < width *)
  fb_k : N }.                 (* :212 (fill.fract() * n as f32) as usize *)

Record oracles := mkor {
  o_meas : nat -> mtext;      (* `buf` after the key of template part #i has been written (:256-363) *)
  o_writes : nat -> bool;     (* the with_key tracker of part #i calls write_str at least once *)
  o_bar : N -> fbar;          (* per bar width in clusters *)
  o_cur_cols : nat -> N;      (* :452 measure_text_width(cur without NUL) when push_line runs at part #i *)
  o_cur_nonempty : bool;      (* :393 !cur.is_empty() after the last part *)
  o_lines : list N }.         (* console_width() of every line handed to the draw target *)

Definition oseq {A} (o : outcome unit) (k : outcome A) : outcome A :=
  match o with Ok _ => k | Panic s => Panic s end.

(** get_tick_str (style.rs:182-184); [idx as usize] is the identity on a 64 bit target.
    With overflow checks off `len() - 1` wraps for an empty vector and the index panics
    instead: a panic either way. *)
Definition get_tick_str (ticks : list (list N)) (idx : N) : outcome (list N) :=
  let n := nlen ticks in
  if n =? 0 then Panic SITE_TICK_SUB
  else if n - 1 =? 0 then Panic SITE_TICK_REM
  else match nth_error ticks (N.to_nat (idx mod (n - 1))) with
       | Some s => Ok s
       | None => Panic SITE_TICK_IDX
       end.

(** get_final_tick_str (style.rs:187-189) *)
Definition get_final_tick_str (ticks : list (list N)) : outcome (list N) :=
  let n := nlen ticks in
  if n =? 0 then Panic SITE_FINAL_SUB
  else match nth_error ticks (N.to_nat (n - 1)) with
       | Some s => Ok s
       | None => Panic SITE_FINAL_IDX
       end.

(** current_tick_str (style.rs:174-179) *)
Definition current_tick_str (st : style) (sn : snapshot) : outcome (list N) :=
  if sn_finished sn then get_final_tick_str (st_ticks st)
  else get_tick_str (st_ticks st) (sn_tick sn).

(** format_bar (style.rs:191-232) followed by BarDisplay::fmt (701-711); both callers format
    the returned BarDisplay at once.  [width] is in columns. *)
Definition bar_cur (n : N) (fb : fbar) : option N :=
  if fb_head fb then
    let m := n - 2 in                                   (* :204 saturating_sub(2) *)
    Some (if m <=? 1 then 1 else m - fb_k fb)           (* :205-213, saturating_sub *)
  else None.

Definition format_bar (st : style) (O : oracles) (width : N) : outcome unit :=
  if st_cw st =? 0 then Panic SITE_BAR_DIV else         (* :193 *)
  let cells := width / st_cw st in
  let fb := o_bar O cells in
  let n := nlen (st_chars st) in
  let cur := bar_cur n fb in
  if n =? 0 then Panic SITE_BAR_LAST else               (* :222 len() - 1 and the index *)
  if (0 <? fb_filled fb) && (n =? 0) then Panic SITE_BAR_IDX0 else   (* :704 *)
  match cur with
  | Some c => if c <? n then Ok tt else Panic SITE_BAR_CUR           (* :707 *)
  | None => Ok tt
  end.

(** PaddedStringDisplay::fmt (style.rs:734-769): the two usize subtractions; everything
    else (saturating_sub, str::get(..).unwrap_or, the padding loops) is total *)
Definition padded_sites (t : mtext) (width : N) (a : align) (trunc : bool) : outcome unit :=
  let excess := mt_cols t - width in                    (* :737 saturating_sub *)
  if (0 <? excess) && negb trunc then Ok tt             (* :738 *)
  else if 0 <? excess then
    match a with
    | ALeft => if mt_len t <? excess then Panic SITE_PAD_LEFT else Ok tt                  (* :742 *)
    | ARight => Ok tt                                                                      (* :743 *)
    | ACenter => if mt_len t <? excess - excess / 2 then Panic SITE_PAD_CENTER else Ok tt  (* :746 *)
    end
  else Ok tt.

(** `" ".repeat(tab_width)`: evaluated by TabRewriter::write_str on EVERY call (style.rs:431-434,
    whether or not the text has a tab) and by TabExpandedString::expanded for a text that has
    one (state.rs:383-395).  Vec capacity is limited to isize::MAX bytes. *)
Definition tab_site (st : style) (needed : bool) : outcome unit :=
  if needed && (ISIZE_MAX <? st_tab st) then Panic SITE_TAB_REPEAT else Ok tt.
Definition has_tab (s : list N) : bool := existsb (N.eqb 9) s.

Inductive wide := WBar | WMsg (a : align).

Module KeyNames.
  Import String.
  Local Open Scope string_scope.
  Definition wide_bar := str_codes "wide_bar".
  Definition bar := str_codes "bar".
  Definition spinner := str_codes "spinner".
  Definition wide_msg := str_codes "wide_msg".
  Definition msg := str_codes "msg".
  Definition prefix := str_codes "prefix".
  Definition per_sec := str_codes "per_sec".
End KeyNames.
Definition key_is (k c : list N) : bool := list_eqb N.eqb k c.

(** one Placeholder part (style.rs:248-385): the sites of the key's arm, then of the padding.
    Returns the new value of `wide` if the arm assigns it. *)
Definition placeholder_sites (st : style) (sn : snapshot) (O : oracles) (i : nat) (p : ph)
  : outcome (option wide) :=
  let key := ph_key p in
  let arm : outcome (option wide * mtext) :=
    if existsb (list_eqb N.eqb key) (st_keys st) then                         (* :257-258 tracker.write *)
      oseq (tab_site st (o_writes O i)) (Ok (None, o_meas O i))
    else if key_is key KeyNames.wide_bar then Ok (Some WBar, o_meas O i)             (* :261-264 *)
    else if key_is key KeyNames.bar then                                              (* :265-274 *)
      oseq (format_bar st O (match ph_width p with Some w => w | None => DEFAULT_BAR_WIDTH end))
          (Ok (None, o_meas O i))
    else if key_is key KeyNames.spinner then                                          (* :275 *)
      match current_tick_str st sn with
      | Ok _ => Ok (None, o_meas O i)
      | Panic s => Panic s
      end
    else if key_is key KeyNames.wide_msg then Ok (Some (WMsg (ph_align p)), o_meas O i)   (* :276-279 *)
    else if key_is key KeyNames.msg then                                       (* :280 *)
      oseq (tab_site st (sn_msg_tab sn)) (Ok (None, sn_msg sn))
    else if key_is key KeyNames.prefix then                                    (* :281 *)
      oseq (tab_site st (sn_prefix_tab sn)) (Ok (None, sn_prefix sn))
    else if key_is key KeyNames.per_sec then                                          (* :318-333 *)
      match ph_width p with
      | Some w => if U16 <=? w then Panic SITE_PRECISION else Ok (None, o_meas O i)
      | None => Ok (None, o_meas O i)
      end
    else Ok (None, o_meas O i) in              (* the other arms and `_ => ()`: total, see docs/C14.md *)
  match arm with
  | Panic s => Panic s
  | Ok (nw, buf) =>
      oseq (match ph_width p with                                               (* :365-384 *)
           | Some w => padded_sites buf w (ph_align p) (ph_trunc p)
           | None => Ok tt
           end)
          (Ok nw)
  end.

(** push_line (style.rs:399-425) -> WideElement::expand (443-483) when `wide` is set *)
Definition push_line_sites (st : style) (sn : snapshot) (O : oracles) (i : nat)
           (wd : option wide) (tw : N) : outcome unit :=
  match wd with
  | None => Ok tt
  | Some w =>
      let left := tw - o_cur_cols O i in                 (* :452 saturating_sub *)
      match w with
      | WBar => format_bar st O left                     (* :454-460 (the format! runs even without a NUL) *)
      | WMsg a => oseq (tab_site st (sn_msg_tab sn))      (* :466 state.message.expanded() *)
                       (padded_sites (sn_msg sn) left a true)   (* :461-472 *)
      end
  end.

(** the loop of format_state (style.rs:246-391); `wide` is never reset between lines *)
Fixpoint walk (st : style) (sn : snapshot) (O : oracles) (tw : N) (i : nat) (ps : list part)
         (wd : option wide) : outcome (option wide) :=
  match ps with
  | [] => Ok wd
  | PLit s :: r => oseq (tab_site st (has_tab s)) (walk st sn O tw (S i) r wd)   (* :386 s.expanded() *)
  | PPh p :: r =>
      match placeholder_sites st sn O i p with
      | Panic s => Panic s
      | Ok nw => walk st sn O tw (S i) r (match nw with Some x => Some x | None => wd end)
      end
  | PNewLine :: r =>                                                           (* :387-389 *)
      oseq (push_line_sites st sn O i wd tw) (walk st sn O tw (S i) r wd)
  end.

(** format_state (style.rs:234-396) *)
Definition render_outcome (st : style) (sn : snapshot) (tw : N) (O : oracles) : outcome unit :=
  match walk st sn O tw 0 (st_parts st) None with
  | Panic s => Panic s
  | Ok wd =>
      if o_cur_nonempty O then push_line_sites st sn O (length (st_parts st)) wd tw   (* :393-395 *)
      else Ok tt
  end.

(** ** one frame on the terminal (draw_target.rs) – all lines are LineType::Bar *)
Definition sat_addu (a b : N) : N := N.min USIZE_MAX (a + b).
Definition sat_mulu (a b : N) : N := N.min USIZE_MAX (a * b).

(** LineType::wrapped_height (draw_target.rs:703-713): ceil(cols as f64 / width as f64) as usize,
    at least 1.  width = 0: x/0 = +inf -> usize::MAX, 0/0 = NaN -> 0 -> 1.  For width > 0 the
    f64 ceiling is taken to be the exact one (docs/C14.md, assumption A3). *)
Definition wrapped_height (cols tw : N) : N :=
  if tw =? 0 then (if cols =? 0 then 1 else USIZE_MAX)
  else N.max 1 ((cols + tw - 1) / tw).

(* visual_line_count (draw_target.rs:689-693) *)
Definition visual_line_count (ls : list N) (tw : N) : N :=
  fold_left (fun acc c => sat_addu acc (wrapped_height c tw)) ls 0.

(* the paint loop (draw_target.rs:573-612); every line is a Bar line, so `padded` (:558) is true
   from the start and the padding rows are written before the loop (:562-566) *)
Fixpoint paint (ls : list N) (idx total tw th real : N) : outcome N :=
  match ls with
  | [] => Ok real
  | c :: r =>
      let h := wrapped_height c tw in                                     (* :574 *)
      if th <? sat_addu real h then Ok real                               (* :579 break *)
      else if USIZE_MAX <? real + h then Panic SITE_REAL_ADD              (* :590 *)
      else if ((idx + 1 =? total) || ((idx =? 0) && (c =? 0)))           (* :603 *)
              && (ISIZE_MAX <? sat_mulu h tw - c)                         (* :606-610 *)
           then Panic SITE_REPEAT
      else paint r (idx + 1) total tw th (real + h)
  end.

(** DrawState::draw_to_term (draw_target.rs:514-627); [n] = *bar_count before the call,
    [bottom] = the alignment is MultiProgressAlignment::Bottom.  Returns the new *bar_count. *)
Definition frame_outcome (ls : list N) (tw th n : N) (bottom : bool) : outcome N :=
  let full := visual_line_count ls tw in                                  (* :547 *)
  let shift := if bottom && (full <? n) then n - full else 0 in           (* :549-554; the subtraction is guarded by its own match arm *)
  match paint ls 0 (nlen ls) tw th 0 with
  | Panic s => Panic s
  | Ok real => if USIZE_MAX <? real + shift then Panic SITE_COUNT_ADD     (* :624 *)
               else Ok (real + shift)
  end.

(** BarState::draw (state.rs:200-223) on a target that accepts the draw *)
Definition draw_outcome (st : style) (sn : snapshot) (tw th n : N) (bottom : bool) (O : oracles)
  : outcome N :=
  oseq (render_outcome st sn tw O) (frame_outcome (o_lines O) tw th n bottom).

(** ** specification side *)
(** the invariant of every style the builder hands out *)
Definition part_ok (p : part) : Prop :=
  match p with
  | PPh q => match ph_width q with Some w => w < U16 | None => True end
  | _ => True
  end.

Definition StyleOK (st : style) : Prop :=
  2 <= nlen (st_ticks st)
  /\ 2 <= nlen (st_chars st)
  /\ 1 <= st_cw st
  /\ Forall (fun c => cl_w c = st_cw st) (st_chars st)
  /\ Forall part_ok (st_parts st).

(** the documented contract of the builder methods (doc comments at style.rs:110-143,
    src/lib.rs): at least two tick strings / progress characters, progress characters of
    equal, non-zero width; written independently of [bstep] *)
Definition accepts (o : bop) : Prop :=
  match o with
  | OTickChars s => 2 <= nlen s
  | OTickStrings l => 2 <= nlen l
  | OProgressChars cl => 2 <= nlen cl /\ exists w, 1 <= w /\ Forall (fun c => cl_w c = w) cl
  | OTemplate s => exists ps, parse s = POk ps
  | OWithKey _ | OSetTab _ => True
  end.

(** tab widths for which `" ".repeat(tab_width)` does not exceed the capacity of a Vec *)
Definition tab_sane (st : style) : Prop := st_tab st <= ISIZE_MAX.
(** the calls that are methods of ProgressStyle (OSetTab is made by the ProgressBar) *)
Definition builder_op (o : bop) : Prop := match o with OSetTab _ => False | _ => True end.

(** the universal fact about console::measure_text_width this development assumes of every
    measured string: it never reports more columns than the string has bytes *)
Definition mt_ok (t : mtext) : Prop := mt_cols t <= mt_len t.
Definition oracles_ok (O : oracles) : Prop := forall i, mt_ok (o_meas O i).
Definition snap_ok (sn : snapshot) : Prop := mt_ok (sn_msg sn) /\ mt_ok (sn_prefix sn).

(** ** correspondence entry point *)
(* what the harness saw of the chain of builder calls: [i] = index of the failing call *)
Inductive bobs :=
| ObsBuilt
| ObsErr (i : N) (st : tstate) (c : N)
| ObsPanic (i : N) (site : N).

(* one draw of a bar carrying the built style:
   (pos, len, tick, finished, (msg len, cols, has a tab), (prefix len, cols, has a tab),
    tab width of the bar, terminal width, height, returned normally) *)
Definition probe := (N * option N * N * bool * (N * N * bool) * (N * N * bool) * N * N * N * bool)%type.
(* ProgressStyle::get_tick_str(idx) (Some idx) or get_final_tick_str() (None): the string
   returned, None if the call panicked *)
Definition tprobe := (option N * option (list N))%type.

Definition bcase := (ctor * list bop * bobs * list probe * list tprobe)%type.

Definition probe_oracles (lines : list N) : oracles :=
  mkor (fun _ => mkmt 0 0) (fun _ => true) (fun c => mkfbar (c / 2) true 1) (fun _ => 0) true lines.

Definition is_ok {A} (o : outcome A) : bool := match o with Ok _ => true | Panic _ => false end.

Definition probe_ok (st : style) (p : probe) : bool :=
  let '(pos, len, tick, fin, (ml, mc, mt), (pl, pc, pt), tab, tw, th, ok) := p in
  let sn := mksnap pos len tick fin (mkmt ml mc) (mkmt pl pc) mt pt in
  (mc <=? ml) && (pc <=? pl) &&
  match bstep st (OSetTab tab) with               (* ProgressBar::with_tab_width + set_style *)
  | BOk st' => Bool.eqb (is_ok (draw_outcome st' sn tw th 0 false (probe_oracles [0]))) ok
  | _ => false
  end.

Definition tprobe_ok (st : style) (t : tprobe) : bool :=
  let '(idx, obs) := t in
  match (match idx with
         | Some i => get_tick_str (st_ticks st) i
         | None => get_final_tick_str (st_ticks st)
         end), obs with
  | Ok s, Some s' => list_eqb N.eqb s s'
  | Panic _, None => true
  | _, _ => false
  end.

Definition builder_check (c : bcase) : bool :=
  let '(ct, ops, obs, probes, tprobes) := c in
  match build_idx ct ops, obs with
  | (_, BOk st), ObsBuilt => forallb (probe_ok st) probes && forallb (tprobe_ok st) tprobes
  | (i, BErr s ch), ObsErr j s' ch' => (i =? j) && tstate_eqb s s' && (ch =? ch')
  | (i, BPanic site), ObsPanic j site' => (i =? j) && (site =? site')
  | _, _ => false
  end.
