(** C14 - every style the builder accepts can be rendered without panicking.

    Transcribes, from /repo/src/style.rs (commit 7d42cff, i.e. after the fix: commits b968e56,
    16b074b, 8070567, 1ac360f, 6ff82af, dadbe71, 7d42cff; all line numbers below are those of
    that commit):
      - width()                                   (style.rs:58-69)   [width_of]
      - ProgressStyle::new / default_bar / default_spinner / with_template (73-108)
      - tick_chars / tick_strings / progress_chars / with_key / template   (114-174)
        with their assertions AS CODED                                     [bstep]
      - set_tab_width (89-92, reached through ProgressBar::set_style)      [OSetTab]
      - get_tick_str / get_final_tick_str / current_tick_str (176-191)
      - format_bar + BarDisplay::fmt (193-234, 705-715)                    [format_bar]
      - the partial operations of format_state (236-400), push_line (403-429),
        WideElement::expand (447-487), PaddedStringDisplay::fmt (738-773),
        TabRewriter::write_str (434-439)                                   [render_outcome]
      - TabExpandedString::{new, expanded} (state.rs:371-395)             [expanded_site]
    and from /repo/src/draw_target.rs the partial operations of one frame:
      - LineType::wrapped_height (721-731), visual_line_count (707-711),
        DrawState::draw_to_term (514-645)                                  [frame_outcome]
        (the same function has a value model in Draw.v, used by C01/C19; [frame_outcome] adds the
        panic sites, the saturating usize operations and width 0, and is proved to return the
        count Draw.draw_to_term returns: BuilderProofs.frame_agrees_with_draw_model)
    The template parser is C10's three-outcome [parse_full] (Template.v).

    A "site" is a program point that can panic: an assertion, an `unwrap`, an index, a
    division / remainder, or a `+`/`-` on usize that panics when overflow checks are on
    (debug build, and the harness build), or a `debug_assert!`.  Site codes are the line
    number in style.rs, 10000 + the line number in draw_target.rs, 20000 + the line number in
    state.rs, 30000 + the line of the call in style.rs for a site inside the console crate;
    where one line holds several sites a digit is appended.

    What depends on the CONTENT of strings or on f32 arithmetic is not computed by this
    model but supplied by an [oracles] record over which every theorem quantifies
    universally: the byte length / column width of every buffer that is measured, the
    three float-derived integers of format_bar, the width of the current line, whether
    the last line is empty.  The model is therefore an over-approximation: it admits
    every behaviour of unicode-width and of the FPU (and more).
    usize is 64 bits.  Definitions only; proofs are in proofs/BuilderProofs.v. *)
From IndModel Require Export Base Template.
From IndGen Require Import Constants.
From Coq Require String.
Require IndModel.Padded.       (* only for [conv_align], the cross-check with C12's model *)
Require IndModel.Fmt IndModel.Keys IndModel.TabsEnv.   (* only for [formatter_call]: C15's model of
   src/format.rs, C11's key dispatch, and the formatter record C16 builds from the former *)
Open Scope N_scope.

(** ** sites *)
Definition SITE_WIDTH_UNEQUAL : N := 64.   (* assert_eq!(old, new, "got passed un-equal width ...") *)
Definition SITE_WIDTH_UNWRAP : N := 68.    (* fold(None, ..).unwrap() on an empty slice *)
Definition SITE_DEFAULT_UNWRAP : N := 74.  (* Template::from_str(<literal>).unwrap(), lines 74 and 79 *)
Definition SITE_TICK_CHARS : N := 118.     (* assert!(tick_strings.len() >= 2) in tick_chars *)
Definition SITE_TICK_STRINGS : N := 133.   (* assert!(tick_strings.len() >= 2) in tick_strings *)
Definition SITE_PCHARS_LT2 : N := 148.     (* assert!(progress_chars.len() >= 2) *)
Definition SITE_PCHARS_ZERO : N := 153.    (* assert!(char_width > 0) *)
Definition SITE_PCHARS_TAB : N := 158.     (* assert!(!s.contains('\t'), "progress chars must not contain tabs") *)
Definition SITE_TICK_SUB : N := 1851.      (* :185 tick_strings.len() - 1   (usize underflow) *)
Definition SITE_TICK_REM : N := 1852.      (* :185 idx % (len - 1)          (remainder by zero) *)
Definition SITE_TICK_IDX : N := 1853.      (* :185 tick_strings[..]         (index) *)
Definition SITE_FINAL_SUB : N := 1901.     (* :190 tick_strings.len() - 1 *)
Definition SITE_FINAL_IDX : N := 1902.     (* :190 tick_strings[len - 1] *)
Definition SITE_BAR_DIV : N := 195.        (* width / self.char_width *)
Definition SITE_BAR_LAST : N := 224.       (* progress_chars[progress_chars.len() - 1] *)
Definition SITE_BAR_IDX0 : N := 708.       (* self.chars[0] *)
Definition SITE_BAR_CUR : N := 711.        (* self.chars[cur] *)
Definition SITE_PRECISION : N := 324.      (* "{:.1$}": a precision argument above u16::MAX panics in core::fmt *)
Definition SITE_TAB_REPEAT : N := 437.     (* " ".repeat(tab_width): capacity overflow above isize::MAX - TabRewriter::write_str
                                              (style.rs:437) and TabExpandedString::expanded (state.rs:393) *)
Definition SITE_PAD_LEFT : N := 746.       (* self.str.len() - excess *)
Definition SITE_PAD_CENTER : N := 750.     (* self.str.len() - excess.saturating_sub(excess / 2) *)
Definition SITE_PAD_ROWS_SUB : N := 10575. (* draw_target.rs:575 shift - usize::from(full_screen_padding) *)
Definition SITE_REAL_ADD : N := 10605.     (* draw_target.rs:605 real_height += line_height *)
Definition SITE_REPEAT : N := 10626.       (* draw_target.rs:626 " ".repeat(n): capacity overflow above isize::MAX *)
Definition SITE_COUNT_ADD : N := 10642.    (* draw_target.rs:642 real_height + shift *)
Definition SITE_NOTABS_ASSERT : N := 20386. (* state.rs:386 debug_assert!(!s.contains('\t')) in expanded(), NoTabs arm *)
(* sites of the template parser (Template.psite): none is reachable (C10_no_panic) *)
Definition psite_code (p : psite) : N :=
  match p with
  | SiteWidthUnwrap => 600
  | SiteStyleOnSlice => 30608
  | SiteAltOnSlice => 30614
  end.

Definition USIZE_MAX : N := U64MAX.
Definition ISIZE_MAX : N := 9223372036854775807.

(** ** the style *)
(* a grapheme cluster of progress_chars: its scalar values, and what `measure` (style.rs:46-54,
   unicode_width::UnicodeWidthStr::width) answers for it - DATA supplied with the argument *)
Record cluster := mkcl { cl_text : list N; cl_w : N }.
Definition has_tab (s : list N) : bool := existsb (N.eqb 9) s.       (* str::contains('\t') *)

Record style := mkstyle {
  st_ticks : list (list N);      (* tick_strings *)
  st_chars : list cluster;       (* progress_chars *)
  st_cw : N;                     (* char_width *)
  st_parts : list part;          (* template.parts (Template.v) *)
  st_keys : list (list N);       (* keys of format_map *)
  st_tab : N }.                  (* tab_width *)

(** width() (style.rs:58-69): the fold keeps the FIRST width and compares every other to it *)
Fixpoint width_fold (acc : option N) (ws : list N) : outcome (option N) :=
  match ws with
  | [] => Ok acc
  | w :: r =>
      match acc with
      | None => width_fold (Some w) r                                   (* :63 *)
      | Some old => if old =? w then width_fold acc r                   (* :64, :66 *)
                    else Panic SITE_WIDTH_UNEQUAL
      end
  end.

Definition width_of (c : list cluster) : outcome N :=
  match width_fold None (map cl_w c) with
  | Ok (Some w) => Ok w
  | Ok None => Panic SITE_WIDTH_UNWRAP                                  (* :68 *)
  | Panic s => Panic s
  end.

(** result of a builder call: a style, Err(TemplateError) (with_template / template), or a panic *)
Inductive bres := BOk (s : style) | BErr (st : tstate) (c : N) | BPanic (site : N).

(* segment("█░") and the tick string literal of ProgressStyle::new (style.rs:95-101); both
   block characters are one column wide (checked by the harness against unicode-width) *)
Definition default_chars : list cluster := map (fun c => mkcl [c] 1) DEFAULT_PROGRESS_CHARS.
Definition default_ticks : list (list N) := map (fun c => [c]) DEFAULT_TICK_CHARS.

(* ProgressStyle::new (style.rs:94-108) *)
Definition new_style (parts : list part) : bres :=
  match width_of default_chars with                                     (* :96 *)
  | Ok w => BOk (mkstyle default_ticks default_chars w parts [] DEFAULT_TAB_WIDTH)
  | Panic s => BPanic s
  end.

Inductive ctor := CDefaultBar | CDefaultSpinner | CWithTemplate (s : list N).

Definition construct (c : ctor) : bres :=
  match c with
  | CDefaultBar =>                                                      (* :73-75 *)
      match parse_full DEFAULT_BAR_TEMPLATE with
      | PRes (POk ps) => new_style ps
      | PRes (PErr _ _) => BPanic SITE_DEFAULT_UNWRAP
      | PPanic site => BPanic (psite_code site)
      end
  | CDefaultSpinner =>                                                  (* :78-80 *)
      match parse_full DEFAULT_SPINNER_TEMPLATE with
      | PRes (POk ps) => new_style ps
      | PRes (PErr _ _) => BPanic SITE_DEFAULT_UNWRAP
      | PPanic site => BPanic (psite_code site)
      end
  | CWithTemplate s =>                                                  (* :85-87 *)
      match parse_full s with
      | PRes (POk ps) => new_style ps
      | PRes (PErr st c) => BErr st c
      | PPanic site => BPanic (psite_code site)
      end
  end.

Inductive bop :=
| OTickChars (s : list N)                 (* tick_chars(s): one tick string per char *)
| OTickStrings (l : list (list N))        (* tick_strings(&[..]) *)
| OProgressChars (cl : list cluster)      (* progress_chars(s): cl = segment(s) with measured widths *)
| OTemplate (s : list N)                  (* template(s) *)
| OWithKey (k : list N)                   (* with_key(k, tracker) *)
| OSetTab (w : N).                        (* ProgressBar::set_style / set_tab_width -> set_tab_width(w) *)

Definition bstep (st : style) (o : bop) : bres :=
  match o with
  | OTickChars s =>                                                     (* :114-123 *)
      let t := map (fun c => [c]) s in
      if nlen t <? 2 then BPanic SITE_TICK_CHARS
      else BOk (mkstyle t (st_chars st) (st_cw st) (st_parts st) (st_keys st) (st_tab st))
  | OTickStrings l =>                                                   (* :129-138 *)
      if nlen l <? 2 then BPanic SITE_TICK_STRINGS
      else BOk (mkstyle l (st_chars st) (st_cw st) (st_parts st) (st_keys st) (st_tab st))
  | OProgressChars cl =>                                                (* :144-160 *)
      if nlen cl <? 2 then BPanic SITE_PCHARS_LT2                       (* :148 *)
      else match width_of cl with                                       (* :152 *)
           | Panic s => BPanic s
           | Ok w => if w =? 0 then BPanic SITE_PCHARS_ZERO             (* :153 *)
                     else if existsb (fun c => has_tab (cl_text c)) cl  (* :158 the argument is the *)
                     then BPanic SITE_PCHARS_TAB                        (*      concatenation of cl *)
                     else BOk (mkstyle (st_ticks st) cl w (st_parts st) (st_keys st) (st_tab st))
           end
  | OTemplate s =>                                                      (* :171-174 *)
      match parse_full s with
      | PRes (POk ps) => BOk (mkstyle (st_ticks st) (st_chars st) (st_cw st) ps (st_keys st) (st_tab st))
      | PRes (PErr s' c) => BErr s' c
      | PPanic site => BPanic (psite_code site)
      end
  | OWithKey k =>                                                       (* :163-166 *)
      BOk (mkstyle (st_ticks st) (st_chars st) (st_cw st) (st_parts st) (k :: st_keys st) (st_tab st))
  | OSetTab w =>                                                        (* :89-92 *)
      BOk (mkstyle (st_ticks st) (st_chars st) (st_cw st) (st_parts st) (st_keys st) w)
  end.

(* a chain of builder calls stops at the first call that does not return a style; the number
   is the index of that call (0 = the constructor, k = the k-th method) *)
Fixpoint brun_idx (i : N) (st : style) (ops : list bop) : N * bres :=
  match ops with
  | [] => (i, BOk st)
  | o :: r => match bstep st o with
              | BOk st' => brun_idx (i + 1) st' r
              | e => (i + 1, e)
              end
  end.

Definition build_idx (c : ctor) (ops : list bop) : N * bres :=
  match construct c with
  | BOk st => brun_idx 0 st ops
  | e => (0, e)
  end.

Definition build (c : ctor) (ops : list bop) : bres := snd (build_idx c ops).

(** ** rendering: the partial operations of one format_state call *)
(* what the code asks of a string it measures: str::len() and console::measure_text_width *)
Record mtext := mkmt { mt_len : N; mt_cols : N }.

Record snapshot := mksnap {
  sn_pos : N;                 (* state.pos() *)
  sn_len : option N;          (* state.len() *)
  sn_tick : N;                (* state.tick *)
  sn_finished : bool;         (* state.is_finished() *)
  sn_msg : mtext;             (* state.message.expanded() *)
  sn_prefix : mtext;          (* state.prefix.expanded() *)
  sn_msg_tab : bool;          (* the message contains a tab (TabExpandedString::WithTabs) *)
  sn_prefix_tab : bool }.

(* the integers format_bar derives through f32 arithmetic and saturating `as usize` casts
   (style.rs:197-214): any usize / bool *)
Record fbar := mkfbar {
  fb_filled : N;              (* :199 entirely_filled = fill as usize *)
  fb_head : bool;             (* :202 fill > 0.0 && entirely_filled < width *)
  fb_k : N }.                 (* :214 (fill.fract() * n as f32) as usize *)

Record oracles := mkor {
  o_meas : nat -> mtext;      (* `buf` after the key of template part #i has been written (:258-367) *)
  o_writes : nat -> bool;     (* the with_key tracker of part #i calls write_str at least once *)
  o_bar : N -> fbar;          (* per bar width in clusters *)
  o_cur_cols : nat -> N;      (* :456 measure_text_width(cur without NUL) when push_line runs at part #i *)
  o_cur_nonempty : bool;      (* :397 !cur.is_empty() after the last part *)
  o_lines : list N }.         (* console_width() of every line handed to the draw target *)

Definition oseq {A} (o : outcome unit) (k : outcome A) : outcome A :=
  match o with Ok _ => k | Panic s => Panic s end.

(** get_tick_str (style.rs:184-186); [idx as usize] is the identity on a 64 bit target.
    With overflow checks off `len() - 1` wraps for an empty vector and the index panics
    instead: a panic either way. *)
Definition get_tick_str (ticks : list (list N)) (idx : N) : outcome (list N) :=
  let n := nlen ticks in
  if n =? 0 then Panic SITE_TICK_SUB
  else if n - 1 =? 0 then Panic SITE_TICK_REM
  else match nth_error ticks (N.to_nat (idx mod (n - 1))) with
       | Some s => Ok s
       | None => Panic SITE_TICK_IDX
       end.

(** get_final_tick_str (style.rs:189-191) *)
Definition get_final_tick_str (ticks : list (list N)) : outcome (list N) :=
  let n := nlen ticks in
  if n =? 0 then Panic SITE_FINAL_SUB
  else match nth_error ticks (N.to_nat (n - 1)) with
       | Some s => Ok s
       | None => Panic SITE_FINAL_IDX
       end.

(** current_tick_str (style.rs:176-181) *)
Definition current_tick_str (st : style) (sn : snapshot) : outcome (list N) :=
  if sn_finished sn then get_final_tick_str (st_ticks st)
  else get_tick_str (st_ticks st) (sn_tick sn).

(** format_bar (style.rs:193-234) followed by BarDisplay::fmt (705-715); both callers format
    the returned BarDisplay at once.  [width] is in columns. *)
Definition bar_cur (n : N) (fb : fbar) : option N :=
  if fb_head fb then
    let m := n - 2 in                                   (* :206 saturating_sub(2) *)
    Some (if m <=? 1 then 1 else m - fb_k fb)           (* :207-215, saturating_sub *)
  else None.

Definition format_bar (st : style) (O : oracles) (width : N) : outcome unit :=
  if st_cw st =? 0 then Panic SITE_BAR_DIV else         (* :195 *)
  let cells := width / st_cw st in
  let fb := o_bar O cells in
  let n := nlen (st_chars st) in
  let cur := bar_cur n fb in
  if n =? 0 then Panic SITE_BAR_LAST else               (* :224 len() - 1 and the index *)
  if (0 <? fb_filled fb) && (n =? 0) then Panic SITE_BAR_IDX0 else   (* :708 *)
  match cur with
  | Some c => if c <? n then Ok tt else Panic SITE_BAR_CUR           (* :711 *)
  | None => Ok tt
  end.

(** PaddedStringDisplay::fmt (style.rs:738-773): the two usize subtractions; everything
    else (saturating_sub, str::get(..).unwrap_or, the padding loops) is total *)
Definition padded_sites (t : mtext) (width : N) (a : align) (trunc : bool) : outcome unit :=
  let excess := mt_cols t - width in                    (* :741 saturating_sub *)
  if (0 <? excess) && negb trunc then Ok tt             (* :742 *)
  else if 0 <? excess then
    match a with
    | ALeft => if mt_len t <? excess then Panic SITE_PAD_LEFT else Ok tt                  (* :746 *)
    | ARight => Ok tt                                                                      (* :747 *)
    | ACenter => if mt_len t <? excess - excess / 2 then Panic SITE_PAD_CENTER else Ok tt  (* :750 *)
    end
  else Ok tt.

(** `" ".repeat(tab_width)`: evaluated by TabRewriter::write_str on EVERY call (style.rs:434-439,
    whether or not the text has a tab) and by TabExpandedString::expanded for a text that has
    one (state.rs:393).  Vec capacity is limited to isize::MAX bytes: above it `repeat` panics
    ("capacity overflow").  At or below it the model lets the call succeed: it has NO outcome for
    a failed allocation (the process aborts - not a panic) nor for the `replace` result growing
    beyond isize::MAX (#tabs * tab_width > isize::MAX) - assumption A4, see docs/C14.md. *)
Definition tab_site (st : style) (needed : bool) : outcome unit :=
  if needed && (ISIZE_MAX <? st_tab st) then Panic SITE_TAB_REPEAT else Ok tt.

(** TabExpandedString (state.rs:361-410).  Values are only ever built by `new` (371-381), which
    chooses NoTabs exactly for tab-free text, and by the literal NoTabs("") of
    ProgressState::new (state.rs:271-272); set_tab_width (397-409) keeps the variant.
    `expanded` (383-395): the NoTabs arm holds a debug_assert (a panic site of debug builds),
    the WithTabs arm the `repeat`. *)
Inductive tes_variant := VNoTabs | VWithTabs.
Definition tes_new (text_has_tab : bool) : tes_variant :=
  if text_has_tab then VWithTabs else VNoTabs.                          (* state.rs:372 *)
Definition expanded_site (st : style) (v : tes_variant) (text_has_tab : bool) : outcome unit :=
  match v with
  | VNoTabs => if text_has_tab then Panic SITE_NOTABS_ASSERT else Ok tt (* state.rs:386 *)
  | VWithTabs => tab_site st true                                       (* state.rs:393 *)
  end.
(** Every place where the crate (outside #[cfg(test)]) makes or changes a TabExpandedString,
    as (variant, "the text holds a tab"):
      - TabExpandedString::new: progress_bar.rs:106,117,329,339 (prefix / message setters),
        state.rs:55,65 (finish / abandon with message), style.rs:503,531,589,632 (template literals);
      - the literal NoTabs("") of ProgressState::new, state.rs:271-272;
      - set_tab_width, state.rs:397-409: neither the variant nor the text changes.
    This list is a reading of the source, GUARDED by the check: c14.rs [tes_site_inventory] re-counts
    every `TabExpandedString::NoTabs(` / `::WithTabs {` / `::new(` / `Self::NoTabs(` / `Self::WithTabs {`
    outside the test modules of /repo/src per (file, fn) on every run and fails with class
    `unaudited-tabexpandedstring-site` on a site that is not listed.  The statement over all
    histories of bar operations is
    C16's invariant (props/C16.v, C16_inv: `tes_ok (NoTabs s) := has_tab s = false`). *)
Inductive tes_made : tes_variant -> bool -> Prop :=
| made_new (b : bool) : tes_made (tes_new b) b
| made_empty : tes_made VNoTabs false
| made_set_tab_width (v : tes_variant) (b : bool) : tes_made v b -> tes_made v b.

(* `x.expanded()` of a value made by `new` from a text with / without a tab *)
Definition expanded_new (st : style) (text_has_tab : bool) : outcome unit :=
  expanded_site st (tes_new text_has_tab) text_has_tab.
Inductive wide := WBar | WMsg (a : align).

Module KeyNames.
  Import String.
  Local Open Scope string_scope.
  Definition wide_bar := str_codes "wide_bar".
  Definition bar := str_codes "bar".
  Definition spinner := str_codes "spinner".
  Definition wide_msg := str_codes "wide_msg".
  Definition msg := str_codes "msg".
  Definition prefix := str_codes "prefix".
  Definition per_sec := str_codes "per_sec".
End KeyNames.
Definition key_is (k c : list N) : bool := list_eqb N.eqb k c.

(** one Placeholder part (style.rs:250-389): the sites of the key's arm, then of the padding.
    Returns the new value of `wide` if the arm assigns it. *)
Definition placeholder_sites (st : style) (sn : snapshot) (O : oracles) (i : nat) (p : ph)
  : outcome (option wide) :=
  let key := ph_key p in
  let arm : outcome (option wide * mtext) :=
    if existsb (list_eqb N.eqb key) (st_keys st) then                         (* :259-260 tracker.write *)
      oseq (tab_site st (o_writes O i)) (Ok (None, o_meas O i))
    else if key_is key KeyNames.wide_bar then Ok (Some WBar, o_meas O i)             (* :263-266 *)
    else if key_is key KeyNames.bar then                                              (* :267-276 *)
      oseq (format_bar st O (match ph_width p with Some w => w | None => DEFAULT_BAR_WIDTH end))
          (Ok (None, o_meas O i))
    else if key_is key KeyNames.spinner then                                          (* :277-279 *)
      match current_tick_str st sn with
      | Ok _ => oseq (tab_site st true) (Ok (None, o_meas O i))    (* TabRewriter(..).write_str(tick) *)
      | Panic s => Panic s
      end
    else if key_is key KeyNames.wide_msg then Ok (Some (WMsg (ph_align p)), o_meas O i)   (* :280-283 *)
    else if key_is key KeyNames.msg then                                       (* :284 *)
      oseq (expanded_new st (sn_msg_tab sn)) (Ok (None, sn_msg sn))
    else if key_is key KeyNames.prefix then                                    (* :285 *)
      oseq (expanded_new st (sn_prefix_tab sn)) (Ok (None, sn_prefix sn))
    else if key_is key KeyNames.per_sec then                                          (* :322-337 *)
      match ph_width p with
      | Some w => if U16 <=? w then Panic SITE_PRECISION else Ok (None, o_meas O i)
      | None => Ok (None, o_meas O i)
      end
    else Ok (None, o_meas O i) in              (* the other arms and `_ => ()`: total, see docs/C14.md *)
  match arm with
  | Panic s => Panic s
  | Ok (nw, buf) =>
      oseq (match ph_width p with                                               (* :369-388 *)
           | Some w => padded_sites buf w (ph_align p) (ph_trunc p)
           | None => Ok tt
           end)
          (Ok nw)
  end.

(** push_line (style.rs:403-429) -> WideElement::expand (447-487) when `wide` is set *)
Definition push_line_sites (st : style) (sn : snapshot) (O : oracles) (i : nat)
           (wd : option wide) (tw : N) : outcome unit :=
  match wd with
  | None => Ok tt
  | Some w =>
      let left := tw - o_cur_cols O i in                 (* :456 saturating_sub *)
      match w with
      | WBar => format_bar st O left                     (* :458-464 (the format! runs even without a NUL) *)
      | WMsg a => oseq (expanded_new st (sn_msg_tab sn))  (* :470 state.message.expanded() *)
                       (padded_sites (sn_msg sn) left a true)   (* :465-476 *)
      end
  end.

(** the loop of format_state (style.rs:248-395); `wide` is never reset between lines *)
Fixpoint walk (st : style) (sn : snapshot) (O : oracles) (tw : N) (i : nat) (ps : list part)
         (wd : option wide) : outcome (option wide) :=
  match ps with
  | [] => Ok wd
  | PLit s :: r => oseq (expanded_new st (has_tab s)) (walk st sn O tw (S i) r wd)   (* :390 s.expanded() *)
  | PPh p :: r =>
      match placeholder_sites st sn O i p with
      | Panic s => Panic s
      | Ok nw => walk st sn O tw (S i) r (match nw with Some x => Some x | None => wd end)
      end
  | PNewLine :: r =>                                                           (* :391-393 *)
      oseq (push_line_sites st sn O i wd tw) (walk st sn O tw (S i) r wd)
  end.

(** format_state (style.rs:236-400) *)
Definition render_outcome (st : style) (sn : snapshot) (tw : N) (O : oracles) : outcome unit :=
  match walk st sn O tw 0 (st_parts st) None with
  | Panic s => Panic s
  | Ok wd =>
      if o_cur_nonempty O then push_line_sites st sn O (length (st_parts st)) wd tw   (* :397-399 *)
      else Ok tt
  end.

(** ** the formatters of src/format.rs that format_state calls (style.rs:286-365)
    [render_outcome] treats `buf.write_fmt(format_args!("{}", HumanXxx(arg))).unwrap()` as total:
    the partial operations INSIDE those Display impls are not sites of this model but of C15's
    (Fmt.v: usize underflow of `len - idx - 1`, Duration overflow of `cur + cur / 2`, `UNITS[idx]`,
    `UNITS.len() - 1`, `prefixes[prefix - 1]`).  Which formatter an arm calls on which getter is
    NOT transcribed a second time here: it is C11's dispatch [Keys.builtin_value] (Keys.v, tied to
    the code by bin c11 key by key), instantiated with the formatter record
    [TabsEnv.fmt_formatters] that wraps Fmt.v's models (and hides a model panic as the empty text,
    [TabsEnv.ok_or_nil]).  [formatter_call] only NAMES, for each built-in key, the case of
    [Fmt.fmt_model] that dispatch evaluates and the literal suffix it appends; the agreement with
    Keys.builtin_value is proved (BuilderProofs.formatter_call_agrees), so a wrong entry here does
    not survive.  Keys without an entry ([None]) produce their text without any formatter of
    src/format.rs (BuilderProofs.formatter_call_none).  Durations are nanoseconds in Keys.v. *)
Definition formatter_call (s : Keys.snapshot) (b : Keys.bkey) (width : option N)
  : option (Fmt.fcase * list N) :=
  let pos := Keys.s_pos s in
  let len := match Keys.s_len s with Some l => l | None => pos end in
  let o := Keys.s_obs s in
  let dur (d : N) := (d / TabsEnv.NS, d mod TabsEnv.NS) in
  let rate := Keys.f64_to_u64 (Keys.o_per_sec o) in                       (* per_sec() as u64 *)
  match b with
  | Keys.KHumanPos => Some (Fmt.CCount pos, [])
  | Keys.KHumanLen => Some (Fmt.CCount len, [])
  | Keys.KBytes => Some (Fmt.CBytes 0 pos, [])
  | Keys.KTotalBytes => Some (Fmt.CBytes 0 len, [])
  | Keys.KDecimalBytes => Some (Fmt.CBytes 1 pos, [])
  | Keys.KDecimalTotalBytes => Some (Fmt.CBytes 1 len, [])
  | Keys.KBinaryBytes => Some (Fmt.CBytes 2 pos, [])
  | Keys.KBinaryTotalBytes => Some (Fmt.CBytes 2 len, [])
  | Keys.KElapsedPrecise => Some (Fmt.CFDur (fst (dur (Keys.o_elapsed o))) (snd (dur (Keys.o_elapsed o))), [])
  | Keys.KElapsed => Some (Fmt.CHDur (fst (dur (Keys.o_elapsed o))) (snd (dur (Keys.o_elapsed o))) true, [])
  | Keys.KPerSec => Some (Fmt.CFloat width (Keys.o_per_sec o), Keys.per_s)
  | Keys.KBytesPerSec => Some (Fmt.CBytes 0 rate, Keys.per_s)
  | Keys.KDecimalBytesPerSec => Some (Fmt.CBytes 1 rate, Keys.per_s)
  | Keys.KBinaryBytesPerSec => Some (Fmt.CBytes 2 rate, Keys.per_s)
  | Keys.KEtaPrecise => Some (Fmt.CFDur (fst (dur (Keys.o_eta o))) (snd (dur (Keys.o_eta o))), [])
  | Keys.KEta => Some (Fmt.CHDur (fst (dur (Keys.o_eta o))) (snd (dur (Keys.o_eta o))) true, [])
  | Keys.KDurationPrecise => Some (Fmt.CFDur (fst (dur (Keys.o_duration o))) (snd (dur (Keys.o_duration o))), [])
  | Keys.KDuration => Some (Fmt.CHDur (fst (dur (Keys.o_duration o))) (snd (dur (Keys.o_duration o))) true, [])
  | Keys.KWideBar | Keys.KBar | Keys.KSpinner | Keys.KWideMsg | Keys.KMsg | Keys.KPrefix
  | Keys.KPos | Keys.KLen | Keys.KPercent | Keys.KPercentPrecise => None
  end.

(* two formatter records that differ at most in the format.rs formatters *)
Definition same_core_formatters (F G : Keys.formatters) : Prop :=
  Keys.f_percent F = Keys.f_percent G /\ Keys.f_bar F = Keys.f_bar G.

(** ** one frame on the terminal (draw_target.rs) – all lines are LineType::Bar *)
Definition sat_addu (a b : N) : N := N.min USIZE_MAX (a + b).
Definition sat_mulu (a b : N) : N := N.min USIZE_MAX (a * b).

(** LineType::wrapped_height (draw_target.rs:721-731): ceil(cols as f64 / width as f64) as usize,
    at least 1.  width = 0: x/0 = +inf -> usize::MAX, 0/0 = NaN -> 0 -> 1.  For width > 0 the
    f64 ceiling is taken to be the exact one (docs/C14.md, assumption A3). *)
Definition wrapped_height (cols tw : N) : N :=
  if tw =? 0 then (if cols =? 0 then 1 else USIZE_MAX)
  else N.max 1 ((cols + tw - 1) / tw).

(* visual_line_count (draw_target.rs:707-711) *)
Definition visual_line_count (ls : list N) (tw : N) : N :=
  fold_left (fun acc c => sat_addu acc (wrapped_height c tw)) ls 0.

(* the paint loop (draw_target.rs:588-628); every line is a Bar line, so `padded` (:566) is true
   from the start and the padding rows are written before the loop (:574-578) *)
Fixpoint paint (ls : list N) (idx total tw th real : N) : outcome N :=
  match ls with
  | [] => Ok real
  | c :: r =>
      let h := wrapped_height c tw in                                     (* :589 *)
      if th <? sat_addu real h then Ok real                               (* :594 break *)
      else if USIZE_MAX <? real + h then Panic SITE_REAL_ADD              (* :605 *)
      else if ((idx + 1 =? total) || ((idx =? 0) && (c =? 0)))           (* :619 *)
              && (ISIZE_MAX <? sat_mulu h tw - c)                         (* :622-626 *)
           then Panic SITE_REPEAT
      else paint r (idx + 1) total tw th (real + h)
  end.

(** the rows the call erases first (draw_target.rs:526-550): since 7d42cff `*bar_count` is capped
    at the terminal height in place before anything else; `clear_line` is called that many times
    (non-move_cursor branch) - the observable the harness compares *)
Definition frame_clears (th n : N) : N := N.min n th.

(** DrawState::draw_to_term (draw_target.rs:514-645); [n] = *bar_count before the call,
    [bottom] = the alignment is MultiProgressAlignment::Bottom.  Returns the new *bar_count.
    `painted_any` / `cursor_below` (dadbe71, :584, :615, :637-641) only decide one
    `move_cursor_up(1)` of the NEXT call: no partial operation, not part of the count, not
    modelled here (Draw.v models it). *)
Definition frame_outcome (ls : list N) (tw th n : N) (bottom : bool) : outcome N :=
  let n := frame_clears th n in                                           (* :526-529 *)
  let full := visual_line_count ls tw in                                  (* :555 *)
  let shift := if bottom && (full <? n) then n - full else 0 in           (* :557-562; the subtraction is guarded by its own match arm *)
  (* :572-573 an empty frame whose padding is as tall as the terminal *)
  let full_screen := match ls with [] => (0 <? shift) && (th <=? shift) | _ => false end in
  if full_screen && (shift =? 0) then Panic SITE_PAD_ROWS_SUB else        (* :575 shift - usize::from(..) *)
  match paint ls 0 (nlen ls) tw th 0 with
  | Panic s => Panic s
  | Ok real => if USIZE_MAX <? real + shift then Panic SITE_COUNT_ADD     (* :642 *)
               else Ok (real + shift)
  end.

(** BarState::draw (state.rs:200-223) on a target that accepts the draw *)
Definition draw_outcome (st : style) (sn : snapshot) (tw th n : N) (bottom : bool) (O : oracles)
  : outcome N :=
  oseq (render_outcome st sn tw O) (frame_outcome (o_lines O) tw th n bottom).

(** ** specification side *)
(** the invariant of every style the builder hands out *)
Definition part_ok (p : part) : Prop :=
  match p with
  | PPh q => match ph_width q with Some w => w < U16 | None => True end
  | _ => True
  end.

Definition StyleOK (st : style) : Prop :=
  2 <= nlen (st_ticks st)
  /\ 2 <= nlen (st_chars st)
  /\ 1 <= st_cw st
  /\ Forall (fun c => cl_w c = st_cw st) (st_chars st)
  /\ Forall (fun c => has_tab (cl_text c) = false) (st_chars st)
  /\ Forall part_ok (st_parts st).

(** the documented contract of the builder methods (doc comments at style.rs:110-143,
    src/lib.rs): at least two tick strings / progress characters, progress characters of
    equal, non-zero width and none of them a TAB (a tab cannot be a cell of a bar: its expansion
    is not char_width columns wide); written independently of [bstep] *)
Definition accepts (o : bop) : Prop :=
  match o with
  | OTickChars s => 2 <= nlen s
  | OTickStrings l => 2 <= nlen l
  | OProgressChars cl => 2 <= nlen cl /\ (exists w, 1 <= w /\ Forall (fun c => cl_w c = w) cl)
                         /\ Forall (fun c => ~ In 9 (cl_text c)) cl
  | OTemplate s => exists ps, parse s = POk ps
  | OWithKey _ | OSetTab _ => True
  end.

(** tab widths for which `" ".repeat(tab_width)` does not exceed the capacity of a Vec *)
Definition tab_sane (st : style) : Prop := st_tab st <= ISIZE_MAX.
(** the calls that are methods of ProgressStyle (OSetTab is made by the ProgressBar) *)
Definition builder_op (o : bop) : Prop := match o with OSetTab _ => False | _ => True end.

(** the assertions of the builder methods (what a refused argument may report) *)
Definition builder_site (s : N) : Prop :=
  s = SITE_WIDTH_UNEQUAL \/ s = SITE_TICK_CHARS \/ s = SITE_TICK_STRINGS
  \/ s = SITE_PCHARS_LT2 \/ s = SITE_PCHARS_ZERO \/ s = SITE_PCHARS_TAB.

(** the witness of the refuted tab-width clause (D24): with_template("{ck}").with_key("ck", _) on a
    bar with tab width usize::MAX, drawn in a plain state *)
Definition huge_tab_ops : list bop := [OWithKey [99; 107]; OSetTab 18446744073709551615].
Definition huge_tab_template : list N := [123; 99; 107; 125].      (* "{ck}" *)

(** C12's alignment type (Padded.v) read as this model's (Template.v) *)
Definition conv_align (a : Padded.align) : align :=
  match a with Padded.ALeft => ALeft | Padded.ACenter => ACenter | Padded.ARight => ARight end.

(** the universal fact about console::measure_text_width this development assumes of every
    measured string: it never reports more columns than the string has bytes *)
Definition mt_ok (t : mtext) : Prop := mt_cols t <= mt_len t.
Definition oracles_ok (O : oracles) : Prop := forall i, mt_ok (o_meas O i).
Definition snap_ok (sn : snapshot) : Prop := mt_ok (sn_msg sn) /\ mt_ok (sn_prefix sn).

Definition plain_snap : snapshot := mksnap 0 (Some 3) 1 false (mkmt 1 1) (mkmt 0 0) false false.
Definition plain_oracles : oracles :=
  mkor (fun _ => mkmt 1 1) (fun _ => true) (fun c => mkfbar 0 false 0) (fun _ => 1) true [1].

(** ** correspondence entry point *)
(* what the harness saw of the chain of builder calls: [i] = index of the failing call *)
Inductive bobs :=
| ObsBuilt
| ObsErr (i : N) (st : tstate) (c : N)
| ObsPanic (i : N) (site : N).

(* one draw of a bar carrying the built style:
   (pos, len, tick, finished, (msg len, cols, has a tab), (prefix len, cols, has a tab),
    tab width of the bar, terminal width, height, returned normally) *)
Definition probe := (N * option N * N * bool * (N * N * bool) * (N * N * bool) * N * N * N * bool)%type.
(* ProgressStyle::get_tick_str(idx) (Some idx) or get_final_tick_str() (None): the string
   returned, None if the call panicked *)
Definition tprobe := (option N * option (list N))%type.

(* the frame counter across successive draws of one bar on a terminal of width [tw]: per draw
   (console widths of the lines format_state produced, terminal height at that draw, number of
   clear_line calls observed in that draw = the capped count left by the draws before) *)
Definition fprobe := (N * list (list N * N * N))%type.

Definition bcase := (ctor * list bop * bobs * list probe * list tprobe * list fprobe)%type.

Definition probe_oracles (lines : list N) : oracles :=
  mkor (fun _ => mkmt 0 0) (fun _ => true) (fun c => mkfbar (c / 2) true 1) (fun _ => 0) true lines.

Definition is_ok {A} (o : outcome A) : bool := match o with Ok _ => true | Panic _ => false end.

Definition probe_ok (st : style) (p : probe) : bool :=
  let '(pos, len, tick, fin, (ml, mc, mt), (pl, pc, pt), tab, tw, th, ok) := p in
  let sn := mksnap pos len tick fin (mkmt ml mc) (mkmt pl pc) mt pt in
  (mc <=? ml) && (pc <=? pl) &&
  match bstep st (OSetTab tab) with               (* ProgressBar::with_tab_width + set_style *)
  | BOk st' => Bool.eqb (is_ok (draw_outcome st' sn tw th 0 false (probe_oracles [0]))) ok
  | _ => false
  end.

Definition tprobe_ok (st : style) (t : tprobe) : bool :=
  let '(idx, obs) := t in
  match (match idx with
         | Some i => get_tick_str (st_ticks st) i
         | None => get_final_tick_str (st_ticks st)
         end), obs with
  | Ok s, Some s' => list_eqb N.eqb s s'
  | Panic _, None => true
  | _, _ => false
  end.

Fixpoint fsteps_ok (tw n : N) (steps : list (list N * N * N)) : bool :=
  match steps with
  | [] => true
  | (ls, th, clears) :: r =>
      (frame_clears th n =? clears) &&
      match frame_outcome ls tw th n false with
      | Ok n' => fsteps_ok tw n' r
      | Panic _ => false
      end
  end.
Definition fprobe_ok (p : fprobe) : bool := fsteps_ok (fst p) 0 (snd p).

Definition builder_check (c : bcase) : bool :=
  let '(ct, ops, obs, probes, tprobes, fprobes) := c in
  match build_idx ct ops, obs with
  | (_, BOk st), ObsBuilt => forallb (probe_ok st) probes && forallb (tprobe_ok st) tprobes
                             && forallb fprobe_ok fprobes
  | (i, BErr s ch), ObsErr j s' ch' => (i =? j) && tstate_eqb s s' && (ch =? ch')
  | (i, BPanic site), ObsPanic j site' => (i =? j) && (site =? site')
  | _, _ => false
  end.
