(** C11 - placeholder values reflect the bar state at draw time.

    Transcribes (line numbers: /repo HEAD 7d42cff)
      - ProgressStyle::format_state: the loop over the template parts incl. NewLine parts
        (multi-line templates), the key dispatch, the final `if !cur.is_empty()`
                                                              (src/style.rs:236-400)
      - push_line / WideElement::expand                       (src/style.rs:403-486)
      - current_tick_str / get_tick_str / get_final_tick_str  (src/style.rs:176-191)
      - PaddedStringDisplay (left aligned; ASCII content)     (src/style.rs:731-773)
      - TabRewriter (src/style.rs:432-439): the writer of the custom keys (style.rs:260) AND,
        since fix 6ff82af, of the `spinner` arm (style.rs:277-279): a TAB of a tick string is
        replaced by `style.tab_width` blanks like a TAB of a message / prefix / custom value
      - the state changes, tracker fan-out and draw of every ProgressBar update
        (src/progress_bar.rs:167-171,231-300,327-460, src/state.rs:43-152,200-223)
    The formatters (HumanCount, HumanBytes, ..., format_bar, f32/f64 Display) are NOT
    modelled here (C15 / C13 own them): they are the fields of a record [formatters]
    over which every definition is parametric.  The correspondence check instantiates
    the record with a finite table computed by the harness with the REAL public
    formatters applied to the REAL getters.  (`progress_chars` rejects a TAB since 6ff82af,
    style.rs:158-159, so `format_bar` never sees one; C13/C14 own that.)
    Definitions only. *)
From IndModel Require Export Base.
From IndGen Require Import Constants.
From Coq Require Export String.
From Coq Require Import Ascii.
Open Scope N_scope.

(** text = list of Unicode scalar values *)
Definition text := list N.

Fixpoint text_of_string (s : string) : text :=
  match s with
  | EmptyString => []
  | String a r => N_of_ascii a :: text_of_string r
  end.

(** [format_args!("{}", n)] for n : u64 *)
Fixpoint uint_text (d : Decimal.uint) : text :=
  match d with
  | Decimal.Nil => []
  | Decimal.D0 r => 48 :: uint_text r
  | Decimal.D1 r => 49 :: uint_text r
  | Decimal.D2 r => 50 :: uint_text r
  | Decimal.D3 r => 51 :: uint_text r
  | Decimal.D4 r => 52 :: uint_text r
  | Decimal.D5 r => 53 :: uint_text r
  | Decimal.D6 r => 54 :: uint_text r
  | Decimal.D7 r => 55 :: uint_text r
  | Decimal.D8 r => 56 :: uint_text r
  | Decimal.D9 r => 57 :: uint_text r
  end.
Definition dec_text (n : N) : text := uint_text (N.to_uint n).

Definition spaces (n : N) : text := N.iter n (cons 32) [].

(** [s.replace('\t', &" ".repeat(w))]  (state.rs:393, style.rs:437) *)
Definition expand_tabs (w : N) (t : text) : text :=
  flat_map (fun c => if c =? 9 then spaces w else [c]) t.

(** console::measure_text_width on text without ANSI sequences.  Exact for ASCII
    (control characters have width 0); other characters are counted as 1 column, which is
    outside the modelled domain (C12 owns width measurement). *)
Definition char_width (c : N) : N := if (c <? 32) || (c =? 127) then 0 else 1.
Definition text_width (t : text) : N := fold_right (fun c a => char_width c + a) 0 t.

(** PaddedStringDisplay { align: Left, truncate: false }  (style.rs:738-773) *)
Definition pad_left (t : text) (w : N) : text :=
  let cols := text_width t in
  let excess := cols - w in
  if 0 <? excess then t                       (* excess > 0 && !truncate *)
  else t ++ spaces (w - cols).

(** PaddedStringDisplay { align: Left, truncate: true }: byte slice 0..len-excess,
    which for ASCII text is the first (len - excess) characters *)
Definition pad_left_trunc (t : text) (w : N) : text :=
  let cols := text_width t in
  let excess := cols - w in
  if 0 <? excess then firstn (List.length t - N.to_nat excess) t
  else t ++ spaces (w - cols).

(** char::is_whitespace (White_Space property), used by str::trim_end *)
Definition is_ws (c : N) : bool :=
  ((9 <=? c) && (c <=? 13)) || (c =? 32) || (c =? 133) || (c =? 160) || (c =? 5760)
  || ((8192 <=? c) && (c <=? 8202)) || (c =? 8232) || (c =? 8233) || (c =? 8239)
  || (c =? 8287) || (c =? 12288).
Fixpoint drop_ws (t : text) : text :=
  match t with
  | [] => []
  | c :: r => if is_ws c then drop_ws r else t
  end.
Definition trim_end (t : text) : text := rev (drop_ws (rev t)).

(** [cur.replace('\x00', by)] *)
Definition replace0 (by_ : text) (t : text) : text :=
  flat_map (fun c => if c =? 0 then by_ else [c]) t.

(** [expanded.split('\n')] (style.rs:420-428: the loop pushes exactly the pieces of the split) *)
Fixpoint split_nl (t : text) (cur : text) : list text :=
  match t with
  | [] => [rev cur]
  | c :: r => if c =? 10 then rev cur :: split_nl r [] else split_nl r (c :: cur)
  end.

(** [x as u64] for x : f64 given by its bits: NaN -> 0, negative -> 0, saturating at
    u64::MAX, otherwise truncation towards zero. *)
Definition f64_to_u64 (bits : N) : N :=
  let sign := bits / 9223372036854775808 in            (* 2^63 *)
  let e := (bits / 4503599627370496) mod 2048 in       (* 2^52 *)
  let m := bits mod 4503599627370496 in
  if e =? 2047 then (if m =? 0 then (if sign =? 0 then U64MAX else 0) else 0)
  else if sign =? 1 then 0
  else if e =? 0 then 0                                  (* subnormal: < 1 *)
  else
    let sig := 4503599627370496 + m in
    let v := if 1075 <=? e then N.shiftl sig (e - 1075) else N.shiftr sig (1075 - e) in
    N.min U64MAX v.

(** ------------------------------------------------------------------ formatters *)
(** The public formatters, abstract.  Durations are total nanoseconds, f64/f32 values are
    their bit patterns. *)
Record formatters := {
  f_count : N -> text;                  (* HumanCount(u64), {} *)
  f_hbytes : N -> text;                 (* HumanBytes(u64), {} *)
  f_dbytes : N -> text;                 (* DecimalBytes(u64), {} *)
  f_bbytes : N -> text;                 (* BinaryBytes(u64), {} *)
  f_fdur : N -> text;                   (* FormattedDuration(d), {} *)
  f_hdur : N -> text;                   (* HumanDuration(d), {:#} *)
  f_hfloat : option N -> N -> text;     (* HumanFloatCount(f64), {} or {:.prec} *)
  f_percent : N -> N -> text;           (* {:.prec} of (fraction * 100f32), fraction : f32 *)
  f_bar : N -> N -> text                (* format_bar(fraction, width, None) displayed *)
}.

(** ------------------------------------------------------------------ snapshot *)
(** what a ProgressTracker can read from &ProgressState besides the clock-dependent getters *)
Record view := { v_pos : N; v_len : option N; v_finished : bool }.

(** the clock/estimator dependent getters, evaluated at the (frozen) instant of the draw *)
Record tobs := {
  o_fraction : N;     (* ProgressState::fraction(), f32 bits *)
  o_elapsed : N;      (* elapsed(), ns *)
  o_eta : N;          (* eta(), ns *)
  o_duration : N;     (* duration(), ns *)
  o_per_sec : N       (* per_sec(), f64 bits *)
}.

Record snapshot := {
  s_pos : N;
  s_len : option N;
  s_tick : N;
  s_finished : bool;
  s_message : text;   (* state.message.expanded() *)
  s_prefix : text;    (* state.prefix.expanded() *)
  s_obs : tobs
}.

Definition view_of (s : snapshot) : view :=
  {| v_pos := s_pos s; v_len := s_len s; v_finished := s_finished s |}.

(** ------------------------------------------------------------------ keys *)
(** the arms of [match key.as_str()] in source order (style.rs:262-365) *)
Inductive bkey :=
| KWideBar | KBar | KSpinner | KWideMsg | KMsg | KPrefix | KPos | KHumanPos | KLen | KHumanLen
| KPercent | KPercentPrecise | KBytes | KTotalBytes | KDecimalBytes | KDecimalTotalBytes
| KBinaryBytes | KBinaryTotalBytes | KElapsedPrecise | KElapsed | KPerSec | KBytesPerSec
| KDecimalBytesPerSec | KBinaryBytesPerSec | KEtaPrecise | KEta | KDurationPrecise | KDuration.

Open Scope string_scope.
Definition key_id (k : string) : option bkey :=
  if String.eqb k "wide_bar" then Some KWideBar
  else if String.eqb k "bar" then Some KBar
  else if String.eqb k "spinner" then Some KSpinner
  else if String.eqb k "wide_msg" then Some KWideMsg
  else if String.eqb k "msg" then Some KMsg
  else if String.eqb k "prefix" then Some KPrefix
  else if String.eqb k "pos" then Some KPos
  else if String.eqb k "human_pos" then Some KHumanPos
  else if String.eqb k "len" then Some KLen
  else if String.eqb k "human_len" then Some KHumanLen
  else if String.eqb k "percent" then Some KPercent
  else if String.eqb k "percent_precise" then Some KPercentPrecise
  else if String.eqb k "bytes" then Some KBytes
  else if String.eqb k "total_bytes" then Some KTotalBytes
  else if String.eqb k "decimal_bytes" then Some KDecimalBytes
  else if String.eqb k "decimal_total_bytes" then Some KDecimalTotalBytes
  else if String.eqb k "binary_bytes" then Some KBinaryBytes
  else if String.eqb k "binary_total_bytes" then Some KBinaryTotalBytes
  else if String.eqb k "elapsed_precise" then Some KElapsedPrecise
  else if String.eqb k "elapsed" then Some KElapsed
  else if String.eqb k "per_sec" then Some KPerSec
  else if String.eqb k "bytes_per_sec" then Some KBytesPerSec
  else if String.eqb k "decimal_bytes_per_sec" then Some KDecimalBytesPerSec
  else if String.eqb k "binary_bytes_per_sec" then Some KBinaryBytesPerSec
  else if String.eqb k "eta_precise" then Some KEtaPrecise
  else if String.eqb k "eta" then Some KEta
  else if String.eqb k "duration_precise" then Some KDurationPrecise
  else if String.eqb k "duration" then Some KDuration
  else None.
Close Scope string_scope.

Inductive wide := WBar | WMsg.

Definition per_s : text := [47; 115].    (* "/s" *)

(** get_tick_str (style.rs:184-186) / get_final_tick_str (189-191) / current_tick_str (176-181).
    [idx as usize] is the identity on a 64 bit target. *)
Definition get_tick_str (ticks : list text) (idx : N) : text :=
  nth (N.to_nat (idx mod (N.of_nat (List.length ticks) - 1))) ticks [].
Definition get_final_tick_str (ticks : list text) : text :=
  nth (List.length ticks - 1) ticks [].
Definition current_tick_str (ticks : list text) (s : snapshot) : text :=
  if s_finished s then get_final_tick_str ticks else get_tick_str ticks (s_tick s).

Section Render.
  Variable F : formatters.
  Variable ticks : list text.        (* style.tick_strings *)
  Variable tab : N.                  (* style.tab_width *)

  (** one arm of the match: the text pushed into [buf] and the new value of [wide], if set.
      [pos] / [len] are the two locals computed before the loop (style.rs:246-247). *)
  Definition builtin_value (s : snapshot) (b : bkey) (width : option N) : text * option wide :=
    let pos := s_pos s in
    let len := match s_len s with Some l => l | None => pos end in     (* len().unwrap_or(pos) *)
    let o := s_obs s in
    match b with
    | KWideBar => ([0], Some WBar)
    | KBar => (f_bar F (o_fraction o) (match width with Some w => w | None => DEFAULT_BAR_WIDTH end), None)
    | KSpinner =>
        (* TabRewriter(&mut buf, self.tab_width).write_str(self.current_tick_str(state))
           (style.rs:277-279, since 6ff82af) *)
        (expand_tabs tab (current_tick_str ticks s), None)
    | KWideMsg => ([0], Some WMsg)
    | KMsg => (s_message s, None)
    | KPrefix => (s_prefix s, None)
    | KPos => (dec_text pos, None)
    | KHumanPos => (f_count F pos, None)
    | KLen => (dec_text len, None)
    | KHumanLen => (f_count F len, None)
    | KPercent => (f_percent F 0 (o_fraction o), None)
    | KPercentPrecise => (f_percent F 3 (o_fraction o), None)
    | KBytes => (f_hbytes F pos, None)
    | KTotalBytes => (f_hbytes F len, None)
    | KDecimalBytes => (f_dbytes F pos, None)
    | KDecimalTotalBytes => (f_dbytes F len, None)
    | KBinaryBytes => (f_bbytes F pos, None)
    | KBinaryTotalBytes => (f_bbytes F len, None)
    | KElapsedPrecise => (f_fdur F (o_elapsed o), None)
    | KElapsed => (f_hdur F (o_elapsed o), None)
    | KPerSec =>
        (* with a width W the precision of the float is W as well (style.rs:322-337) *)
        (match width with
         | Some w => f_hfloat F (Some w) (o_per_sec o) ++ per_s
         | None => f_hfloat F None (o_per_sec o) ++ per_s
         end, None)
    | KBytesPerSec => (f_hbytes F (f64_to_u64 (o_per_sec o)) ++ per_s, None)
    | KDecimalBytesPerSec => (f_dbytes F (f64_to_u64 (o_per_sec o)) ++ per_s, None)
    | KBinaryBytesPerSec => (f_bbytes F (f64_to_u64 (o_per_sec o)) ++ per_s, None)
    | KEtaPrecise => (f_fdur F (o_eta o), None)
    | KEta => (f_hdur F (o_eta o), None)
    | KDurationPrecise => (f_fdur F (o_duration o), None)
    | KDuration => (f_hdur F (o_duration o), None)
    end.

  (** the value of a built-in key: unknown keys render nothing ([_ => ()]) *)
  Definition key_value (s : snapshot) (k : string) (width : option N) : text * option wide :=
    match key_id k with
    | Some b => builtin_value s b width
    | None => ([], None)
    end.
End Render.

(** ------------------------------------------------------------------ custom keys *)
(** A ProgressTracker: state type T with tick / reset / write (style.rs:783-792); [now] in ns. *)
Record tracker_ops (T : Type) := {
  t_tick : T -> view -> N -> T;
  t_reset : T -> view -> N -> T;
  t_write : T -> view -> text
}.
Arguments t_tick {T}.
Arguments t_reset {T}.
Arguments t_write {T}.

(** a parsed template part (TemplatePart, style.rs:673-684; alignment Left, no truncation, no
    styles).  [PNewLine] is what the parser pushes for a '\n' of the template (style.rs:501-510). *)
Inductive part := PLit (s : text) | PKey (k : string) (w : option N) | PNewLine.

Record style (T : Type) := {
  tick_strings : list text;
  sty_tab : N;                              (* style.tab_width *)
  customs : list (string * T);              (* format_map; keys unique *)
  template : list part
}.
Arguments tick_strings {T}.
Arguments sty_tab {T}.
Arguments customs {T}.
Arguments template {T}.

(** the same style with another template (used to render one template line on its own) *)
Definition with_template {T} (sty : style T) (ps : list part) : style T :=
  {| tick_strings := tick_strings sty; sty_tab := sty_tab sty; customs := customs sty;
     template := ps |}.

Fixpoint lookup {A} (k : string) (l : list (string * A)) : option A :=
  match l with
  | [] => None
  | (k', a) :: r => if String.eqb k k' then Some a else lookup k r
  end.

(** the template lines: the parts between two NewLine parts (n NewLine parts -> n+1 lines, the
    last one possibly empty) *)
Fixpoint split_lines (ps : list part) : list (list part) :=
  match ps with
  | [] => [[]]
  | PNewLine :: r => [] :: split_lines r
  | p :: r => match split_lines r with l :: ls => (p :: l) :: ls | [] => [[p]] end
  end.

(** the frame made of the renderings of the template lines: a line that is followed by a NewLine
    is pushed even when it is empty (one empty row), the text after the last NewLine is pushed
    only if it is not empty (style.rs:391-399) *)
Fixpoint join_lines (ls : list (list text)) : list text :=
  match ls with
  | [] => []
  | [l] => l
  | l :: r => (match l with [] => [[]] | _ => l end) ++ join_lines r
  end.

Section FormatState.
  Context {T : Type}.
  Variable TO : tracker_ops T.
  Variable F : formatters.

  (** what the Placeholder arm writes into the (cleared) scratch buffer [buf], and the wide
      element it sets, if any (style.rs:258-367): custom keys shadow the built-in ones, their
      output goes through TabRewriter with the style's tab width - the same width the [spinner]
      arm hands to its TabRewriter *)
  Definition key_text (sty : style T) (s : snapshot) (k : string) (w : option N)
    : text * option wide :=
    match lookup k (customs sty) with
    | Some tr => (expand_tabs (sty_tab sty) (t_write TO tr (view_of s)), None)
    | None => key_value F (tick_strings sty) (sty_tab sty) s k w
    end.

  (** the Placeholder arm (style.rs:250-389): the text appended to [cur] - [buf], padded when a
      width is given (no style, left aligned, not truncating) - and the wide element *)
  Definition render_key (sty : style T) (s : snapshot) (k : string) (w : option N)
    : text * option wide :=
    let '(buf, wd) := key_text sty s k w in
    (match w with Some w => pad_left buf w | None => buf end, wd).

  (** the parts of ONE template line (up to the first NewLine part or the end of the template)
      folded over [cur] and [wide] *)
  Fixpoint render_parts (sty : style T) (s : snapshot) (ps : list part) (cur : text) (wd : option wide)
    : text * option wide :=
    match ps with
    | [] => (cur, wd)
    | PLit l :: r => render_parts sty s r (cur ++ l) wd
    | PKey k w :: r =>
        let '(out, wd') := render_key sty s k w in
        render_parts sty s r (cur ++ out) (match wd' with Some x => Some x | None => wd end)
    | PNewLine :: _ => (cur, wd)
    end.

  (** WideElement::expand (style.rs:447-486), alignment Left *)
  Definition expand_wide (wd : wide) (cur : text) (s : snapshot) (target_width : N) : text :=
    let left := target_width - text_width (replace0 [] cur) in
    match wd with
    | WBar => replace0 (f_bar F (o_fraction (s_obs s)) left) cur
    | WMsg =>
        let buf := pad_left_trunc (s_message s) left in
        let trimmed := match rev cur with 0 :: _ => trim_end buf | _ => buf end in
        replace0 trimmed cur
    end.

  (** push_line (style.rs:403-429): the wide element seen so far, if any, is expanded in [cur];
      the result is split at '\n' *)
  Definition push_line (wd : option wide) (cur : text) (s : snapshot) (target_width : N) : list text :=
    split_nl (match wd with Some w => expand_wide w cur s target_width | None => cur end) [].

  (** format_state for a template without NewLine parts (the definition this file had before
      multi-line templates were modelled; [format_state_single_line] in KeysProofs.v: the general
      [format_state] below agrees with it on every template without NewLine parts) *)
  Definition format_state_single (sty : style T) (s : snapshot) (target_width : N) : list text :=
    let '(cur, wd) := render_parts sty s (template sty) [] None in
    match cur with
    | [] => []                                              (* if !cur.is_empty() *)
    | _ =>
        let expanded := match wd with Some w => expand_wide w cur s target_width | None => cur end in
        split_nl expanded []
    end.

  (** ---- format_state (style.rs:236-400) on its three locals, exactly as the code runs:
      [cur] (the line being built; taken = emptied by push_line), [buf] (scratch buffer: cleared at
      the START of every Placeholder arm, style.rs:258, and before the padded message is written
      in WideElement::Message::expand, style.rs:466; NOT cleared at a NewLine, so the padded
      message of a wide_msg line is still in it when the next line starts), [wide] (set by
      wide_bar / wide_msg, NEVER reset: the element of an earlier line is still the wide element
      of the later lines). *)

  (** TemplatePart::Placeholder (style.rs:250-389) *)
  Definition m_placeholder (sty : style T) (s : snapshot) (k : string) (w : option N)
                           (cur buf : text) (wd : option wide) : text * text * option wide :=
    let buf : text := [] in                                   (* buf.clear()          :258 *)
    let '(v, wd') := key_text sty s k w in
    let buf := buf ++ v in                                    (* every arm appends    :259-367 *)
    (cur ++ (match w with Some w => pad_left buf w | None => buf end),   (* :369-388 *)
     buf,
     match wd' with Some x => Some x | None => wd end).

  (** WideElement::expand with the scratch buffer it is handed (style.rs:447-486) *)
  Definition m_expand_wide (wd : wide) (cur buf : text) (s : snapshot) (target_width : N) : text * text :=
    let left := target_width - text_width (replace0 [] cur) in
    match wd with
    | WBar => (replace0 (f_bar F (o_fraction (s_obs s)) left) cur, buf)     (* buf untouched *)
    | WMsg =>
        let buf := pad_left_trunc (s_message s) left in       (* buf.clear(); write!(buf, padded) *)
        let trimmed := match rev cur with 0 :: _ => trim_end buf | _ => buf end in
        (replace0 trimmed cur, buf)                           (* buf stays filled *)
    end.

  (** push_line: lines pushed, and the scratch buffer afterwards *)
  Definition m_push_line (wd : option wide) (cur buf : text) (s : snapshot) (target_width : N)
    : list text * text :=
    let '(expanded, buf') :=
      match wd with Some w => m_expand_wide w cur buf s target_width | None => (cur, buf) end in
    (split_nl expanded [], buf').

  (** the loop over the parts and the final [if !cur.is_empty()] (style.rs:248-399); the result is
      what is appended to draw_state.lines *)
  Fixpoint m_format (sty : style T) (s : snapshot) (target_width : N) (ps : list part)
                    (cur buf : text) (wd : option wide) : list text :=
    match ps with
    | [] =>
        match cur with
        | [] => []                                            (* if !cur.is_empty()   :397 *)
        | _ => fst (m_push_line wd cur buf s target_width)
        end
    | PLit l :: r => m_format sty s target_width r (cur ++ l) buf wd
    | PKey k w :: r =>
        let '(cur', buf', wd') := m_placeholder sty s k w cur buf wd in
        m_format sty s target_width r cur' buf' wd'
    | PNewLine :: r =>                                        (* unconditional push   :391-393 *)
        let '(ls, buf') := m_push_line wd cur buf s target_width in
        ls ++ m_format sty s target_width r [] buf' wd        (* mem::take(cur); wide kept *)
    end.

  (** format_state: the lines appended to draw_state.lines, for any template *)
  Definition format_state (sty : style T) (s : snapshot) (target_width : N) : list text :=
    m_format sty s target_width (template sty) [] [] None.

  (** the same loop without the scratch buffer ([m_format_no_buf] in KeysProofs.v: [buf] never
      reaches the output, whatever it holds) *)
  Fixpoint format_parts (sty : style T) (s : snapshot) (target_width : N) (ps : list part)
                        (cur : text) (wd : option wide) : list text :=
    match ps with
    | [] => match cur with [] => [] | _ => push_line wd cur s target_width end
    | PLit l :: r => format_parts sty s target_width r (cur ++ l) wd
    | PKey k w :: r =>
        let '(out, wd') := render_key sty s k w in
        format_parts sty s target_width r (cur ++ out) (match wd' with Some x => Some x | None => wd end)
    | PNewLine :: r => push_line wd cur s target_width ++ format_parts sty s target_width r [] wd
    end.

  (** ... and line by line: every template line is rendered by [render_parts] from an empty [cur]
      and the wide element left by the lines before it *)
  Fixpoint format_segs (sty : style T) (s : snapshot) (target_width : N) (segs : list (list part))
                       (cur : text) (wd : option wide) : list text :=
    match segs with
    | [] => []
    | seg :: rest =>
        let '(c, w) := render_parts sty s seg cur wd in
        match rest with
        | [] => match c with [] => [] | _ => push_line w c s target_width end
        | _ => push_line w c s target_width ++ format_segs sty s target_width rest [] w
        end
    end.
End FormatState.

(** ------------------------------------------------------------------ the bar and its updates *)
Inductive status := InProgress | DoneVisible | DoneHidden.

Record bstate (T : Type) := {
  b_pos : N;
  b_len : option N;
  b_tick : N;
  b_status : status;
  b_message : text;          (* original text; expanded() replaces tabs by b_tab spaces *)
  b_prefix : text;
  b_tab : N;                 (* BarState.tab_width *)
  b_style : style T
}.
Arguments b_pos {T}.
Arguments b_len {T}.
Arguments b_tick {T}.
Arguments b_status {T}.
Arguments b_message {T}.
Arguments b_prefix {T}.
Arguments b_tab {T}.
Arguments b_style {T}.

Inductive fin :=
| FinAndLeave | FinWithMessage (m : text) | FinAndClear | FinAbandon | FinAbandonWithMessage (m : text).

Inductive bop :=
| OTick
| OInc (d : N) | ODec (d : N) | OSetPos (p : N)
| OSetLen (l : N) | OIncLen (d : N) | ODecLen (d : N) | OUnsetLen
| OSetMessage (m : text) | OSetPrefix (m : text)
| OFinish (f : fin)
| OResetAll | OResetEta | OResetElapsed
| OForceDraw
| OUpdate (p : option N) (l : option N)      (* update(|s| { set_pos(p); set_len(l) }) *)
| OSetTabWidth (w : N).

(** The environment of one call: the instant read by the call, whether AtomicPosition::allow
    let a position update through (C05 owns that limiter), and the clock dependent getters at
    that instant (C09 owns the estimator). *)
Record env := { e_now : N; e_allowed : bool; e_obs : tobs }.

Definition is_finished (st : status) : bool :=
  match st with InProgress => false | _ => true end.

Section Bar.
  Context {T : Type}.
  Variable TO : tracker_ops T.
  Variable F : formatters.
  Variable term_width : N.      (* TermLike::width() of the (never rate limited) draw target *)

  Definition snapshot_of (b : bstate T) (o : tobs) : snapshot :=
    {| s_pos := b_pos b; s_len := b_len b; s_tick := b_tick b;
       s_finished := is_finished (b_status b);
       s_message := expand_tabs (b_tab b) (b_message b);
       s_prefix := expand_tabs (b_tab b) (b_prefix b);
       s_obs := o |}.

  Definition bview (b : bstate T) : view :=
    {| v_pos := b_pos b; v_len := b_len b; v_finished := is_finished (b_status b) |}.

  (** BarState::draw (state.rs:200-223) on a target that accepts every draw *)
  Definition draw (b : bstate T) (e : env) : list text :=
    match b_status b with
    | DoneHidden => []
    | _ => format_state TO F (b_style b) (snapshot_of b (e_obs e)) term_width
    end.

  Definition map_trackers (f : T -> T) (b : bstate T) : bstate T :=
    {| b_pos := b_pos b; b_len := b_len b; b_tick := b_tick b; b_status := b_status b;
       b_message := b_message b; b_prefix := b_prefix b; b_tab := b_tab b;
       b_style := {| tick_strings := tick_strings (b_style b); sty_tab := sty_tab (b_style b);
                     customs := map (fun kt => (fst kt, f (snd kt))) (customs (b_style b));
                     template := template (b_style b) |} |}.

  (** update_estimate_and_draw (state.rs:148-157): estimator (not modelled), every tracker is
      ticked with the current state, then a draw *)
  Definition update_estimate_and_draw (b : bstate T) (e : env) : bstate T * option (list text) :=
    let b' := map_trackers (fun t => t_tick TO t (bview b) (e_now e)) b in
    (b', Some (draw b' e)).

  Definition with_tick (b : bstate T) (t : N) : bstate T :=
    {| b_pos := b_pos b; b_len := b_len b; b_tick := t; b_status := b_status b;
       b_message := b_message b; b_prefix := b_prefix b; b_tab := b_tab b; b_style := b_style b |}.
  Definition with_pos (b : bstate T) (p : N) : bstate T :=
    {| b_pos := p; b_len := b_len b; b_tick := b_tick b; b_status := b_status b;
       b_message := b_message b; b_prefix := b_prefix b; b_tab := b_tab b; b_style := b_style b |}.
  Definition with_len (b : bstate T) (l : option N) : bstate T :=
    {| b_pos := b_pos b; b_len := l; b_tick := b_tick b; b_status := b_status b;
       b_message := b_message b; b_prefix := b_prefix b; b_tab := b_tab b; b_style := b_style b |}.
  Definition with_status (b : bstate T) (s : status) : bstate T :=
    {| b_pos := b_pos b; b_len := b_len b; b_tick := b_tick b; b_status := s;
       b_message := b_message b; b_prefix := b_prefix b; b_tab := b_tab b; b_style := b_style b |}.
  Definition with_message (b : bstate T) (m : text) : bstate T :=
    {| b_pos := b_pos b; b_len := b_len b; b_tick := b_tick b; b_status := b_status b;
       b_message := m; b_prefix := b_prefix b; b_tab := b_tab b; b_style := b_style b |}.
  Definition with_prefix (b : bstate T) (m : text) : bstate T :=
    {| b_pos := b_pos b; b_len := b_len b; b_tick := b_tick b; b_status := b_status b;
       b_message := b_message b; b_prefix := m; b_tab := b_tab b; b_style := b_style b |}.
  Definition with_tab (b : bstate T) (w : N) : bstate T :=
    {| b_pos := b_pos b; b_len := b_len b; b_tick := b_tick b; b_status := b_status b;
       b_message := b_message b; b_prefix := b_prefix b; b_tab := w;
       b_style := {| tick_strings := tick_strings (b_style b); sty_tab := w;
                     customs := customs (b_style b); template := template (b_style b) |} |}.

  (** BarState::tick (state.rs:143-146) *)
  Definition bar_tick (b : bstate T) (e : env) : bstate T * option (list text) :=
    update_estimate_and_draw (with_tick b (sat_add64 (b_tick b) 1)) e.

  (** inc / dec / set_position (progress_bar.rs:243-258,295-301): the position changes
      unconditionally, the tick only if AtomicPosition::allow(now) *)
  Definition pos_update (b : bstate T) (p : N) (e : env) : bstate T * option (list text) :=
    let b' := with_pos b p in
    if e_allowed e then bar_tick b' e else (b', None).

  (** finish_using_style (state.rs:43-72): always followed by draw(true) *)
  Definition finish (b : bstate T) (f : fin) (e : env) : bstate T * option (list text) :=
    let b1 := with_status b DoneVisible in
    let to_len (x : bstate T) := match b_len x with Some l => with_pos x l | None => x end in
    let b2 :=
      match f with
      | FinAndLeave => to_len b1
      | FinWithMessage m => with_message (to_len b1) m
      | FinAndClear => with_status (to_len b1) DoneHidden
      | FinAbandon => b1
      | FinAbandonWithMessage m => with_message b1 m
      end in
    (b2, Some (draw b2 e)).

  Definition bstep (b : bstate T) (oe : bop * env) : bstate T * option (list text) :=
    let '(o, e) := oe in
    match o with
    | OTick => bar_tick b e                                            (* progress_bar.rs:231-240 *)
    | OInc d => pos_update b (wadd64 (b_pos b) d) e
    | ODec d => pos_update b (wsub64 (b_pos b) d) e
    | OSetPos p => pos_update b p e
    | OSetLen l => update_estimate_and_draw (with_len b (Some l)) e    (* state.rs:112-115 *)
    | OIncLen d =>                                                      (* state.rs:117-122 *)
        update_estimate_and_draw (with_len b (option_map (fun l => sat_add64 l d) (b_len b))) e
    | ODecLen d =>                                                      (* state.rs:124-129 *)
        update_estimate_and_draw (with_len b (option_map (fun l => sat_sub l d) (b_len b))) e
    | OUnsetLen => update_estimate_and_draw (with_len b None) e        (* state.rs:107-110 *)
    | OSetMessage m => update_estimate_and_draw (with_message b m) e   (* progress_bar.rs:337-341 *)
    | OSetPrefix m => update_estimate_and_draw (with_prefix b m) e     (* progress_bar.rs:327-331 *)
    | OFinish f => finish b f e
    | OResetAll =>                                                      (* state.rs:74-97 *)
        let b1 := with_status (with_pos b 0) InProgress in
        let b2 := map_trackers (fun t => t_reset TO t (bview b1) (e_now e)) b1 in
        (b2, Some (draw b2 e))
    | OResetEta | OResetElapsed => (b, None)
    | OForceDraw => (b, Some (draw b e))                                (* progress_bar.rs:456-458 *)
    | OUpdate p l =>                                                    (* progress_bar.rs:286-292, state.rs:99-104 *)
        let b1 := match p with Some p => with_pos b p | None => b end in
        let b2 := match l with Some l => with_len b1 (Some l) | None => b1 end in
        bar_tick b2 e
    | OSetTabWidth w => let b' := with_tab b w in (b', Some (draw b' e)) (* progress_bar.rs:167-171 *)
    end.

  Fixpoint brun (b : bstate T) (ops : list (bop * env)) : bstate T * list (option (list text)) :=
    match ops with
    | [] => (b, [])
    | oe :: r =>
        let '(b1, fr) := bstep b oe in
        let '(b2, frs) := brun b1 r in
        (b2, fr :: frs)
    end.
End Bar.

Definition binit {T} (len : option N) (sty : style T) : bstate T :=
  {| b_pos := 0; b_len := len; b_tick := 0; b_status := InProgress; b_message := []; b_prefix := [];
     b_tab := sty_tab sty; b_style := sty |}.

(** ------------------------------------------------------------------ specification side *)
(** The documented key table, written from the list in src/lib.rs:178-216 as
    getter o public formatter (NOT from the match in style.rs). *)
Inductive g_u64 := GPos | GLen.
Inductive g_dur := GElapsed | GEta | GDuration.
Inductive u_fmt := UPlain | UHuman | UHumanBytes | UDecimalBytes | UBinaryBytes.
Inductive doc_entry :=
| DBar | DWideBar | DSpinner | DPrefix | DMsg | DWideMsg
| DCount (g : g_u64) (f : u_fmt)
| DPercent (digits : N)
| DTime (g : g_dur) (precise : bool)
| DRate (f : option u_fmt).

Open Scope string_scope.
Definition doc_table : list (string * doc_entry) := [
  ("bar", DBar); ("wide_bar", DWideBar); ("spinner", DSpinner); ("prefix", DPrefix);
  ("msg", DMsg); ("wide_msg", DWideMsg);
  ("pos", DCount GPos UPlain); ("human_pos", DCount GPos UHuman);
  ("len", DCount GLen UPlain); ("human_len", DCount GLen UHuman);
  ("percent", DPercent 0); ("percent_precise", DPercent 3);
  ("bytes", DCount GPos UHumanBytes); ("total_bytes", DCount GLen UHumanBytes);
  ("decimal_bytes", DCount GPos UDecimalBytes); ("decimal_total_bytes", DCount GLen UDecimalBytes);
  ("binary_bytes", DCount GPos UBinaryBytes); ("binary_total_bytes", DCount GLen UBinaryBytes);
  ("elapsed_precise", DTime GElapsed true); ("elapsed", DTime GElapsed false);
  ("per_sec", DRate None); ("bytes_per_sec", DRate (Some UHumanBytes));
  ("decimal_bytes_per_sec", DRate (Some UDecimalBytes));
  ("binary_bytes_per_sec", DRate (Some UBinaryBytes));
  ("eta_precise", DTime GEta true); ("eta", DTime GEta false);
  ("duration_precise", DTime GDuration true); ("duration", DTime GDuration false)
].
Close Scope string_scope.

Section Documented.
  Variable F : formatters.
  Variable ticks : list text.
  Variable tab : N.                  (* the bar's tab width (ProgressBar::with_tab_width / set_tab_width) *)

  (** position() and length(); "a missing length renders as the position" *)
  Definition get_u64 (s : snapshot) (g : g_u64) : N :=
    match g with
    | GPos => s_pos s
    | GLen => match s_len s with Some l => l | None => s_pos s end
    end.
  Definition get_dur (s : snapshot) (g : g_dur) : N :=
    match g with
    | GElapsed => o_elapsed (s_obs s)
    | GEta => o_eta (s_obs s)
    | GDuration => o_duration (s_obs s)
    end.
  Definition fmt_u64 (f : u_fmt) (n : N) : text :=
    match f with
    | UPlain => dec_text n
    | UHuman => f_count F n
    | UHumanBytes => f_hbytes F n
    | UDecimalBytes => f_dbytes F n
    | UBinaryBytes => f_bbytes F n
    end.

  Definition doc_value (s : snapshot) (d : doc_entry) (width : option N) : text * option wide :=
    match d with
    | DBar => (f_bar F (o_fraction (s_obs s)) (match width with Some w => w | None => DEFAULT_BAR_WIDTH end), None)
    | DWideBar => ([0], Some WBar)
    | DWideMsg => ([0], Some WMsg)
    | DSpinner =>
        (* the current tick string - the last one once finished -, its tabs shown as [tab]
           blanks like the tabs of a message or prefix *)
        (expand_tabs tab
           (if s_finished s then last ticks []
            else nth (N.to_nat (s_tick s mod (N.of_nat (List.length ticks) - 1))) ticks []), None)
    | DPrefix => (s_prefix s, None)
    | DMsg => (s_message s, None)
    | DCount g f => (fmt_u64 f (get_u64 s g), None)
    | DPercent digits => (f_percent F digits (o_fraction (s_obs s)), None)
    | DTime g true => (f_fdur F (get_dur s g), None)
    | DTime g false => (f_hdur F (get_dur s g), None)
    | DRate None => (f_hfloat F None (o_per_sec (s_obs s)) ++ per_s, None)
    | DRate (Some f) => (fmt_u64 f (f64_to_u64 (o_per_sec (s_obs s))) ++ per_s, None)
    end.

  Definition documented (s : snapshot) (k : string) (width : option N) : text * option wide :=
    match lookup k doc_table with
    | Some d => doc_value s d width
    | None => ([], None)
    end.
End Documented.

(** which calls tick / reset the trackers, and which advance the spinner: written from the
    documentation of the ProgressBar methods, independently of [bstep] *)
Inductive bar_event := BTick | BReset | BNone.
Definition op_event (o : bop) (allowed : bool) : bar_event :=
  match o with
  | OTick | OUpdate _ _ => BTick
  | OInc _ | ODec _ | OSetPos _ => if allowed then BTick else BNone
  | OSetLen _ | OIncLen _ | ODecLen _ | OUnsetLen | OSetMessage _ | OSetPrefix _ => BTick
  | OResetAll => BReset
  | OFinish _ | OResetEta | OResetElapsed | OForceDraw | OSetTabWidth _ => BNone
  end.
(** does the call advance the spinner (state.tick)? *)
Definition op_spins (o : bop) (allowed : bool) : bool :=
  match o with
  | OTick | OUpdate _ _ => true
  | OInc _ | ODec _ | OSetPos _ => allowed
  | _ => false
  end.

(** ------------------------------------------------------------------ executable instance *)
(** formatters given by a finite table (fid, a, b) -> text computed by the harness with the
    real public formatters:  1 HumanCount(a)  2 HumanBytes(a)  3 DecimalBytes(a)  4 BinaryBytes(a)
    5 FormattedDuration(a ns)  6 {:#} HumanDuration(a ns)  7 HumanFloatCount(bits a), b = 0 for {}
    and p+1 for {:.p}   8 {:.b} of f32(bits a)*100   9 bar(fraction bits a, width b) *)
Definition ftable := list (N * N * N * text).
Fixpoint tlookup (t : ftable) (fid a b : N) : text :=
  match t with
  | [] => [63; 63]     (* "??": a missing entry never equals a rendered value *)
  | (f', a', b', x) :: r =>
      if (f' =? fid) && (a' =? a) && (b' =? b) then x else tlookup r fid a b
  end.
Definition table_formatters (t : ftable) : formatters :=
  {| f_count := fun n => tlookup t 1 n 0;
     f_hbytes := fun n => tlookup t 2 n 0;
     f_dbytes := fun n => tlookup t 3 n 0;
     f_bbytes := fun n => tlookup t 4 n 0;
     f_fdur := fun d => tlookup t 5 d 0;
     f_hdur := fun d => tlookup t 6 d 0;
     f_hfloat := fun p x => tlookup t 7 x (match p with Some p => p + 1 | None => 0 end);
     f_percent := fun p x => tlookup t 8 x p;
     f_bar := fun x w => tlookup t 9 x w |}.

(** the trackers of the harness: a stateless closure (the blanket impl for Fn, style.rs:800-815:
    tick and reset do nothing), a logger that records every event, a probe that writes nothing *)
Inductive event := EvTick (now : N) (v : view) | EvReset (now : N) (v : view).
Inductive tkind := TClosure | TLogger | TProbe.
Definition htracker := (tkind * list event)%type.    (* newest event first *)

Definition is_tick (e : event) : bool := match e with EvTick _ _ => true | _ => false end.
Fixpoint ticks_since_reset (l : list event) : N :=
  match l with
  | EvTick _ _ :: r => 1 + ticks_since_reset r
  | _ => 0
  end.
Definition count_ev (p : event -> bool) (l : list event) : N := N.of_nat (List.length (filter p l)).

Definition view_text (v : view) : text :=
  dec_text (v_pos v) ++ [47]
  ++ (match v_len v with Some l => dec_text l | None => [45] end)
  ++ (if v_finished v then [70] else []).

Definition htracker_ops : tracker_ops htracker :=
  {| t_tick := fun t v now => match fst t with TLogger => (fst t, EvTick now v :: snd t) | _ => t end;
     t_reset := fun t v now => match fst t with TLogger => (fst t, EvReset now v :: snd t) | _ => t end;
     t_write := fun t v =>
       match fst t with
       | TClosure => [99; 9] ++ view_text v                                  (* "c\t<view>" *)
       | TLogger =>
           [76] ++ dec_text (count_ev is_tick (snd t)) ++ [44]
           ++ dec_text (count_ev (fun e => negb (is_tick e)) (snd t)) ++ [44]
           ++ dec_text (ticks_since_reset (snd t)) ++ [9] ++ view_text v   (* "L<t>,<r>,<s>\t<view>" *)
       | TProbe => []
       end |}.

Definition view_eqb (a b : view) : bool :=
  (v_pos a =? v_pos b) && option_eqb N.eqb (v_len a) (v_len b) && Bool.eqb (v_finished a) (v_finished b).
Definition event_eqb (a b : event) : bool :=
  match a, b with
  | EvTick n v, EvTick n' v' => (n =? n') && view_eqb v v'
  | EvReset n v, EvReset n' v' => (n =? n') && view_eqb v v'
  | _, _ => false
  end.
Definition text_eqb : text -> text -> bool := list_eqb N.eqb.

(** one correspondence case: configuration, history with its environment, formatter table, and
    what was observed on the implementation *)
Record kcase := KC {
  c_len0 : option N;
  c_ticks : list text;
  c_tab : N;
  c_customs : list (string * tkind);
  c_template : list part;
  c_width : N;
  c_ops : list (bop * env);
  c_table : ftable;
  c_frames : list (option (list text));               (* per call: None = nothing drawn *)
  c_final : N * option N * bool * text * text;        (* position length is_finished message prefix *)
  c_logs : list (string * list event)                 (* per logger key, oldest event first *)
}.

Definition keys_check (c : kcase) : bool :=
  let sty := {| tick_strings := c_ticks c; sty_tab := c_tab c;
                customs := map (fun kt => (fst kt, (snd kt, @nil event))) (c_customs c);
                template := c_template c |} in
  let F := table_formatters (c_table c) in
  let '(b, frames) := brun htracker_ops F (c_width c) (binit (c_len0 c) sty) (c_ops c) in
  let '(p, l, f, m, pre) := c_final c in
  list_eqb (option_eqb (list_eqb text_eqb)) frames (c_frames c)
  && (b_pos b =? p) && option_eqb N.eqb (b_len b) l && Bool.eqb (is_finished (b_status b)) f
  && text_eqb (expand_tabs (b_tab b) (b_message b)) m
  && text_eqb (expand_tabs (b_tab b) (b_prefix b)) pre
  && list_eqb (fun a b => String.eqb (fst a) (fst b) && list_eqb event_eqb (snd a) (snd b))
       (map (fun kl => (fst kl, rev (snd (snd kl))))
            (filter (fun kl : string * htracker => match fst (snd kl) with TLogger => true | _ => false end)
                    (customs (b_style b))))
       (c_logs c).

(** ------------------------------------------------------------------ statement vocabulary *)
(** Names used in the STATEMENTS of props/C11.v (hypotheses, specification-side values); nothing
    above computes with them and [keys_check] does not use them.  (They were defined in
    proofs/KeysProofs.v until round 4: AUDIT2 X7 / AUDIT3 finding 32.)  The last three relate the
    bar of this file to the C07 model, hence the import. *)
From IndModel Require Import Pos.

Definition is_some {A} (o : option A) : bool := match o with Some _ => true | None => false end.

(** the same snapshot with another length *)
Definition with_s_len (s : snapshot) (l : option N) : snapshot :=
  {| s_pos := s_pos s; s_len := l; s_tick := s_tick s; s_finished := s_finished s;
     s_message := s_message s; s_prefix := s_prefix s; s_obs := s_obs s |}.

(** ---- parts and lines of a template *)
Section VocabularyLines.
  Context {T : Type}.
  Variable TO : tracker_ops T.
  Variable F : formatters.

  (** what one part appends to the line *)
  Definition part_text (sty : style T) (s : snapshot) (p : part) : text :=
    match p with
    | PLit l => l
    | PKey k w => fst (render_key TO F sty s k w)
    | PNewLine => []
    end.
  (** a part of a line that does not set the wide element (in particular: not a NewLine) *)
  Definition part_narrow (sty : style T) (s : snapshot) (p : part) : Prop :=
    match p with
    | PLit _ => True
    | PKey k w => snd (render_key TO F sty s k w) = None
    | PNewLine => False
    end.

  Definition single_line (ps : list part) : Prop := Forall (fun p => p <> PNewLine) ps.

  (** joining template lines again, with NewLine parts between them *)
  Fixpoint unsplit (segs : list (list part)) : list part :=
    match segs with
    | [] => []
    | [seg] => seg
    | seg :: rest => seg ++ PNewLine :: unsplit rest
    end.
End VocabularyLines.

(** ---- histories *)
Section VocabularyHistory.
  Context {T : Type}.
  Variable TO : tracker_ops T.
  Variable F : formatters.
  Variable tw : N.

  (** which calls draw at all *)
  Definition op_draws (o : bop) (allowed : bool) : bool :=
    match o with
    | OInc _ | ODec _ | OSetPos _ => allowed
    | OResetEta | OResetElapsed => false
    | _ => true
    end.

  Definition apply_event (t : T) (ev : bar_event * view * N) : T :=
    match ev with
    | (BTick, v, now) => t_tick TO t v now
    | (BReset, v, now) => t_reset TO t v now
    | (BNone, _, _) => t
    end.

  (** the tick / reset events of the bar: the class of the call ([op_event], written from the
      documentation) with the state right after the call's own update and the call's instant *)
  Definition step_events (b : bstate T) (oe : bop * env) : list (bar_event * view * N) :=
    match op_event (fst oe) (e_allowed (snd oe)) with
    | BNone => []
    | ev => [(ev, bview (fst (bstep TO F tw b oe)), e_now (snd oe))]
    end.

  Fixpoint bar_events (b : bstate T) (ops : list (bop * env)) : list (bar_event * view * N) :=
    match ops with
    | [] => []
    | oe :: r => step_events b oe ++ bar_events (fst (bstep TO F tw b oe)) r
    end.

  Definition on_trackers (f : T -> T) (l : list (string * T)) : list (string * T) :=
    map (fun kt => (fst kt, f (snd kt))) l.

  (** the spinner counter: one step per tick() / update() / admitted position update *)
  Fixpoint spins (ops : list (bop * env)) : N :=
    match ops with
    | [] => 0
    | (o, e) :: r => (if op_spins o (e_allowed e) then 1 else 0) + spins r
    end.

  (** position, length and finished flag as a state of the C07 model (Pos.v), and a call as
      operations of that model *)
  Definition fin_kind (f : fin) : finish_kind :=
    match f with
    | FinAndLeave => AndLeave
    | FinWithMessage _ => WithMessage
    | FinAndClear => AndClear
    | FinAbandon => Abandon
    | FinAbandonWithMessage _ => AbandonWithMessage
    end.
  Definition to_pops (oe : bop * env) : list pop :=
    match fst oe with
    | OTick | OSetMessage _ | OSetPrefix _ | OForceDraw | OSetTabWidth _ => []
    | OInc d => [Inc d]
    | ODec d => [Dec d]
    | OSetPos p => [SetPos p]
    | OSetLen l => [SetLen l]
    | OIncLen d => [IncLen d]
    | ODecLen d => [DecLen d]
    | OUnsetLen => [UnsetLen]
    | OFinish f => [Finish (fin_kind f)]
    | OResetAll => [ResetAll]
    | OResetEta => [ResetEta]
    | OResetElapsed => [ResetElapsed]
    | OUpdate p l =>
        (match p with Some p => [SetPos p] | None => [] end)
        ++ (match l with Some l => [SetLen l] | None => [] end)
    end.
  Definition proj (b : bstate T) : pstate :=
    {| pos := b_pos b; len := b_len b; finished := is_finished (b_status b) |}.
End VocabularyHistory.

(** ---- frames against the documented table *)
Open Scope string_scope.
Section VocabularyFrames.
  Context {T : Type}.
  Variable TO : tracker_ops T.
  Variable F : formatters.
  Variable tw : N.

  (** a part whose value the documentation defines: literal text, or a documented, non-wide,
      non-shadowed key (per_sec without a width) *)
  Definition doc_part (sty : style T) (p : part) : Prop :=
    match p with
    | PLit _ => True
    | PKey k w =>
        lookup k (customs sty) = None /\ In k DOCUMENTED_KEYS
        /\ k <> "wide_bar" /\ k <> "wide_msg" /\ (k = "per_sec" -> w = None)
    | PNewLine => False
    end.
  (** ... and that value: the documented getter o formatter, left-padded to the width *)
  Definition doc_text (sty : style T) (s : snapshot) (p : part) : text :=
    match p with
    | PLit l => l
    | PKey k w =>
        let v := fst (documented F (tick_strings sty) (sty_tab sty) s k w) in
        match w with Some w => pad_left v w | None => v end
    | PNewLine => []
    end.

  (** one template line rendered as a (single-line) template of its own *)
  Definition line_alone (sty : style T) (s : snapshot) (seg : list part) : list text :=
    format_state TO F (with_template sty seg) s tw.

  (** the only way a line can see an earlier line: the wide element is never reset, and
      WideElement::expand replaces EVERY NUL of the line.  A line that has no wide key of its own
      is [line_ok] when its text contains no NUL (then the carried element finds nothing to
      replace); a line with a wide key of its own is always [line_ok]. *)
  Definition line_ok (sty : style T) (s : snapshot) (seg : list part) : Prop :=
    snd (render_parts TO F sty s seg [] None) = None ->
    ~ In 0 (fst (render_parts TO F sty s seg [] None)).

  (** a part of a multi-line template whose value the documentation defines *)
  Definition doc_part_ml (sty : style T) (p : part) : Prop :=
    match p with
    | PNewLine => True
    | _ => doc_part sty p
    end.

  Definition doc_line (sty : style T) (s : snapshot) (seg : list part) : list text :=
    match concat (map (doc_text sty s) seg) with
    | [] => []
    | line => split_nl line []
    end.
End VocabularyFrames.
Close Scope string_scope.
