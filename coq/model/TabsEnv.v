(** C16 – the numeric / time keys of Tabs.v's environment, made concrete.
    [Tabs.env] leaves the text of the 22 numeric / time built-in keys to a function [e_num].
    Here that function is built from the models other properties own and tie to the code:
      - the key dispatch of format_state, [Keys.builtin_value] (C11, model/Keys.v: which getter
        and which formatter each key uses, src/style.rs:284-364),
      - the formatters HumanCount, HumanBytes / DecimalBytes / BinaryBytes, FormattedDuration,
        HumanDuration, HumanFloatCount and `{:.p}` of a float (C15, model/Fmt.v, src/format.rs),
    applied to an ARBITRARY snapshot per rendering (position, length, fraction, elapsed, eta,
    duration, per_sec: C07/C09/C13's subjects).  Nothing of those files is changed.
    Definitions only; proofs in proofs/TabsEnvProofs.v. *)
From IndModel Require Import Base Tabs.
From IndModel Require Keys Fmt.
From IndGen Require Import Constants.
From Coq Require Import String SpecFloat.
Open Scope N_scope.

(* a formatter of Fmt.v has explicit panic outcomes (usize underflow, table index).  They are
   unreachable: FmtProofs.fmt_total (exported as C15_total) proves `fmt_model c = Ok _` for every
   input, and the four formatters used below are the cases CCount, CBytes, CHDur, CFloat of
   [fmt_model] - so the [Panic] branch of this function is never taken by [fmt_formatters].  That
   instantiation is NOT restated as a C16 theorem (prose + citation only).  Were the branch taken,
   the text would be []: TAB-free, but not what a panicking draw does (nothing).  The shards
   compare [keys_num] with observed texts ([c16_check_env]), so an unexpected [] would show. *)
Definition ok_or_nil (o : outcome (list N)) : text := match o with Ok s => s | Panic _ => [] end.

Definition NS : N := Fmt.NANOS_PER_SEC.

(** The public formatters as Keys.v wants them, from Fmt.v.  Durations are nanoseconds, f64 values
    their bit patterns.  [dec32]: the decoding of an f32 bit pattern (the `percent` keys format
    `fraction * 100f32`; any decoding will do for TAB-freeness).  [f_bar] is not a numeric key
    (Tabs.v renders bars itself): unused. *)
Definition fmt_formatters (dec32 : N -> spec_float) : Keys.formatters :=
  {| Keys.f_count := fun n => ok_or_nil (Fmt.human_count n);
     Keys.f_hbytes := fun n => ok_or_nil (Fmt.bytes_fmt true n);
     Keys.f_dbytes := fun n => ok_or_nil (Fmt.bytes_fmt false n);
     Keys.f_bbytes := fun n => ok_or_nil (Fmt.bytes_fmt true n);
     Keys.f_fdur := fun d => Fmt.formatted_duration (d / NS) (d mod NS);
     Keys.f_hdur := fun d => ok_or_nil (Fmt.human_duration (d / NS) (d mod NS) true);   (* {:#} *)
     Keys.f_hfloat := fun p bits => ok_or_nil (Fmt.human_float_count p bits);
     Keys.f_percent := fun p bits => Fmt.fmt_fixed p (dec32 bits);
     Keys.f_bar := fun _ _ => [] |}.

(** the numeric / time key with number [id] (position in Constants.FORMAT_KEYS) *)
Definition is_numeric (b : Keys.bkey) : bool :=
  match b with
  | Keys.KWideBar | Keys.KBar | Keys.KSpinner | Keys.KWideMsg | Keys.KMsg | Keys.KPrefix => false
  | _ => true
  end.
Definition num_bkey (id : N) : option Keys.bkey :=
  match Keys.key_id (nth (N.to_nat id) FORMAT_KEYS ""%string) with
  | Some b => if is_numeric b then Some b else None
  | None => None
  end.

(** [e_num] of an environment whose d-th rendering sees the snapshot [snap d] *)
Definition keys_num (dec32 : N -> spec_float) (snap : N -> Keys.snapshot) (d id : N) (w : option N) : text :=
  match num_bkey id with
  | Some b => fst (Keys.builtin_value (fmt_formatters dec32) [] 0 (snap d) b w)   (* tick strings, tab width: spinner only *)
  | None => []
  end.

Definition keys_env (cols : text -> N) (termw : N -> N) (geom : N -> N -> N * option N * N)
                    (dec32 : N -> spec_float) (snap : N -> Keys.snapshot) : env :=
  mkenv cols termw (keys_num dec32 snap) geom.

(** ------------------------------------------------------------------ correspondence
    The tie of [keys_num] to the code inside C16's own shards: for the keys whose snapshot the
    harness knows exactly - position, length, elapsed time, fraction (as the f64 bit pattern of
    `fraction * 100f32`, exactly representable) - the text observed on the shadow bar must be the
    text [keys_num] computes.  (eta / per_sec / duration depend on the estimator's floats and are
    compared by C09 / C11 / C15's checks only.) *)
Record envobs := mkenvobs { eo_pos : N; eo_len : option N; eo_pct : N; eo_elapsed : N;
                            eo_id : N; eo_w : option N; eo_text : text }.
Definition envobs_snapshot (o : envobs) : Keys.snapshot :=
  {| Keys.s_pos := eo_pos o; Keys.s_len := eo_len o; Keys.s_tick := 0; Keys.s_finished := false;
     Keys.s_message := []; Keys.s_prefix := [];
     Keys.s_obs := {| Keys.o_fraction := eo_pct o; Keys.o_elapsed := eo_elapsed o; Keys.o_eta := 0;
                      Keys.o_duration := 0; Keys.o_per_sec := 0 |} |}.
(* the `percent` keys: [f_percent p bits] gets [o_fraction]; here that field carries the f64 bits
   of the already multiplied value and [dec32] is Fmt.decode64 *)
Definition envobs_ok (o : envobs) : bool :=
  text_eqb (keys_num Fmt.decode64 (fun _ => envobs_snapshot o) 0 (eo_id o) (eo_w o)) (eo_text o).

(* a C16 case: the history case of Tabs.c16_check plus the numeric-key observations *)
Definition c16_check_env
  (c : (N * list (N * N) * list (N * text) * list (N * N * option N * text)
          * list (N * N * (N * option N * N)) * list op * list out) * list envobs) : bool :=
  c16_check (fst c) && forallb envobs_ok (snd c).
