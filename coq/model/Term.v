(** The terminal: the contract of [TermLike] as an xterm-like screen implements it (the vt100
    crate, console's InMemoryTerm), as an executable zipper.  This is an ASSUMPTION of
    C01-C04/C19 (the terminal is not code under verification); it is validated on every run of
    the C01 check against the vt100 crate (model/TermCheck.v, harness bin c01) and mirrors
    [sysrun::Vt] of the harness.

    - width W >= 1, height H >= 1 (both [nat] here; the drawing models pass [N.to_nat]);
    - a row is the list of its cells, everything beyond its length is blank;
    - rows above the cursor (nearest first, INCLUDING the scroll-back), the cursor row, the rows
      below the cursor (nearest first); [t_vis] = number of VISIBLE rows above the cursor
      (0..H-1): cursor-up is clamped by it, a line feed on the bottom row scrolls (t_vis stays);
    - [t_col] = W means "wrap pending" (deferred wrap at the right edge): the next character
      first moves to column 0 of the next row;
    - write_str = put every character; write_line = write_str, CR, LF; clear_line = CR + erase
      the whole row; move_cursor_up/down n = clamped to the visible screen, column unchanged;
      flush = nothing.
    Characters are single-column cells (printable ASCII in the correspondence runs). *)
From IndModel Require Export Draw.
Local Open Scope nat_scope.

Notation row := (list N) (only parsing).

Record term := mkterm {
  t_above : list row;
  t_cur : row;
  t_below : list row;
  t_col : nat;
  t_vis : nat }.

Definition term_init : term := mkterm [] [] [] 0 0.

(* LF: next row, scrolling when the cursor is on the bottom row of the screen *)
Definition line_feed (H : nat) (t : term) : term :=
  let v := if Nat.ltb (S (t_vis t)) H then S (t_vis t) else t_vis t in
  match t_below t with
  | [] => mkterm (t_cur t :: t_above t) [] [] (t_col t) v
  | b :: bs => mkterm (t_cur t :: t_above t) b bs (t_col t) v
  end.

(* cell c of row r := ch (the row is blank beyond its length) *)
Definition set_cell (r : row) (c : nat) (ch : N) : row :=
  firstn c r ++ repeat SP (c - length r) ++ ch :: skipn (S c) r.

Definition put (W H : nat) (t : term) (ch : N) : term :=
  let t1 := if Nat.leb W (t_col t)
            then let t' := line_feed H t in
                 mkterm (t_above t') (t_cur t') (t_below t') 0 (t_vis t')
            else t in
  mkterm (t_above t1) (set_cell (t_cur t1) (t_col t1) ch) (t_below t1) (S (t_col t1)) (t_vis t1).

Definition puts (W H : nat) (t : term) (s : text) : term := fold_left (put W H) s t.

Fixpoint move_up (k : nat) (t : term) : term :=
  match k with
  | O => t
  | S k' => match t_above t with
            | [] => t
            | a :: ab => move_up k' (mkterm ab a (t_cur t :: t_below t) (t_col t) (t_vis t - 1))
            end
  end.

Fixpoint move_down (k : nat) (t : term) : term :=
  match k with
  | O => t
  | S k' => match t_below t with
            | [] => move_down k' (mkterm (t_cur t :: t_above t) [] [] (t_col t) (S (t_vis t)))
            | b :: bs => move_down k' (mkterm (t_cur t :: t_above t) b bs (t_col t) (S (t_vis t)))
            end
  end.

Definition exec (W H : nat) (t : term) (o : termop) : term :=
  match o with
  | TUp n => move_up (Nat.min (N.to_nat n) (t_vis t)) t
  | TDown n => move_down (Nat.min (N.to_nat n) (H - 1 - t_vis t)) t
  | TClear => mkterm (t_above t) [] (t_below t) 0 (t_vis t)
  | TStr s => puts W H t s
  | TLine s => let t1 := puts W H t s in
               line_feed H (mkterm (t_above t1) (t_cur t1) (t_below t1) 0 (t_vis t1))
  | TFlush => t
  end.

Definition run_ops (W H : nat) (t : term) (ops : list termop) : term := fold_left (exec W H) ops t.

(* ------------------------------------------------------------------ observation *)
(** every row ever written, oldest first (scroll-back, screen, rows below the cursor) *)
Definition all_rows (t : term) : list row := rev (t_above t) ++ t_cur t :: t_below t.
(** absolute index of the cursor row *)
Definition t_row (t : term) : nat := length (t_above t).
(** index of the first visible row *)
Definition t_top (t : term) : nat := t_row t - t_vis t.
(** the H rows of the screen *)
Definition visible (H : nat) (t : term) : list row :=
  firstn H (skipn (t_top t) (all_rows t) ++ repeat [] H).
(** where one more ordinary character would be put: (absolute row, column) *)
Definition next_cell (W : nat) (t : term) : nat * nat :=
  if Nat.leb W (t_col t) then (S (t_row t), 0) else (t_row t, t_col t).

(** a row as the user sees it: W cells, blank beyond its length *)
Definition pad (W : nat) (r : row) : row := r ++ repeat SP (W - length r).
(** the screen contents with the scroll-back: every row as W cells *)
Definition screen (W : nat) (t : term) : list row := map (pad W) (all_rows t).

(* ------------------------------------------------------------------ wrapping *)
(** what a string of single-column characters occupies: rows of W cells, filled left to right;
    the empty string occupies one (empty) row.  [chunks_unfold] (TermProofs.v):
    chunks W s = if |s| <= W then [s] else firstn W s :: chunks W (skipn W s). *)
Fixpoint chunk_acc (W : nat) (cur : row) (s : text) : list row :=
  match s with
  | [] => [cur]
  | ch :: r => if Nat.leb W (length cur) then cur :: chunk_acc W [ch] r
               else chunk_acc W (cur ++ [ch]) r
  end.
Definition chunks (W : nat) (s : text) : list row := chunk_acc W [] s.
Definition wrap (W : nat) (ls : list text) : list row := concat (map (chunks W) ls).

Local Open Scope N_scope.
(* ------------------------------------------------------------------ the paint loop, declaratively *)
(** the lines the loop of draw_to_term paints before its [break] (Draw.paint) *)
Fixpoint painted (ls : list line) (W H real : N) : list line :=
  match ls with
  | [] => []
  | l :: r =>
      let h := wrapped_height l W in
      if is_bar l && (H <? real + h) then []
      else l :: painted r W H (if is_bar l then real + h else real)
  end.

(** rows of the Bar lines among [ls] *)
Definition bar_rows (ls : list line) (W : N) : N :=
  visual_line_count (filter is_bar ls) W.

(** the filler written after a line (right-edge filler of the last element of the vector, and of
    an empty first line since fix a4efdb8) *)
Definition filler (l : line) (W : N) : text := spaces (wrapped_height l W * W - lwidth l).

(** exactly what the loop writes, row by row, when it paints [ls] from a fresh line:
    [first] = the head is element 0 of the vector, [complete] = the last element of [ls] is the
    last element of the vector (no [break]) *)
Fixpoint paint_rows (W : N) (first complete : bool) (ls : list line) : list row :=
  match ls with
  | [] => []
  | l :: r =>
      let fill := (complete && match r with [] => true | _ => false end)
                  || (first && (lwidth l =? 0)) in
      chunks (N.to_nat W) (lt l ++ if fill then filler l W else [])
        ++ paint_rows W false complete r
  end.

(* ------------------------------------------------------------------ well-formed cursor positions *)
Local Open Scope nat_scope.
(** the cursor at the end of the (only partly written) last row [r] of the written rows
    [d ++ [r]], [k] blank rows below *)
Definition app_state (d : list row) (r : row) (k v : nat) : term :=
  mkterm (rev d) r (repeat [] k) (length r) v.

(** [ready W H C t]: the rows written so far are exactly [C]; the cursor is where a draw leaves
    it: at column 0 of the blank row below [C] ([ready_start]) or wrap-pending at the right edge
    of the full last row of [C] ([ready_edge]); only blank rows below; in both cases one more
    character lands at column 0 of row |C|. *)
Inductive ready (W H : nat) (C : list row) : term -> Prop :=
| ready_start k v : v <= H - 1 -> ready W H C (app_state C [] k v)
| ready_edge d r k v : C = d ++ [r] -> length r = W -> v <= H - 1 ->
                       ready W H C (app_state d r k v).

(** number of written rows the cursor can reach by moving up (the cursor row itself counts when
    it is a written row, i.e. when the column is not 0): cursor-up by less is never clamped *)
Definition reach (t : term) : nat := t_vis t + (if Nat.eqb (t_col t) 0 then 0 else 1).

(** rows are compared as the user sees them: W cells each *)
Definition rows_equiv (W : nat) (A B : list row) : Prop := map (pad W) A = map (pad W) B.
