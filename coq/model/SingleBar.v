(** The single standalone bar on a terminal (properties C01, C19): the configuration of Sys.v with
    one bar whose target is a terminal, no MultiProgress member, no I/O faults; the ghost
    functions [log] and [frame] of an op history (they do not look at the terminal); the
    proviso [Fits] of C01; running a history while executing every emitted TermLike call on the
    terminal model Term.v.  Definitions only. *)
From IndModel Require Export Sys Term.

Definition nofail : N -> bool := fun _ => false.

(** initial configurations: ONE bar (any position, length, message, prefix, template, status,
    finish behaviour, position limiter state), its target a terminal (any refresh limiter or
    none) on which nothing has been drawn yet *)
Definition sb_initial (s : sys) : Prop :=
  exists b tg, s_bars s = [b] /\ b_target b = TTerm tg
               /\ tt_n tg = 0 /\ tt_align tg = Top /\ tt_below tg = false.

(** the C01 alphabet: every ProgressBar call of the property, on bar 0 *)
Definition c01_op (o : op) : bool :=
  match o with
  | OTick b | OInc b _ | ODec b _ | OSetPos b _ | OSetLen b _ | OIncLen b _ | ODecLen b _
  | OUnsetLen b | OSetMsg b _ | OSetPrefix b _ | OSetStyle b _ | OPrintln b _ | OSuspend b _
  | OReset b | OResetEta b | OResetElapsed b | OFinish b _ | OFinishUsingStyle b
  | OForceDraw b | OSetTabWidth b | ODrop b => b =? 0
  | _ => false
  end.

(* ------------------------------------------------------------------ ghost state *)
(** what println prints: msg.lines(), one empty line for an empty message *)
Definition println_lines (m : text) : list text :=
  match lines_of m with [] => [[]] | ls => ls end.

(** the lines an op adds to the log *)
Definition op_log (o : op) : list text :=
  match o with
  | OPrintln _ m => println_lines m
  | OSuspend _ ws => ws
  | _ => []
  end.

(** [g_log]: the lines given to println + the lines written by suspend closures so far, in order;
    [g_frame]: frame_of (bar state at the LAST PAINTED draw) - [] when nothing was painted yet,
    [] after finish_and_clear.  A draw was painted iff the op emitted TermLike calls. *)
(** [g_edge]: the last call so far that wrote to the terminal was a write_str (so the cursor may be
    wrap-pending at the right edge); false = it was a write_line or clear_line, or nothing has been
    written since a start at column 0: the cursor is at column 0.  A function of the emitted calls. *)
Record ghost := mkg { g_log : list text; g_frame : list line; g_edge : bool }.
Definition ghost0 : ghost := mkg [] [] false.
(** the ghost at the start: only "does the cursor start at column 0" is read off the terminal *)
Definition ghost_for (t0 : term) : ghost := mkg [] [] (negb (Nat.eqb (t_col t0) 0)).

Definition is_write (o : termop) : bool :=
  match o with TStr _ | TLine _ | TClear => true | _ => false end.
Fixpoint last_write (e : list termop) (acc : option termop) : option termop :=
  match e with
  | [] => acc
  | o :: r => last_write r (if is_write o then Some o else acc)
  end.

Definition gstep (s' : sys) (e : list termop) (o : op) (g : ghost) : ghost :=
  mkg (g_log g ++ op_log o)
      (match e with [] => g_frame g | _ => frame_of (get_bar s' 0) end)
      (match last_write e None with
       | Some (TStr _) => true
       | Some _ => false
       | None => g_edge g
       end).

(** The one situation excluded from C01 (open finding 'empty-line-after-text-only-draw-swallowed',
    Theorem C01_empty_line_swallowed_refuted): the closure passed to suspend writes an EMPTY FIRST
    line while no frame is on the screen (last_line_count = 0) and the last thing written was a
    write_str, i.e. the preceding draw painted text lines only and left the cursor wrap-pending at
    the right edge: the empty line then only resolves the pending wrap and gets no row of its own.
    Every other closure output (empty lines after the first, an empty first line while a frame is
    visible or after a clear/newline) is covered. *)
Definition suspend_okb (g : ghost) (n : N) (o : op) : bool :=
  match o with
  | OSuspend _ ([] :: _) => (0 <? n) || negb (g_edge g)
  | _ => true
  end.

(** last_line_count of bar 0's terminal target *)
Definition bar_n (s : sys) : N := target_n (b_target (get_bar s 0)).

(** histories over the C01 alphabet none of whose suspend calls is in the excluded situation *)
Fixpoint hist_okb (W H : N) (s : sys) (g : ghost) (h : list (N * op)) : bool :=
  match h with
  | [] => true
  | x :: r =>
      c01_op (snd x) && suspend_okb g (bar_n s) (snd x)
      && (let '(s', e, _) := step W H nofail s (fst x) (snd x) in
          hist_okb W H s' (gstep s' e (snd x) g) r)
  end.
Definition hist_ok (W H : N) (s : sys) (g : ghost) (h : list (N * op)) : Prop :=
  hist_okb W H s g h = true.

(* ------------------------------------------------------------------ running a history *)
Definition sb_step (W H : N) (st : sys * ghost * term) (x : N * op) : sys * ghost * term :=
  let '(s, g, t) := st in
  let '(s', e, _) := step W H nofail s (fst x) (snd x) in
  (s', gstep s' e (snd x) g, run_ops (N.to_nat W) (N.to_nat H) t e).

Definition sb_run (W H : N) (st : sys * ghost * term) (h : list (N * op)) : sys * ghost * term :=
  fold_left (sb_step W H) h st.

(** the proviso of C01: every PAINTED frame's bar rows fit the terminal height *)
Definition fits_step (W H : N) (s : sys) (x : N * op) : bool :=
  let '(s', e, _) := step W H nofail s (fst x) (snd x) in
  match e with
  | [] => true
  | _ => visual_line_count (frame_of (get_bar s' 0)) W <=? H
  end.

Fixpoint fitsb (W H : N) (s : sys) (h : list (N * op)) : bool :=
  match h with
  | [] => true
  | x :: r => fits_step W H s x && fitsb W H (fst (fst (step W H nofail s (fst x) (snd x)))) r
  end.
Definition Fits (W H : N) (s : sys) (h : list (N * op)) : Prop := fitsb W H s h = true.

(** the right-hand side of the C01 equation: earlier content, the log, the current frame *)
Definition expected_rows (W : N) (pre : list (list N)) (g : ghost) : list (list N) :=
  pre ++ wrap (N.to_nat W) (g_log g) ++ wrap (N.to_nat W) (map lt (g_frame g)).

(* ------------------------------------------------------------------ C19: frames taller than the terminal *)
(** the maximal prefix of the frame whose accumulated rows fit the height (what the paint loop
    paints of the Bar lines, recomputed from scratch at every draw) *)
Definition fit_prefix (W H : N) (frame : list line) : list line := painted frame W H 0.

(** the narrow class outside which C19's erase-exactness holds for the single bar: a println
    while not even the FIRST line of the frame fits the terminal height (then text lines are
    painted, the height `break` fires before any Bar line, the right-edge filler is skipped and
    the next output continues on the last text row: open finding D14, oracle class 'height-cut-leaves-cursor-mid-row') *)
Definition no_text_cut_step (W H : N) (s : sys) (x : N * op) : bool :=
  let '(s', _, _) := step W H nofail s (fst x) (snd x) in
  match snd x with
  | OPrintln _ _ =>
      match frame_of (get_bar s' 0) with
      | [] => true
      | l :: _ => wrapped_height l W <=? H
      end
  | _ => true
  end.

Fixpoint no_text_cutb (W H : N) (s : sys) (h : list (N * op)) : bool :=
  match h with
  | [] => true
  | x :: r => no_text_cut_step W H s x
              && no_text_cutb W H (fst (fst (step W H nofail s (fst x) (snd x)))) r
  end.
Definition NoTextCut (W H : N) (s : sys) (h : list (N * op)) : Prop := no_text_cutb W H s h = true.

Definition expected_rows_cut (W H : N) (pre : list (list N)) (g : ghost) : list (list N) :=
  pre ++ wrap (N.to_nat W) (g_log g) ++ wrap (N.to_nat W) (map lt (fit_prefix W H (g_frame g))).

(* ------------------------------------------------------------------ running any Sys.v history (no faults) *)
(** final state and the TermLike calls emitted by each op *)
Fixpoint run_sys (W H : N) (s : sys) (ops : list (N * op)) : sys * list (list termop) :=
  match ops with
  | [] => (s, [])
  | (now, o) :: r => let '(s', e, _) := step W H nofail s now o in
                     let '(sf, es) := run_sys W H s' r in (sf, e :: es)
  end.

(** does a TermLike call write the character [ch]? *)
Definition writes_char (ch : N) (o : termop) : bool :=
  match o with
  | TStr s | TLine s => existsb (N.eqb ch) s
  | _ => false
  end.
