(** C08 - no deadlock; steady-tick thread lifecycle.  Definitions only.

    Part 1 (generic): lock resources with the rank order derived from the code,
      threads as lists of actions, an executable interleaving [step], the static
      discipline [ordered_from]/[Ordered]/[worker_ok].
    Part 2 (tie): class-level actions [caction] (what tools/locks_extract.py emits
      into gen/LockFootprints.v), their instantiation [inst], the class-level
      check [cordered].
    Part 3 (lifecycle): the ticker thread automaton of TickerControl::run
      (src/progress_bar.rs:739-772) in an environment given by labels; the
      time-out of wait_timeout_while is a label argument (an oracle).
    Part 4: checkers used by the correspondence shards of harness/src/bin/c08.rs.
    Part 5: structured programs [cprog] (what the translator emits as all_programs), their path
      semantics [paths], the linearisation [linear], the executable check [check]/[prog_ordered],
      thread pools given by paths of table programs [WFp]; erasure of a lock class.

    Lock sites (file:line of /repo/src) are listed in docs/C08.md. *)
From IndModel Require Export Base.
From Coq Require Import Arith.
From Coq Require String.
Local Open Scope nat_scope.

(* ------------------------------------------------------------------ Part 1 *)

(** The four lock classes.  [Slot b]: ProgressBar.ticker : Arc<Mutex<Option<Ticker>>>
    (progress_bar.rs:31); [Bar b]: ProgressBar.state : Arc<Mutex<BarState>> (:29);
    [Multi m]: MultiProgress.state : Arc<RwLock<MultiState>> (multi.rs:22; read() is
    modelled as an exclusive acquisition); [Stop k]: Ticker.stopping.0 : Mutex<bool>
    with its Condvar (progress_bar.rs:692). *)
Inductive res := Slot (b : nat) | Bar (b : nat) | Multi (m : nat) | Stop (k : nat).

(** Rank: a linear extension of the nesting found in the code
    (Slot -> Stop, Slot -> join(ticker: Bar, Multi, Stop), Bar -> Multi);
    [C08_footprints_ordered] checks the generated footprints against it. *)
Definition rank (r : res) : nat :=
  match r with Slot _ => 0 | Bar _ => 1 | Multi _ => 2 | Stop _ => 3 end.
Definition rank_bound : nat := 4.
(** a thread that is joined acquires only resources of rank >= join_rank;
    a joining thread holds only resources of rank < join_rank *)
Definition join_rank : nat := 1.

Definition res_eqb (x y : res) : bool :=
  match x, y with
  | Slot a, Slot b | Bar a, Bar b | Multi a, Multi b | Stop a, Stop b => Nat.eqb a b
  | _, _ => false
  end.

Inductive action :=
| Acq (r : res)            (* blocks while r is held by any thread *)
| Rel (r : res)
| WaitRel (r : res)        (* Condvar::wait_timeout: atomically release r and sleep; the wake-up
                              (notify / time-out / spurious) is followed by the next action, Acq r *)
| SetStop (k : nat)        (* *stopping.0 = true, under Stop k *)
| Notify (k : nat)         (* stopping.1.notify_one() *)
| Spawn (s : nat) (t : nat)(* thread::spawn of pool thread t, handle stored in join slot s *)
| Join (s : nat)           (* JoinHandle::join of the thread in join slot s (none: no-op) *)
| Local (tag : nat).       (* anything non-blocking: user callback, tick, Weak::upgrade, ... *)

Record thread := { started : bool; held : list res; code : list action }.
Record state := { threads : list thread; jslot : list (nat * nat); stopped : list nat }.

Fixpoint remove1 (r : res) (l : list res) : list res :=
  match l with
  | [] => []
  | x :: l' => if res_eqb x r then l' else x :: remove1 r l'
  end.
Definition holds (t : thread) (r : res) : bool := existsb (res_eqb r) (held t).
Definition is_free (ths : list thread) (r : res) : bool := forallb (fun t => negb (holds t r)) ths.
Definition done (t : thread) : bool :=
  started t && match code t with [] => true | _ => false end.
Definition unfinished (t : thread) : bool :=
  started t && match code t with [] => false | _ => true end.
Fixpoint lookup (s : nat) (m : list (nat * nat)) : option nat :=
  match m with
  | [] => None
  | (k, v) :: m' => if Nat.eqb k s then Some v else lookup s m'
  end.
Fixpoint set_nth {A} (i : nat) (x : A) (l : list A) : list A :=
  match l, i with
  | [], _ => []
  | _ :: l', O => x :: l'
  | y :: l', S i' => y :: set_nth i' x l'
  end.

Definition local (a : action) (h : list res) : list res :=
  match a with
  | Acq r => r :: h
  | Rel r | WaitRel r => remove1 r h
  | _ => h
  end.

Definition enabled (s : state) (a : action) : bool :=
  match a with
  | Acq r => is_free (threads s) r
  | Join sl =>
      match lookup sl (jslot s) with
      | Some u => match nth_error (threads s) u with Some tu => done tu | None => true end
      | None => true
      end
  | _ => true
  end.

Definition mark (t : thread) : thread := {| started := true; held := held t; code := code t |}.
Definition start (u : nat) (ths : list thread) : list thread :=
  match nth_error ths u with Some tu => set_nth u (mark tu) ths | None => ths end.

(** thread [i] executes its next action, if it has one that is enabled.  The enabledness test is a
    parameter: [step] uses [enabled] (every lock exclusive: the LEAST permissive semantics); any
    [en] with [enabled s a = true -> en s i a = true] (a free lock can always be taken) describes a
    more permissive lock implementation, e.g. an RwLock whose readers share (LocksProofs.no_deadlock_g). *)
Definition gstep (en : state -> nat -> action -> bool) (s : state) (i : nat) : option state :=
  match nth_error (threads s) i with
  | None => None
  | Some t =>
      if started t then
        match code t with
        | [] => None
        | a :: p =>
            if en s i a then
              let ths1 := set_nth i {| started := true; held := local a (held t); code := p |} (threads s) in
              Some {| threads := match a with Spawn _ u => start u ths1 | _ => ths1 end;
                      jslot := match a with Spawn sl u => (sl, u) :: jslot s | _ => jslot s end;
                      stopped := match a with SetStop k => k :: stopped s | _ => stopped s end |}
            else None
        end
      else None
  end.
Definition en_excl (s : state) (i : nat) (a : action) : bool := enabled s a.
Definition step (s : state) (i : nat) : option state := gstep en_excl s i.

Inductive greachable (en : state -> nat -> action -> bool) (s0 : state) : state -> Prop :=
| greach_refl : greachable en s0 s0
| greach_step : forall s i s', greachable en s0 s -> gstep en s i = Some s' -> greachable en s0 s'.

(** shared readers: threads in [reader] take [Multi m] in read mode and may share it with each other *)
Definition en_shared (reader : nat -> bool) (s : state) (i : nat) (a : action) : bool :=
  match a with
  | Acq (Multi m) =>
      enabled s a ||
      (reader i &&
       forallb (fun jt : nat * thread => negb (holds (snd jt) (Multi m)) || reader (fst jt))
               (combine (seq 0 (length (threads s))) (threads s)))
  | _ => enabled s a
  end.

Definition init (ths : list thread) : state := {| threads := ths; jslot := []; stopped := [] |}.

Inductive reachable (s0 : state) : state -> Prop :=
| reach_refl : reachable s0 s0
| reach_step : forall s i s', reachable s0 s -> step s i = Some s' -> reachable s0 s'.

(** run a schedule (list of thread indices); a scheduled thread that cannot move is skipped *)
Fixpoint run (s : state) (sched : list nat) : state :=
  match sched with
  | [] => s
  | i :: r => match step s i with Some s' => run s' r | None => run s r end
  end.

Definition deadlocked (s : state) : bool :=
  existsb unfinished (threads s) &&
  forallb (fun i => match step s i with None => true | Some _ => false end) (seq 0 (length (threads s))).

(** The static discipline.  [ordered_from h p]: starting with the resources [h] held, the
    program [p] acquires only above everything it holds, releases only what it holds, waits on
    a condvar holding exactly the mutex of that condvar, joins only while everything it holds is
    below [join_rank], and ends holding nothing. *)
Fixpoint ordered_from (h : list res) (p : list action) : bool :=
  match p with
  | [] => match h with [] => true | _ => false end
  | Acq r :: q => forallb (fun x => rank x <? rank r) h && ordered_from (r :: h) q
  | Rel r :: q => existsb (res_eqb r) h && ordered_from (remove1 r h) q
  | WaitRel r :: q =>
      match h with
      | [x] => res_eqb x r && ordered_from [] q
      | _ => false
      end
  | Join _ :: q => forallb (fun x => rank x <? join_rank) h && ordered_from h q
  | _ :: q => ordered_from h q
  end.
Definition Ordered (p : list action) : Prop := ordered_from [] p = true.

(** program of a thread that may be spawned and joined: no join, no spawn, every
    acquisition at or above [join_rank] *)
Definition worker_ok (p : list action) : bool :=
  forallb (fun a => match a with
                    | Acq r => join_rank <=? rank r
                    | Join _ | Spawn _ _ => false
                    | _ => true
                    end) p.

Definition spawns_ok (ths : list thread) (p : list action) : Prop :=
  forall sl u, In (Spawn sl u) p ->
    exists tu, nth_error ths u = Some tu /\ worker_ok (code tu) = true.

(** initial configurations: nothing held, every program a concatenation of Ordered
    footprints, every spawned pool thread is a worker *)
Definition WF (ths : list thread) : Prop :=
  Forall (fun t => held t = [] /\ exists fps, code t = concat fps /\ Forall Ordered fps) ths /\
  Forall (fun t => spawns_ok ths (code t)) ths.

(** deleting balanced segments (the paths of a call are thinnings of its linearised footprint) *)
Definition Bal (seg : list action) : Prop :=
  forall h b, ordered_from h (seg ++ b) = true -> ordered_from h b = true.
Inductive Thin : list action -> list action -> Prop :=
| thin_refl : forall p, Thin p p
| thin_del : forall a seg b q, Bal seg -> Thin (a ++ b) q -> Thin (a ++ seg ++ b) q.

(* ------------------------------------------------------------------ Part 2 *)

(** Class-level actions: what the source translator emits.  One call touches one bar [b], the
    MultiProgress [m] it is a member of, and the stop cell / pool thread [k] of its ticker. *)
Inductive cres := CSlot | CBar | CMulti | CStop.
Inductive caction :=
| CAcq (c : cres) | CRel (c : cres) | CWaitRel (c : cres)
| CSetStop | CNotify | CSpawn | CJoin
| CCallback              (* user closure / ProgressTracker call sites (update/suspend closures, tracker
                            tick/reset, format_state): must not re-enter.  TermLike / Write calls made by the
                            draw under the Multi or Bar lock are NOT marked individually (same proviso) *)
| CTick                  (* BarState::tick: spinner tick + 1 *)
| CUpgrade | CDropArc.   (* Weak::upgrade / drop of an Arc<Mutex<BarState>> *)

Definition crank (c : cres) : nat :=
  match c with CSlot => 0 | CBar => 1 | CMulti => 2 | CStop => 3 end.
Definition cres_eqb (x y : cres) : bool :=
  match x, y with
  | CSlot, CSlot | CBar, CBar | CMulti, CMulti | CStop, CStop => true
  | _, _ => false
  end.
Definition inst_res (b m k : nat) (c : cres) : res :=
  match c with CSlot => Slot b | CBar => Bar b | CMulti => Multi m | CStop => Stop k end.
Definition inst (b m k : nat) (a : caction) : action :=
  match a with
  | CAcq c => Acq (inst_res b m k c)
  | CRel c => Rel (inst_res b m k c)
  | CWaitRel c => WaitRel (inst_res b m k c)
  | CSetStop => SetStop k
  | CNotify => Notify k
  | CSpawn => Spawn b k
  | CJoin => Join b
  | CCallback => Local 0
  | CTick => Local 1
  | CUpgrade => Local 2
  | CDropArc => Local 3
  end.

Fixpoint cremove1 (r : cres) (l : list cres) : list cres :=
  match l with
  | [] => []
  | x :: l' => if cres_eqb x r then l' else x :: cremove1 r l'
  end.
Fixpoint cordered_from (h : list cres) (p : list caction) : bool :=
  match p with
  | [] => match h with [] => true | _ => false end
  | CAcq r :: q => forallb (fun x => crank x <? crank r) h && cordered_from (r :: h) q
  | CRel r :: q => existsb (cres_eqb r) h && cordered_from (cremove1 r h) q
  | CWaitRel r :: q =>
      match h with
      | [x] => cres_eqb x r && cordered_from [] q
      | _ => false
      end
  | CJoin :: q => forallb (fun x => crank x <? join_rank) h && cordered_from h q
  | _ :: q => cordered_from h q
  end.
Definition cordered (p : list caction) : bool := cordered_from [] p.
Definition cworker_ok (p : list caction) : bool :=
  forallb (fun a => match a with
                    | CAcq r => join_rank <=? crank r
                    | CJoin | CSpawn => false
                    | _ => true
                    end) p.

(** pairs (held class, acquired class) that occur nested in a footprint: the order "derived" *)
Fixpoint cnest_from (h : list cres) (p : list caction) : list (cres * cres) :=
  match p with
  | [] => []
  | CAcq r :: q => map (fun x => (x, r)) h ++ cnest_from (r :: h) q
  | CRel r :: q | CWaitRel r :: q => cnest_from (cremove1 r h) q
  | _ :: q => cnest_from h q
  end.

(** update() before fix 68f1e2d (git show 68f1e2d^:src/progress_bar.rs:276-279):
    `self.state().update(now, f, self.ticker.lock().unwrap().is_none())` - the receiver is
    evaluated before the argument, both temporaries live to the end of the statement.  This is
    literally what tools/locks_extract.py emits for that revision of the source. *)
Definition old_update_fp : list caction :=
  [CAcq CBar; CAcq CSlot; CCallback; CTick; CCallback; CAcq CMulti; CCallback; CRel CMulti; CRel CSlot; CRel CBar].

(* ------------------------------------------------------------------ Part 3 *)

(** TickerControl::run (src/progress_bar.rs:739-772), one control point per blocking or
    shared-state operation. *)
Inductive tpc :=
| TUpgrade         (* :743 self.state.upgrade() *)
| TLockBar         (* :744 arc.lock() *)
| TCheckFin        (* :745 state.state.is_finished() *)
| TFinUnlock       (* :746 break: the guard `state` is dropped ... *)
| TFinDrop         (*           ... then `arc` *)
| TTick            (* :749 state.tick(now)  (BarState::tick, state.rs:143: tick+1, draw) *)
| TUnlockBar       (* :751 drop(state) *)
| TDropArc         (* :752 drop(arc)   (BarState::drop runs here if it was the last Arc) *)
| TLockStop        (* :758 self.stopping.0.lock() *)
| TCheckStop       (* wait_timeout_while loop head: predicate !*stopped, then the deadline *)
| TSleep           (* inside Condvar::wait_timeout: Stop released atomically, thread parked *)
| TRelock          (* woken (notify / time-out / spurious): re-acquire Stop *)
| TUnlockStopExit  (* :764-765 not timed out => break; `result` (the guard) dropped *)
| TUnlockStopLoop  (* timed out: end of the loop body, `result` dropped, next iteration *)
| TDone.

Inductive lockst := Free | ByTicker | ByEnv.

Record tsys := {
  pc : tpc;
  flag : bool;      (* *stopping.0 *)
  owed : bool;      (* ghost: flag set by a stop() that has not yet executed its notify_one() *)
  fin : bool;       (* state.state.is_finished() *)
  strong : nat;     (* ProgressBar handles alive (strong count of `state` without the ticker's) *)
  tarc : bool;      (* the ticker thread holds an upgraded Arc *)
  barl : lockst;    (* bar state mutex *)
  stopl : lockst;   (* stop mutex *)
  nticks : nat;     (* ghost: BarState::tick calls made by the ticker thread *)
  iters : nat       (* ghost: loop iterations begun (upgrade attempts) *)
}.

Inductive label :=
| LT (timed_out : bool)   (* one step of the ticker thread; the argument is the time-out oracle's
                             answer, read only at TCheckStop (deadline passed?) *)
| LWake                   (* time-out or spurious wake-up of the parked thread *)
| LNotify                 (* Ticker::stop :729 notify_one() *)
| LLockStop | LSetStop | LUnlockStop     (* Ticker::stop :728 *)
| LLockBar | LUnlockBar                  (* any user call holding the bar state *)
| LFinish | LReset                       (* under the bar state lock *)
| LClone | LDropHandle.

Definition upd_pc (s : tsys) (p : tpc) : tsys :=
  {| pc := p; flag := flag s; owed := owed s; fin := fin s; strong := strong s; tarc := tarc s;
     barl := barl s; stopl := stopl s; nticks := nticks s; iters := iters s |}.

Definition is_free_l (l : lockst) : bool := match l with Free => true | _ => false end.
Definition is_env_l (l : lockst) : bool := match l with ByEnv => true | _ => false end.

Definition tstep (o : bool) (s : tsys) : option tsys :=
  let mk p tarc' barl' stopl' nt it :=
    Some {| pc := p; flag := flag s; owed := owed s; fin := fin s; strong := strong s; tarc := tarc';
            barl := barl'; stopl := stopl'; nticks := nt; iters := it |} in
  match pc s with
  | TUpgrade => if Nat.eqb (strong s) 0
                then mk TDone false (barl s) (stopl s) (nticks s) (S (iters s))
                else mk TLockBar true (barl s) (stopl s) (nticks s) (S (iters s))
  | TLockBar => if is_free_l (barl s) then mk TCheckFin (tarc s) ByTicker (stopl s) (nticks s) (iters s) else None
  | TCheckFin => Some (upd_pc s (if fin s then TFinUnlock else TTick))
  | TFinUnlock => mk TFinDrop (tarc s) Free (stopl s) (nticks s) (iters s)
  | TFinDrop => mk TDone false (barl s) (stopl s) (nticks s) (iters s)
  | TTick => mk TUnlockBar (tarc s) (barl s) (stopl s) (S (nticks s)) (iters s)
  | TUnlockBar => mk TDropArc (tarc s) Free (stopl s) (nticks s) (iters s)
  | TDropArc => mk TLockStop false (barl s) (stopl s) (nticks s) (iters s)
  | TLockStop => if is_free_l (stopl s) then mk TCheckStop (tarc s) (barl s) ByTicker (nticks s) (iters s) else None
  | TCheckStop =>
      if flag s then Some (upd_pc s TUnlockStopExit)
      else if o then Some (upd_pc s TUnlockStopLoop)
      else mk TSleep (tarc s) (barl s) Free (nticks s) (iters s)
  | TSleep => None
  | TRelock => if is_free_l (stopl s) then mk TCheckStop (tarc s) (barl s) ByTicker (nticks s) (iters s) else None
  | TUnlockStopExit => mk TDone (tarc s) (barl s) Free (nticks s) (iters s)
  | TUnlockStopLoop => mk TUpgrade (tarc s) (barl s) Free (nticks s) (iters s)
  | TDone => None
  end.

Definition lstep (l : label) (s : tsys) : option tsys :=
  let mk fl ow fi st bl sl :=
    Some {| pc := pc s; flag := fl; owed := ow; fin := fi; strong := st; tarc := tarc s;
            barl := bl; stopl := sl; nticks := nticks s; iters := iters s |} in
  match l with
  | LT o => tstep o s
  | LWake => match pc s with TSleep => Some (upd_pc s TRelock) | _ => None end
  | LNotify =>
      let s' := {| pc := match pc s with TSleep => TRelock | p => p end;
                   flag := flag s; owed := false; fin := fin s; strong := strong s; tarc := tarc s;
                   barl := barl s; stopl := stopl s; nticks := nticks s; iters := iters s |} in
      Some s'
  | LLockStop => if is_free_l (stopl s) then mk (flag s) (owed s) (fin s) (strong s) (barl s) ByEnv else None
  | LSetStop => if is_env_l (stopl s) then mk true true (fin s) (strong s) (barl s) (stopl s) else None
  | LUnlockStop => if is_env_l (stopl s) then mk (flag s) (owed s) (fin s) (strong s) (barl s) Free else None
  | LLockBar => if is_free_l (barl s) then mk (flag s) (owed s) (fin s) (strong s) ByEnv (stopl s) else None
  | LUnlockBar => if is_env_l (barl s) then mk (flag s) (owed s) (fin s) (strong s) Free (stopl s) else None
  | LFinish => if is_env_l (barl s) then mk (flag s) (owed s) true (strong s) (barl s) (stopl s) else None
  | LReset => if is_env_l (barl s) then mk (flag s) (owed s) false (strong s) (barl s) (stopl s) else None
  | LClone => if Nat.eqb (strong s) 0 then None else mk (flag s) (owed s) (fin s) (S (strong s)) (barl s) (stopl s)
  | LDropHandle => match strong s with O => None | S n => mk (flag s) (owed s) (fin s) n (barl s) (stopl s) end
  end.

Fixpoint lrun (tr : list label) (s : tsys) : option tsys :=
  match tr with
  | [] => Some s
  | l :: r => match lstep l s with Some s' => lrun r s' | None => None end
  end.

(** a freshly spawned ticker (Ticker::new, :707-725): flag false, Stop free; the bar state may
    be finished or not and locked by a user or not, any number of handles *)
Definition tinit (fi : bool) (st : nat) (bar_locked : bool) : tsys :=
  {| pc := TUpgrade; flag := false; owed := false; fin := fi; strong := st; tarc := false;
     barl := if bar_locked then ByEnv else Free; stopl := Free; nticks := 0; iters := 0 |}.
Definition treach (s : tsys) : Prop :=
  exists fi st bl tr, lrun tr (tinit fi st bl) = Some s.

Definition is_LT (l : label) : bool := match l with LT _ => true | _ => false end.
Definition count_LT (tr : list label) : nat := length (filter is_LT tr).
Definition no_reset (tr : list label) : bool :=
  forallb (fun l => match l with LReset => false | _ => true end) tr.

(** upper bound on the ticker thread's own steps to TDone once the stop flag is set *)
Definition fuel (p : tpc) : nat :=
  match p with
  | TUnlockStopLoop => 10 | TUpgrade => 9 | TLockBar => 8 | TCheckFin => 7 | TTick => 6
  | TUnlockBar => 5 | TDropArc => 4 | TLockStop => 3 | TRelock => 3 | TSleep => 3
  | TCheckStop => 2 | TFinUnlock => 2 | TFinDrop => 1 | TUnlockStopExit => 1 | TDone => 0
  end.
Definition exit_bound : nat := 10.
(** may still tick / begin an iteration once the flag is set *)
Definition tickfuel (p : tpc) : nat :=
  match p with TUnlockStopLoop | TUpgrade | TLockBar | TCheckFin | TTick => 1 | _ => 0 end.
Definition iterfuel (p : tpc) : nat :=
  match p with TUnlockStopLoop | TUpgrade => 1 | _ => 0 end.
(** may still tick once the bar is finished (only a tick that is already past the check) *)
Definition tickfuel_fin (p : tpc) : nat := match p with TTick => 1 | _ => 0 end.

(** the invariant of the automaton *)
Definition tinv (s : tsys) : bool :=
  (* no lost wake-up: a parked ticker with the flag set is still owed a notify *)
  (match pc s with TSleep => implb (flag s) (owed s) | _ => true end) &&
  (* who holds the bar state *)
  (match pc s, barl s with
   | (TCheckFin | TFinUnlock | TTick | TUnlockBar), ByTicker => true
   | (TCheckFin | TFinUnlock | TTick | TUnlockBar), _ => false
   | _, ByTicker => false
   | _, _ => true
   end) &&
  (* who holds the stop mutex *)
  (match pc s, stopl s with
   | (TCheckStop | TUnlockStopExit | TUnlockStopLoop), ByTicker => true
   | (TCheckStop | TUnlockStopExit | TUnlockStopLoop), _ => false
   | _, ByTicker => false
   | _, _ => true
   end) &&
  (* the upgraded Arc *)
  (match pc s with
   | TLockBar | TCheckFin | TFinUnlock | TFinDrop | TTick | TUnlockBar | TDropArc => tarc s
   | _ => negb (tarc s)
   end) &&
  (* owed only after a SetStop *)
  implb (owed s) (flag s).

(** the ticker thread alone, [n] steps, time-out oracle [os]; a step that is not enabled is skipped *)
Fixpoint run_ticker (os : nat -> bool) (n : nat) (s : tsys) : tsys :=
  match n with
  | O => s
  | S n' => match tstep (os n') s with Some s' => run_ticker os n' s' | None => s end
  end.

(** ProgressBar::tick_inner (progress_bar.rs:235-240) + BarState::tick (state.rs:143-146) on the spinner tick *)
Definition tick_inner (slot_is_none : bool) (tk : N) : N :=
  if slot_is_none then sat_add64 tk 1 else tk.

(* ------------------------------------------------------------------ Part 4 *)
(** Correspondence checkers (harness/src/bin/c08.rs).  The table of footprints is a parameter:
    the shards pass gen/LockFootprints.all_footprints and ticker_body. *)

Fixpoint fp_lookup (name : String.string) (tbl : list (String.string * list caction)) : option (list caction) :=
  match tbl with
  | [] => None
  | (n, p) :: r => if String.eqb n name then Some p else fp_lookup name r
  end.

(** one public call of a scenario: method name, bar id, multi id, ticker id (= stop cell = pool
    index of the ticker thread an enable_steady_tick spawns) *)
Definition scall : Type := (String.string * nat * nat * nat)%type.

Definition scall_prog (tbl : list (String.string * list caction)) (c : scall) : option (list action) :=
  let '(name, b, m, k) := c in
  match fp_lookup name tbl with
  | Some p => Some (map (inst b m k) p)
  | None => None
  end.

Fixpoint thread_prog (tbl : list (String.string * list caction)) (cs : list scall) : option (list action) :=
  match cs with
  | [] => Some []
  | c :: r => match scall_prog tbl c, thread_prog tbl r with
              | Some p, Some q => Some (p ++ q)
              | _, _ => None
              end
  end.

Fixpoint repeat_list {A} (n : nat) (l : list A) : list A :=
  match n with O => [] | S n' => l ++ repeat_list n' l end.

(** boolean well-formedness of a pool (implies WF, LocksProofs.pool_okb_WF) *)
Definition spawns_okb (ths : list thread) (p : list action) : bool :=
  forallb (fun a => match a with
                    | Spawn _ u => match nth_error ths u with
                                   | Some tu => worker_ok (code tu)
                                   | None => false
                                   end
                    | _ => true
                    end) p.
Definition pool_okb (ths : list thread) : bool :=
  forallb (fun t => match held t with [] => true | _ => false end && ordered_from [] (code t)) ths &&
  forallb (fun t => spawns_okb ths (code t)) ths.

(** deterministic scheduler: the first enabled thread at or after a rotating offset; stops when
    nothing is enabled *)
Fixpoint first_enabled (s : state) (cands : list nat) : option (nat * state) :=
  match cands with
  | [] => None
  | i :: r => match step s i with Some s' => Some (i, s') | None => first_enabled s r end
  end.
Fixpoint run_all (fuel : nat) (seed : nat) (s : state) : state :=
  match fuel with
  | O => s
  | S f =>
      let n := length (threads s) in
      let off := match n with O => O | _ => Nat.modulo (seed + f * 7) n end in
      let cands := map (fun j => Nat.modulo (j + off) (match n with O => 1 | _ => n end)) (seq 0 n) in
      match first_enabled s cands with
      | Some (_, s') => run_all f seed s'
      | None => s
      end
  end.
Definition all_done (s : state) : bool := negb (existsb unfinished (threads s)).

Inductive life_event := EvDisable | EvReplace | EvDropLast | EvFinish | EvFinishNoWake.

Definition stop_labels : list label := [LLockStop; LSetStop; LUnlockStop; LNotify].
Definition life_labels (e : life_event) : list label :=
  match e with
  | EvDisable | EvReplace => stop_labels
  | EvDropLast => LDropHandle :: stop_labels
  | EvFinish => [LLockBar; LFinish; LUnlockBar] ++ stop_labels
  | EvFinishNoWake => [LLockBar; LFinish; LUnlockBar]      (* the code before 6022e97 *)
  end.
(** a ticker parked in its first wait, then the event, then the ticker alone with the time-out
    oracle answering [timeout_fires] (plus the wake-up it causes): has it exited? *)
Definition life_exits (e : life_event) (timeout_fires : bool) : bool :=
  let s0 := run_ticker (fun _ => false) 8 (tinit false 1 false) in
  match lrun (life_labels e) s0 with
  | None => false
  | Some s1 =>
      let s2 := if timeout_fires then match lstep LWake s1 with Some s => s | None => s1 end else s1 in
      match pc (run_ticker (fun _ => timeout_fires) (exit_bound + exit_bound) s2) with
      | TDone => true
      | _ => false
      end
  end.

Inductive c08case :=
| CScenario (users : list (list scall)) (workers : list (nat * nat)) (iters : nat) (seed : nat)
            (completed : bool)
  (* the implementation ran these call sequences on real threads; [completed] = no watchdog *)
| CLife (e : life_event) (interval_ms window_ms : N) (exited : bool)
  (* the ticker thread was gone [window_ms] after the event.  NO LONGER EMITTED by the harness: [life_exits] is
     true for every event it can produce whatever the interval, the case carried no information *)
| CManualTick (installed : bool) (manual_ticks : nat) (tick_before tick_after : N).
  (* spinner tick observed before / after [manual_ticks] calls of tick() *)

Definition scenario_pool (tbl : list (String.string * list caction)) (body : list caction)
    (users : list (list scall)) (workers : list (nat * nat)) (iters : nat) : option (list thread) :=
  let nu := length users in
  let fix go (us : list (list scall)) : option (list thread) :=
    match us with
    | [] => Some []
    | u :: r => match thread_prog tbl u, go r with
                | Some p, Some ts => Some ({| started := true; held := []; code := p |} :: ts)
                | _, _ => None
                end
    end in
  match go users with
  | None => None
  | Some uts =>
      Some (uts ++
            map (fun '(j, (b, m)) =>
                   {| started := false; held := [];
                      code := repeat_list iters (map (inst b m (nu + j)) body) |})
                (combine (seq 0 (length workers)) workers))
  end.

Definition c08_check (tbl : list (String.string * list caction)) (body : list caction) (c : c08case) : bool :=
  match c with
  | CScenario users workers iters seed completed =>
      match scenario_pool tbl body users workers iters with
      | None => false                      (* a call the generated table does not know *)
      | Some ths =>
          let total := fold_right (fun t a => length (code t) + a) 0 ths in
          pool_okb ths && Bool.eqb (all_done (run_all (S total) seed (init ths))) completed
      end
  | CLife e interval window exited =>
      Bool.eqb (life_exits e (N.leb interval window)) exited
  | CManualTick installed n before after =>
      N.eqb (Nat.iter n (tick_inner (negb installed)) before) after
  end.

(* ------------------------------------------------------------------ Part 5 *)
(** Structured programs: what tools/locks_extract.py emits as [all_programs] - the control flow of
    each Rust method body, callees inlined.
      PBranch: if / else, match arms, if-let (no else: [body; skip]), the closure of Option::map
               ([body; skip]), "last reference?" of an Arc drop ([Drop impl; skip]);
      PLoop:   for / while / loop - any number of iterations; the exit test of a `while [let]` is the
               first thing of the body, followed by [PBranch [leave; rest of the body]];
      PExit c: an early exit (return / break / continue / `?`): the translator has CUT the
               continuation at that point (the statements after it are only in the alternatives that
               do not leave) and [c] is what dies on the way out (guards, owned values).  For the
               path semantics [PExit c] is just [c]; [linear] skips it, so that [linear] of a
               program is the flat footprint of [all_footprints]. *)
Inductive cprog :=
| PAct (a : caction)
| PSeq (l : list cprog)
| PBranch (alts : list cprog)
| PLoop (body : cprog)
| PExit (cleanup : cprog).

(** the action sequences of all executions (loops unrolled any number of times) *)
Inductive paths : cprog -> list caction -> Prop :=
| pa_act : forall a, paths (PAct a) [a]
| pa_seq : forall l trs, Forall2 paths l trs -> paths (PSeq l) (concat trs)
| pa_branch : forall alts p tr, In p alts -> paths p tr -> paths (PBranch alts) tr
| pa_loop : forall b trs, Forall (paths b) trs -> paths (PLoop b) (concat trs)
| pa_exit : forall c tr, paths c tr -> paths (PExit c) tr.

(** textual order: every alternative once, every loop body once, early-exit clean-ups skipped *)
Fixpoint linear (p : cprog) : list caction :=
  match p with
  | PAct a => [a]
  | PSeq l => (fix go (l : list cprog) := match l with [] => [] | q :: r => linear q ++ go r end) l
  | PBranch l => (fix go (l : list cprog) := match l with [] => [] | q :: r => linear q ++ go r end) l
  | PLoop b => linear b
  | PExit _ => []
  end.

(** every action that occurs anywhere in the program *)
Fixpoint pactions (p : cprog) : list caction :=
  match p with
  | PAct a => [a]
  | PSeq l => (fix go (l : list cprog) := match l with [] => [] | q :: r => pactions q ++ go r end) l
  | PBranch l => (fix go (l : list cprog) := match l with [] => [] | q :: r => pactions q ++ go r end) l
  | PLoop b => pactions b
  | PExit c => pactions c
  end.

(** A generic abstract interpreter over structured programs: abstract states [S] with a boolean
    equality, a partial transfer function per action ([None] = the property is violated).
    [acheck p ss] = the set of states after [p] when started in any state of [ss]; None as soon as
    some path can violate.  A loop needs its entry set to be invariant: every state the body can
    end in must already be in the entry set.  ([arun] = the concrete run of one action sequence.) *)
Section AbstractInterpreter.
  Variable S : Type.
  Variable seqb : S -> S -> bool.
  Variable stepf : caction -> S -> option S.

  Fixpoint arun (s : S) (tr : list caction) : option S :=
    match tr with
    | [] => Some s
    | a :: q => match stepf a s with Some s' => arun s' q | None => None end
    end.
  Definition smem (x : S) (ss : list S) : bool := existsb (seqb x) ss.
  Fixpoint sdedup (ss : list S) : list S :=
    match ss with
    | [] => []
    | x :: r => if smem x r then sdedup r else x :: sdedup r
    end.
  Fixpoint astep_all (a : caction) (ss : list S) : option (list S) :=
    match ss with
    | [] => Some []
    | x :: r => match stepf a x, astep_all a r with
                | Some x', Some o => Some (x' :: o)
                | _, _ => None
                end
    end.
  Fixpoint acheck (p : cprog) (ss : list S) {struct p} : option (list S) :=
    match p with
    | PAct a => option_map sdedup (astep_all a ss)
    | PSeq l =>
        (fix go (l : list cprog) (ss : list S) : option (list S) :=
           match l with
           | [] => Some ss
           | q :: r => match acheck q ss with Some ss' => go r ss' | None => None end
           end) l ss
    | PBranch alts =>
        option_map sdedup
          ((fix go (l : list cprog) : option (list S) :=
              match l with
              | [] => Some []
              | q :: r => match acheck q ss, go r with
                          | Some a, Some b => Some (a ++ b)
                          | _, _ => None
                          end
              end) alts)
    | PLoop b =>
        match acheck b ss with
        | Some ss' => if forallb (fun x => smem x ss) ss' then Some ss else None
        | None => None
        end
    | PExit c => acheck c ss
    end.
End AbstractInterpreter.
Arguments arun {S} stepf s tr.
Arguments acheck {S} seqb stepf p ss.

(** one action on a held list; None = the discipline is violated (same tests as [cordered_from]);
    [ok held acquired] is an extra condition on every nesting (used to DERIVE the order) *)
Definition cstep_g (ok : cres -> cres -> bool) (a : caction) (h : list cres) : option (list cres) :=
  match a with
  | CAcq r => if forallb (fun x => (crank x <? crank r) && ok x r) h then Some (r :: h) else None
  | CRel r => if existsb (cres_eqb r) h then Some (cremove1 r h) else None
  | CWaitRel r => match h with
                  | [x] => if cres_eqb x r then Some [] else None
                  | _ => None
                  end
  | CJoin => if forallb (fun x => crank x <? join_rank) h then Some h else None
  | _ => Some h
  end.
Definition ok_any (x r : cres) : bool := true.
Definition cstep : caction -> list cres -> option (list cres) := cstep_g ok_any.
Definition crun_g (ok : cres -> cres -> bool) : list cres -> list caction -> option (list cres) :=
  arun (cstep_g ok).
Definition crun : list cres -> list caction -> option (list cres) := crun_g ok_any.
Definition hl_eqb (x y : list cres) : bool := list_eqb cres_eqb x y.
Definition check_g (ok : cres -> cres -> bool) : cprog -> list (list cres) -> option (list (list cres)) :=
  acheck hl_eqb (cstep_g ok).
Definition check : cprog -> list (list cres) -> option (list (list cres)) := check_g ok_any.

Definition all_nil (outs : list (list cres)) : bool :=
  forallb (fun h => match h with [] => true | _ => false end) outs.
(** every path is Ordered: starts holding nothing, never violates the discipline, ends holding nothing *)
Definition prog_ordered (p : cprog) : bool :=
  match check p [[]] with Some outs => all_nil outs | None => false end.
(** ... and every nesting (held x, acquired r) on every path is one of [allowed] *)
Definition pair_in (allowed : list (cres * cres)) (x r : cres) : bool :=
  existsb (fun pr => cres_eqb (fst pr) x && cres_eqb (snd pr) r) allowed.
Definition prog_nest_ok (allowed : list (cres * cres)) (p : cprog) : bool :=
  match check_g (pair_in allowed) p [[]] with Some outs => all_nil outs | None => false end.

(** a path chosen by a script: at a branch the next number is the index of the alternative (clamped
    to the last one), at a loop the number of iterations; when the script is used up, [d] *)
Fixpoint choose (d : nat) (p : cprog) (sc : list nat) {struct p} : option (list caction * list nat) :=
  let pop (sc : list nat) := match sc with [] => (d, []) | i :: r => (i, r) end in
  match p with
  | PAct a => Some ([a], sc)
  | PSeq l =>
      (fix go (l : list cprog) (sc : list nat) : option (list caction * list nat) :=
         match l with
         | [] => Some ([], sc)
         | q :: r => match choose d q sc with
                     | Some (t1, sc1) => match go r sc1 with
                                         | Some (t2, sc2) => Some (t1 ++ t2, sc2)
                                         | None => None
                                         end
                     | None => None
                     end
         end) l sc
  | PBranch alts =>
      let '(i, sc') := pop sc in
      (fix pick (l : list cprog) (i : nat) : option (list caction * list nat) :=
         match l, i with
         | [], _ => None
         | [q], _ => choose d q sc'
         | q :: _, O => choose d q sc'
         | _ :: r, S j => pick r j
         end) alts i
  | PLoop b =>
      let '(n, sc') := pop sc in
      (fix it (n : nat) (sc : list nat) : option (list caction * list nat) :=
         match n with
         | O => Some ([], sc)
         | S m => match choose d b sc with
                  | Some (t1, sc1) => match it m sc1 with
                                      | Some (t2, sc2) => Some (t1 ++ t2, sc2)
                                      | None => None
                                      end
                  | None => None
                  end
         end) n sc'
  | PExit c => choose d c sc
  end.
Definition path_of (d : nat) (p : cprog) (sc : list nat) : list caction :=
  match choose d p sc with Some (tr, _) => tr | None => [] end.

(** every action of the program is allowed in a thread that is spawned and joined *)
Definition prog_worker (p : cprog) : bool :=
  forallb (fun a => match a with
                    | CAcq r => join_rank <=? crank r
                    | CJoin | CSpawn => false
                    | _ => true
                    end) (pactions p).

(** programs of threads given as paths of table programs: a list of segments
    (program, instance ids, path) *)
Definition seg : Type := (cprog * (nat * nat * nat) * list caction)%type.
Definition seg_code (sg : seg) : list action :=
  match sg with (_, (b, m, k), tr) => map (inst b m k) tr end.
Definition seg_ok (tbl : list (String.string * cprog)) (sg : seg) : Prop :=
  match sg with (p, _, tr) => (exists name, In (name, p) tbl) /\ paths p tr end.
Definition path_code (tbl : list (String.string * cprog)) (c : list action) : Prop :=
  exists segs : list seg, c = concat (map seg_code segs) /\ Forall (seg_ok tbl) segs.
Definition WFp (tbl : list (String.string * cprog)) (ths : list thread) : Prop :=
  Forall (fun t => held t = [] /\ path_code tbl (code t)) ths /\
  Forall (fun t => spawns_ok ths (code t)) ths.

(** erasing every action on one lock class (a bar that is not a MultiProgress member never takes
    [CMulti]; a bar without ticker never takes [CStop]; ...) *)
Fixpoint cerase (c : cres) (tr : list caction) : list caction :=
  match tr with
  | [] => []
  | a :: q =>
      match a with
      | CAcq r | CRel r | CWaitRel r => if cres_eqb r c then cerase c q else a :: cerase c q
      | _ => a :: cerase c q
      end
  end.
Definition hfilter (c : cres) (h : list cres) : list cres := filter (fun x => negb (cres_eqb x c)) h.

(* ------------------------------------------------------------------ Part 6 *)
(** The scenario checker over the STRUCTURED table (replaces the flat-table [c08_check] in the
    shards): every call of the scenario must be known to the generated table by name and its
    program must be [prog_ordered]; the pool is built from one canonical path per call
    ([path_of 0]: first alternative, no loop iteration) and [iters] iterations of the ticker
    program ([path_of 1] with the outer loop count from the script), must be [pool_okb] and is run
    to completion by the deterministic scheduler.  This is a sanity check of the table against the
    calls the harness makes (names, drift), NOT evidence that the footprints are what the compiled
    code does - by C08_no_deadlock the run of a well-formed pool always completes. *)
Fixpoint pg_lookup (name : String.string) (tbl : list (String.string * cprog)) : option cprog :=
  match tbl with
  | [] => None
  | (n, p) :: r => if String.eqb n name then Some p else pg_lookup name r
  end.
Fixpoint thread_prog_p (tbl : list (String.string * cprog)) (cs : list scall) : option (list action) :=
  match cs with
  | [] => Some []
  | (name, b, m, k) :: r =>
      match pg_lookup name tbl, thread_prog_p tbl r with
      | Some p, Some q => if prog_ordered p then Some (map (inst b m k) (path_of 0 p []) ++ q) else None
      | _, _ => None
      end
  end.
Definition scenario_pool_p (tbl : list (String.string * cprog)) (tprog : cprog)
    (users : list (list scall)) (workers : list (nat * nat)) (iters : nat) : option (list thread) :=
  let nu := length users in
  let fix go (us : list (list scall)) : option (list thread) :=
    match us with
    | [] => Some []
    | u :: r => match thread_prog_p tbl u, go r with
                | Some p, Some ts => Some ({| started := true; held := []; code := p |} :: ts)
                | _, _ => None
                end
    end in
  match go users with
  | None => None
  | Some uts =>
      Some (uts ++
            map (fun '(j, (b, m)) =>
                   {| started := false; held := [];
                      code := map (inst b m (nu + j)) (path_of 1 tprog [iters]) |})
                (combine (seq 0 (length workers)) workers))
  end.
Definition c08_check_p (tbl : list (String.string * cprog)) (tprog : cprog) (c : c08case) : bool :=
  match c with
  | CScenario users workers iters seed completed =>
      match scenario_pool_p tbl tprog users workers iters with
      | None => false                      (* a call the generated table does not know / not ordered *)
      | Some ths =>
          let total := fold_right (fun t a => length (code t) + a) 0 ths in
          pool_okb ths && Bool.eqb (all_done (run_all (S total) seed (init ths))) completed
      end
  | CLife e interval window exited =>
      Bool.eqb (life_exits e (N.leb interval window)) exited
  | CManualTick installed n before after =>
      N.eqb (Nat.iter n (tick_inner (negb installed)) before) after
  end.

(** all paths of a loop-free program (None if it contains a loop) *)
Fixpoint enum (p : cprog) : option (list (list caction)) :=
  match p with
  | PAct a => Some [[a]]
  | PSeq l =>
      (fix go (l : list cprog) : option (list (list caction)) :=
         match l with
         | [] => Some [[]]
         | q :: r => match enum q, go r with
                     | Some A, Some B => Some (flat_map (fun t1 => map (fun t2 => t1 ++ t2) B) A)
                     | _, _ => None
                     end
         end) l
  | PBranch alts =>
      (fix go (l : list cprog) : option (list (list caction)) :=
         match l with
         | [] => Some []
         | q :: r => match enum q, go r with
                     | Some A, Some B => Some (A ++ B)
                     | _, _ => None
                     end
         end) alts
  | PLoop _ => None
  | PExit c => enum c
  end.

(* ------------------------------------------------------------------ Part 7 *)
(** Tie of the ticker automaton (part 3) to the GENERATED program of TickerControl::run.
    The automaton knows the bar-state and the stop mutex only; the generated loop body also takes
    the MultiState lock (draw, BarState::drop) and runs callbacks.  The abstraction is explicit:
    [tproj] erases CAcq/CRel CMulti and CCallback, everything else (Bar, Stop, Slot, condvar wait,
    tick, upgrade, Arc drop, set-stop, notify, spawn, join) is kept.  The automaton's [TCheckFin]
    and the two outcomes of [TCheckStop] that do not park produce no event; its single parked state
    [TSleep] corresponds to [CWaitRel CStop], the re-acquisition [TRelock] to the following [CAcq CStop]. *)
Definition tk_relevant (a : caction) : bool :=
  match a with CAcq CMulti | CRel CMulti | CCallback => false | _ => true end.
Definition tproj (w : list caction) : list caction := filter tk_relevant w.

(** the event of one ticker step taken from state [s] with time-out answer [o] *)
Definition tevent (o : bool) (s : tsys) : list caction :=
  match pc s with
  | TUpgrade => [CUpgrade]
  | TLockBar => [CAcq CBar]
  | TCheckFin => []
  | TFinUnlock => [CRel CBar]
  | TFinDrop => [CDropArc]
  | TTick => [CTick]
  | TUnlockBar => [CRel CBar]
  | TDropArc => [CDropArc]
  | TLockStop => [CAcq CStop]
  | TCheckStop => if flag s then [] else if o then [] else [CWaitRel CStop]
  | TSleep => []
  | TRelock => [CAcq CStop]
  | TUnlockStopExit | TUnlockStopLoop => [CRel CStop]
  | TDone => []
  end.
(** a trace of labels with the events of its ticker steps (environment labels produce none) *)
Fixpoint lrun_ev (ls : list label) (s : tsys) : option (list caction * tsys) :=
  match ls with
  | [] => Some ([], s)
  | l :: r =>
      match lstep l s with
      | Some s1 =>
          match lrun_ev r s1 with
          | Some (ev, s2) => Some ((match l with LT o => tevent o s | _ => [] end) ++ ev, s2)
          | None => None
          end
      | None => None
      end
  end.

(** a deterministic acceptor of the event sequences of ONE loop iteration of the automaton, used as
    the abstract domain of [acheck] on the generated loop body (actions erased by [tproj] are
    self-loops).  A1 = after the upgrade (accepting: the upgrade failed), AF = finished bar: guard
    dropped, A7 = holding Stop at the head of wait_timeout_while, A8 = parked, AD = iteration over *)
Inductive tacc := A0 | A1 | A2 | AF | A3 | A4 | A5 | A7 | A8 | AD.
Definition acc_step (a : caction) (s : tacc) : option tacc :=
  if negb (tk_relevant a) then Some s else
  match s, a with
  | A0, CUpgrade => Some A1
  | A1, CAcq CBar => Some A2
  | A2, CRel CBar => Some AF
  | AF, CDropArc => Some AD
  | A2, CTick => Some A3
  | A3, CRel CBar => Some A4
  | A4, CDropArc => Some A5
  | A5, CAcq CStop => Some A7
  | A7, CWaitRel CStop => Some A8
  | A8, CAcq CStop => Some A7
  | A7, CRel CStop => Some AD
  | _, _ => None
  end.
Definition acc_final (s : tacc) : bool := match s with A1 | AD => true | _ => false end.
Definition tacc_eqb (x y : tacc) : bool :=
  match x, y with
  | A0, A0 | A1, A1 | A2, A2 | AF, AF | A3, A3 | A4, A4 | A5, A5 | A7, A7 | A8, A8 | AD, AD => true
  | _, _ => false
  end.
(** the executable check on the generated loop body *)
Definition ticker_body_refines (b : cprog) : bool :=
  match acheck tacc_eqb acc_step b [A0] with Some outs => forallb acc_final outs | None => false end.

(** the three families of iteration traces of the automaton *)
Definition it_upgrade_fails : list caction := [CUpgrade].
Definition it_finished : list caction := [CUpgrade; CAcq CBar; CRel CBar; CDropArc].
Fixpoint it_waits (n : nat) : list caction :=
  match n with O => [] | S m => CWaitRel CStop :: CAcq CStop :: it_waits m end.
Definition it_tick (n : nat) : list caction :=
  [CUpgrade; CAcq CBar; CTick; CRel CBar; CDropArc; CAcq CStop] ++ it_waits n ++ [CRel CStop].

(** all paths with every loop unrolled at most [k] times (finite) *)
Fixpoint enum_k (k : nat) (p : cprog) : list (list caction) :=
  let prod (A B : list (list caction)) := flat_map (fun t1 => map (fun t2 => t1 ++ t2) B) A in
  match p with
  | PAct a => [[a]]
  | PSeq l => (fix go (l : list cprog) : list (list caction) :=
                 match l with [] => [[]] | q :: r => prod (enum_k k q) (go r) end) l
  | PBranch alts => (fix go (l : list cprog) : list (list caction) :=
                       match l with [] => [] | q :: r => enum_k k q ++ go r end) alts
  | PLoop b => (fix it (n : nat) : list (list caction) :=
                  match n with O => [[]] | S m => [[]] ++ prod (enum_k k b) (it m) end) k
  | PExit c => enum_k k c
  end.
