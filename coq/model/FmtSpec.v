(** C15 - specification-side vocabulary: every definition that occurs in a
    statement of props/C15.v and is not part of the transcription of the code
    (model/Fmt.v) is defined HERE, so that the statements can be read from
    model/ alone.  Definitions only, no proofs. *)
From IndModel Require Export Base Fmt.
From IndGen Require Import Constants.
From Coq Require Import String Ascii SpecFloat.
From Flocq Require Import Core BinarySingleNaN.
Open Scope N_scope.

(* ------------------------------------------------------------------ decimal numerals *)
(** value of a digit string *)
Definition dval (l : list N) : N := fold_left (fun a c => 10 * a + (c - CH_0)) l 0.
Definition is_digit (c : N) : Prop := CH_0 <= c <= 57.

(** the [p] last digits of [r], with leading zeros *)
Fixpoint lastdigs (p : nat) (r : N) : list N :=
  match p with
  | O => []
  | S p' => lastdigs p' (r / 10) ++ [CH_0 + r mod 10]
  end.

(** two-digit field [{:02}] of a number below 100 *)
Definition two (x : N) : list N := [CH_0 + x / 10; CH_0 + x mod 10].

(* ------------------------------------------------------------------ the comma rule *)
(** closed form of the comma loop: after a character a comma is written iff the
    number of characters still to come is a positive multiple of three *)
Fixpoint group (cs : list N) : list N :=
  match cs with
  | [] => []
  | c :: r => c :: (if (0 <? len r) && (len r mod 3 =? 0) then [CH_COMMA] else []) ++ group r
  end.

Definition strip_commas (s : list N) : list N := filter (fun c => negb (c =? CH_COMMA)) s.

(* ------------------------------------------------------------------ HumanDuration *)
(** seconds / nanoseconds of the i-th unit of the UNITS table (0 = year ... 5 = second; 0 beyond) *)
Definition unit_secs (i : nat) : N := match nth_error UNITS i with Some (u, _, _) => u | None => 0 end.
Definition unit_ns (i : nat) : N := unit_secs i * NANOS_PER_SEC.
Definition unit_name (i : nat) : string := match nth_error UNITS i with Some (_, n, _) => n | None => ""%string end.
Definition unit_alt (i : nat) : string := match nth_error UNITS i with Some (_, _, a) => a | None => ""%string end.

(** the stated switching rule: unit i qualifies for a duration of d ns iff
    d >= 1.5 unit_i - unit_(i+1) / 2, written without subtraction / division:
    2 d + unit_(i+1) >= 3 unit_i *)
Definition qualifies (d : N) (i : nat) : bool := 3 * unit_ns i <=? 2 * d + unit_ns (S i).

(** the first qualifying unit, seconds if none *)
Definition hd_idx (d : N) : nat :=
  if qualifies d 0 then 0%nat else if qualifies d 1 then 1%nat else if qualifies d 2 then 2%nat
  else if qualifies d 3 then 3%nat else if qualifies d 4 then 4%nat else 5%nat.

(** the count of line 120, [(as_secs_f64() / unit.as_secs_f64()).round() as usize], in binary64 *)
Definition hd_raw_count (secs nanos unit : N) : N :=
  f64_to_usize (fround (fdiv (as_secs_f64 secs nanos) (as_secs_f64 unit 0))).
(** ... after the clamp of lines 121-123 *)
Definition hd_count (secs nanos : N) (i : nat) : N :=
  let t := hd_raw_count secs nanos (unit_secs i) in
  if (i <? 5)%nat then N.max t 2 else t.

(** a std::time::Duration: secs is a u64, nanos < 10^9 *)
Definition dur_valid (secs nanos : N) : Prop := secs <= U64MAX /\ nanos < NANOS_PER_SEC.

(** "t units is within w/2 (+ d/2^50, the binary64 slack) of the duration d":
    | t u - d | <= w / 2 + d / 2^50, all in nanoseconds, written in N without
    subtraction or division *)
Definition near_within (t u d w : N) : Prop :=
  2 ^ 51 * (t * u) <= 2 ^ 51 * d + 2 ^ 50 * w + 2 * d
  /\ 2 ^ 51 * d <= 2 ^ 51 * (t * u) + 2 ^ 50 * w + 2 * d.

(* ------------------------------------------------------------------ byte formatters *)
(** the running amount after [k] iterations of the number_prefix loop *)
Fixpoint div_iter (k : nat) (a kilo : f64) : f64 :=
  match k with O => a | S k' => div_iter k' (fdiv a kilo) kilo end.

Definition bytes_base (binary : bool) : N := if binary then 1024 else 1000.
(** symbol of the k-th prefix, k = 1 .. 8 *)
Definition bytes_sym (binary : bool) (k : nat) : string :=
  nth (k - 1) (if binary then SYM_BINARY else SYM_DECIMAL) ""%string.
(** [n as f64] read back as an integer: the value that is formatted (equal to n
    up to 2^53, the nearest binary64 number above) *)
Definition bytes_x (n : N) : N := Z.to_N (Btrunc (f64_of_N n)).

(** "q hundredths is x / b^k rounded to the nearest hundredth, ties to even", exactly *)
Definition hundredths_exact (q x bk : N) : Prop :=
  2 * (q * bk) <= 200 * x + bk /\ 200 * x <= 2 * (q * bk) + bk
  /\ ((2 * (q * bk) = 200 * x + bk \/ 200 * x = 2 * (q * bk) + bk) -> N.even q = true).
(** the same up to 2^-32 of a hundredth: | q - 100 x / b^k | <= 1/2 + 2^-32 *)
Definition hundredths_approx (q x bk : N) : Prop :=
  2 ^ 32 * (q * bk) <= 2 ^ 32 * (100 * x) + (2 ^ 31 + 1) * bk
  /\ 2 ^ 32 * (100 * x) <= 2 ^ 32 * (q * bk) + (2 ^ 31 + 1) * bk.

(* ------------------------------------------------------------------ HumanFloatCount *)
Definition prec_of (precision : option N) : N := match precision with Some p => p | None => 4 end.

Definition hfc_frac (p q : N) : list N :=
  let t := trim_end CH_0 (lastdigs (N.to_nat p) (q mod 10 ^ p)) in
  if (List.length t =? 0)%nat then [] else CH_DOT :: t.

(** sign, grouped integer digits of q / 10^p, trimmed fraction digits of q mod 10^p *)
Definition hfc_out (p : N) (s : bool) (q : N) : list N :=
  sign_str s ++ group (dec (q / 10 ^ p)) ++ hfc_frac p q.
