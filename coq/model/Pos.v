(** C07 – position and length bookkeeping.
    Transcribes (line numbers: /repo HEAD 8b11f76)
      - AtomicPosition::{reset,inc,dec,set}        src/state.rs:599-615 (fetch_add / fetch_sub
        SeqCst, store Release on the shared AtomicU64 `pos`, :541),
      - BarState::{unset_length,set_length,inc_length,dec_length}  src/state.rs:107-129
        (saturating_add / saturating_sub only when the length is Some),
      - the position/status effect of BarState::finish_using_style  src/state.rs:43-67
        (`pos.set(len)` for AndLeave/WithMessage/AndClear when the length is known),
      - BarState::reset, Reset::All                src/state.rs:74-92 (pos 0, status InProgress),
      - the public entry points ProgressBar::{inc,dec,set_position,unset_length,set_length,
        inc_length,dec_length,reset_eta,reset_elapsed,reset,finish*,abandon*,tick} and the
        getters position(), length(), is_finished()  src/progress_bar.rs:243-371, 611-618, 266.
    Only the fields the three getters read.  The model has NO panic outcome: none of the
    transcribed operations has a failing branch (wrapping / saturating arithmetic, Option
    matches); "never panicking" is checked on the implementation only (harness class `panic`).
    One operation = one step: for histories issued from several threads this is the
    ASSUMPTION that each atomic read-modify-write / store is indivisible (see docs/C07.md).
    Definitions only. *)
From IndModel Require Export Base.

Inductive finish_kind := AndLeave | WithMessage | AndClear | Abandon | AbandonWithMessage.

Inductive pop :=
| Inc (d : N) | Dec (d : N) | SetPos (p : N)
| SetLen (l : N) | IncLen (d : N) | DecLen (d : N) | UnsetLen
| ResetAll | ResetEta | ResetElapsed
| Finish (k : finish_kind)
| Tick.

Record pstate := { pos : N; len : option N; finished : bool }.

Definition pinit (l : option N) : pstate := {| pos := 0; len := l; finished := false |}.

Definition finish_sets_pos (k : finish_kind) : bool :=
  match k with AndLeave | WithMessage | AndClear => true | _ => false end.

Definition pstep (s : pstate) (o : pop) : pstate :=
  match o with
  | Inc d => {| pos := wadd64 (pos s) d; len := len s; finished := finished s |}
  | Dec d => {| pos := wsub64 (pos s) d; len := len s; finished := finished s |}
  | SetPos p => {| pos := p; len := len s; finished := finished s |}
  | SetLen l => {| pos := pos s; len := Some l; finished := finished s |}
  | IncLen d => {| pos := pos s; len := option_map (fun l => sat_add64 l d) (len s); finished := finished s |}
  | DecLen d => {| pos := pos s; len := option_map (fun l => sat_sub l d) (len s); finished := finished s |}
  | UnsetLen => {| pos := pos s; len := None; finished := finished s |}
  | ResetAll => {| pos := 0; len := len s; finished := false |}
  | ResetEta | ResetElapsed | Tick => s
  | Finish k =>
      {| pos := match len s with
                | Some l => if finish_sets_pos k then l else pos s
                | None => pos s
                end;
         len := len s; finished := true |}
  end.

Definition prun (s : pstate) (ops : list pop) : pstate := fold_left pstep ops s.

(** Well-formed arguments: the Rust API takes u64. *)
Definition op_wf (o : pop) : Prop :=
  match o with
  | Inc d | Dec d | SetPos d | SetLen d | IncLen d | DecLen d => d < U64
  | _ => True
  end.

Definition st_wf (s : pstate) : Prop :=
  pos s < U64 /\ match len s with Some l => l < U64 | None => True end.

(** Specification of position(): the history read in Z WITHOUT machine arithmetic - the
    value at the last "absolute" event (set_position, reset, a finish that moves to the
    length) plus the signed sum of the relative ones since; the theorem reduces it mod 2^64
    once, at the end.  (It is the same recursion over the history as [pstep]; what the
    theorem adds is that wrapping after every step equals wrapping once.) *)
Fixpoint pos_spec (p : Z) (l : option N) (ops : list pop) : Z :=
  match ops with
  | [] => p
  | o :: r =>
      match o with
      | Inc d => pos_spec (p + Z.of_N d) l r
      | Dec d => pos_spec (p - Z.of_N d) l r
      | SetPos q => pos_spec (Z.of_N q) l r
      | ResetAll => pos_spec 0%Z l r
      | Finish k =>
          match l with
          | Some n => if finish_sets_pos k then pos_spec (Z.of_N n) l r else pos_spec p l r
          | None => pos_spec p l r
          end
      | SetLen n => pos_spec p (Some n) r
      | IncLen d => pos_spec p (option_map (fun n => sat_add64 n d) l) r
      | DecLen d => pos_spec p (option_map (fun n => sat_sub n d) l) r
      | UnsetLen => pos_spec p None r
      | ResetEta | ResetElapsed | Tick => pos_spec p l r
      end
  end.

(** Specification of length(): the same history read in Z with explicit clamps at 0 and
    2^64-1 (the machine side uses u64::saturating_add / saturating_sub). *)
Definition clampZ (x : Z) : Z := Z.max 0 (Z.min (18446744073709551616 - 1) x).

Fixpoint len_spec (l : option Z) (ops : list pop) : option Z :=
  match ops with
  | [] => l
  | o :: r =>
      match o with
      | SetLen n => len_spec (Some (Z.of_N n)) r
      | IncLen d => len_spec (option_map (fun n => clampZ (n + Z.of_N d)) l) r
      | DecLen d => len_spec (option_map (fun n => clampZ (n - Z.of_N d)) l) r
      | UnsetLen => len_spec None r
      | _ => len_spec l r
      end
  end.

(** Specification of is_finished(): true after a finish/abandon not followed by reset(). *)
Fixpoint fin_spec (f : bool) (ops : list pop) : bool :=
  match ops with
  | [] => f
  | Finish _ :: r => fin_spec true r
  | ResetAll :: r => fin_spec false r
  | _ :: r => fin_spec f r
  end.

(** Threads: each thread issues a list of operations; an interleaving is any merge that keeps
    every thread's own order. *)
Inductive Merge {A} : list (list A) -> list A -> Prop :=
| Merge_nil : forall ts, Forall (fun t => t = []) ts -> Merge ts []
| Merge_cons : forall pre x t post l,
    Merge (pre ++ t :: post) l -> Merge (pre ++ (x :: t) :: post) (x :: l).

Definition is_incdec (o : pop) : Prop :=
  match o with Inc _ | Dec _ => True | _ => False end.

Definition delta (o : pop) : Z :=
  match o with Inc d => Z.of_N d | Dec d => (- Z.of_N d)%Z | _ => 0%Z end.

Definition sum_delta (l : list pop) : Z := fold_right (fun o a => (delta o + a)%Z) 0%Z l.

(* the signed sum of everything all threads add *)
Definition total_delta (ts : list (list pop)) : Z :=
  fold_right (fun t a => (sum_delta t + a)%Z) 0%Z ts.

(** correspondence entry point: an op list and the observed getters after it *)
Definition pos_check (c : option N * list pop * (N * option N * bool)) : bool :=
  let '(l0, ops, (p, l, f)) := c in
  let s := prun (pinit l0) ops in
  N.eqb (pos s) p && option_eqb N.eqb (len s) l && Bool.eqb (finished s) f.
