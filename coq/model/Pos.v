(** C07 – position and length bookkeeping.
    Transcribes AtomicPosition::{inc,dec,set,reset} (src/state.rs:584-600),
    BarState::{set_length,inc_length,dec_length,unset_length} (src/state.rs:99-121),
    the position effect of finish_using_style (src/state.rs:40-64) and of
    Reset::All (src/state.rs:80-82).  Only the fields the getters position(),
    length(), is_finished() read. *)
From IndModel Require Export Base.

Inductive finish_kind := AndLeave | WithMessage | AndClear | Abandon | AbandonWithMessage.

Inductive pop :=
| Inc (d : N) | Dec (d : N) | SetPos (p : N)
| SetLen (l : N) | IncLen (d : N) | DecLen (d : N) | UnsetLen
| ResetAll | ResetEta | ResetElapsed
| Finish (k : finish_kind)
| Tick.

Record pstate := { pos : N; len : option N; finished : bool }.

Definition pinit (l : option N) : pstate := {| pos := 0; len := l; finished := false |}.

Definition finish_sets_pos (k : finish_kind) : bool :=
  match k with AndLeave | WithMessage | AndClear => true | _ => false end.

Definition pstep (s : pstate) (o : pop) : pstate :=
  match o with
  | Inc d => {| pos := wadd64 (pos s) d; len := len s; finished := finished s |}
  | Dec d => {| pos := wsub64 (pos s) d; len := len s; finished := finished s |}
  | SetPos p => {| pos := p; len := len s; finished := finished s |}
  | SetLen l => {| pos := pos s; len := Some l; finished := finished s |}
  | IncLen d => {| pos := pos s; len := option_map (fun l => sat_add64 l d) (len s); finished := finished s |}
  | DecLen d => {| pos := pos s; len := option_map (fun l => sat_sub l d) (len s); finished := finished s |}
  | UnsetLen => {| pos := pos s; len := None; finished := finished s |}
  | ResetAll => {| pos := 0; len := len s; finished := false |}
  | ResetEta | ResetElapsed | Tick => s
  | Finish k =>
      {| pos := match len s with
                | Some l => if finish_sets_pos k then l else pos s
                | None => pos s
                end;
         len := len s; finished := true |}
  end.

Definition prun (s : pstate) (ops : list pop) : pstate := fold_left pstep ops s.

(** Well-formed arguments: the Rust API takes u64. *)
Definition op_wf (o : pop) : Prop :=
  match o with
  | Inc d | Dec d | SetPos d | SetLen d | IncLen d | DecLen d => d < U64
  | _ => True
  end.

Definition st_wf (s : pstate) : Prop :=
  pos s < U64 /\ match len s with Some l => l < U64 | None => True end.

(** Closed-form specification of position(): the value at the last
    "absolute" event plus the signed sum of the relative ones since, mod 2^64. *)
Fixpoint pos_spec (p : Z) (l : option N) (ops : list pop) : Z :=
  match ops with
  | [] => p
  | o :: r =>
      match o with
      | Inc d => pos_spec (p + Z.of_N d) l r
      | Dec d => pos_spec (p - Z.of_N d) l r
      | SetPos q => pos_spec (Z.of_N q) l r
      | ResetAll => pos_spec 0%Z l r
      | Finish k =>
          match l with
          | Some n => if finish_sets_pos k then pos_spec (Z.of_N n) l r else pos_spec p l r
          | None => pos_spec p l r
          end
      | SetLen n => pos_spec p (Some n) r
      | IncLen d => pos_spec p (option_map (fun n => sat_add64 n d) l) r
      | DecLen d => pos_spec p (option_map (fun n => sat_sub n d) l) r
      | UnsetLen => pos_spec p None r
      | ResetEta | ResetElapsed | Tick => pos_spec p l r
      end
  end.

(** Threads: each thread issues a list of Inc/Dec; an interleaving is any merge. *)
Inductive Merge {A} : list (list A) -> list A -> Prop :=
| Merge_nil : forall ts, Forall (fun t => t = []) ts -> Merge ts []
| Merge_cons : forall pre x t post l,
    Merge (pre ++ t :: post) l -> Merge (pre ++ (x :: t) :: post) (x :: l).

Definition is_incdec (o : pop) : Prop :=
  match o with Inc _ | Dec _ => True | _ => False end.

Definition delta (o : pop) : Z :=
  match o with Inc d => Z.of_N d | Dec d => (- Z.of_N d)%Z | _ => 0%Z end.

Definition sum_delta (l : list pop) : Z := fold_right (fun o a => (delta o + a)%Z) 0%Z l.

(** correspondence entry point: an op list and the observed getters after it *)
Definition pos_check (c : option N * list pop * (N * option N * bool)) : bool :=
  let '(l0, ops, (p, l, f)) := c in
  let s := prun (pinit l0) ops in
  N.eqb (pos s) p && option_eqb N.eqb (len s) l && Bool.eqb (finished s) f.
