(** C15 - human-readable formatters.  Transcription of /repo/src/format.rs
    (Display impls, lines 74-221, UNITS table lines 133-140) and of the
    eight-line loop of number_prefix-0.4.0 (src/lib.rs:290-312).
    The specification-side vocabulary of the statements in props/C15.v is in
    model/FmtSpec.v.
    Strings are [list N] of code points (all output is ASCII).
    binary64 arithmetic is Flocq's BinarySingleNaN (prec 53, emax 1024).
    Definitions only. *)
From IndModel Require Export Base.
From IndGen Require Import Constants.
From Coq Require Import String Ascii SpecFloat.
From Flocq Require Import Core BinarySingleNaN.
Open Scope N_scope.

(* ------------------------------------------------------------------ strings *)
Definition str (s : string) : list N := map N_of_ascii (list_ascii_of_string s).

Definition CH_COMMA : N := 44.   (* ',' *)
Definition CH_DOT : N := 46.     (* '.' *)
Definition CH_MINUS : N := 45.   (* '-' *)
Definition CH_0 : N := 48.       (* '0' *)
Definition CH_SP : N := 32.
Definition CH_COLON : N := 58.

Definition len (s : list N) : N := N.of_nat (List.length s).

(* ------------------------------------------------------------------ u64::to_string / usize Display *)
(** decimal numeral of [n], most significant digit first, no leading zero, "0" for 0 *)
Fixpoint dec_aux (fuel : nat) (n : N) (acc : list N) : list N :=
  match fuel with
  | O => acc
  | S f => let acc' := (CH_0 + n mod 10) :: acc in
           if n / 10 =? 0 then acc' else dec_aux f (n / 10) acc'
  end.
Definition dec (n : N) : list N := dec_aux (S (N.to_nat (N.log2 n))) n [].

(** [{:0w}] of an unsigned integer: zero padding on the left up to width [w] *)
Definition pad0 (w : nat) (s : list N) : list N := repeat CH_0 (w - List.length s) ++ s.

(* ------------------------------------------------------------------ HumanCount  (format.rs:169-184) *)
(** the loop of lines 175-181 (also 207-213): [len] is the length of the whole
    digit string, [idx] the enumerate() index.  [len - idx - 1] is a usize
    subtraction (panics on underflow in a build with overflow checks): site 1. *)
Fixpoint group_loop (ln idx : N) (cs : list N) : outcome (list N) :=
  match cs with
  | [] => Ok []
  | c :: r =>
      if ln <? idx + 1 then Panic 1 else
      let pos := ln - idx - 1 in                                   (* :176 / :208 *)
      match group_loop ln (idx + 1) r with
      | Ok t => Ok (c :: (if (0 <? pos) && (pos mod 3 =? 0)        (* :178 / :210 *)
                          then [CH_COMMA] else []) ++ t)
      | Panic s => Panic s
      end
  end.

Definition human_count (n : N) : outcome (list N) :=
  let num := dec n in                                              (* :173 *)
  group_loop (len num) 0 num.                                      (* :174-181 *)

(* ------------------------------------------------------------------ FormattedDuration (format.rs:74-90) *)
Definition formatted_duration (secs nanos : N) : list N :=
  let t := secs in                          (* :76 as_secs(): the nanoseconds are dropped *)
  let seconds := t mod 60 in
  let t := t / 60 in
  let minutes := t mod 60 in
  let t := t / 60 in
  let hours := t mod 24 in
  let t := t / 24 in
  let hms := pad0 2 (dec hours) ++ [CH_COLON] ++ pad0 2 (dec minutes) ++ [CH_COLON] ++ pad0 2 (dec seconds) in
  if 0 <? t then dec t ++ str "d " ++ hms                         (* :83-85 *)
  else hms.                                                        (* :87 *)

(* ------------------------------------------------------------------ binary64 *)
Definition prec64 : Z := 53.
Definition emax64 : Z := 1024.
#[export] Instance Hprec64 : Prec_gt_0 prec64 := eq_refl.
#[export] Instance Hmax64 : Prec_lt_emax prec64 emax64 := eq_refl.
Definition f64 : Type := binary_float prec64 emax64.

(** [n as f64] for an unsigned integer: round to nearest, ties to even *)
Definition f64_of_N (n : N) : f64 := binary_normalize prec64 emax64 Hprec64 Hmax64 mode_NE (Z.of_N n) 0 false.
Definition fdiv (x y : f64) : f64 := Bdiv mode_NE x y.
Definition fadd (x y : f64) : f64 := Bplus mode_NE x y.
(** [f64::round]: to the nearest integer, ties away from zero *)
Definition fround (x : f64) : f64 := Bnearbyint mode_NA x.
(** [x as usize] (64-bit target): saturating, NaN -> 0 *)
Definition f64_to_usize (x : f64) : N :=
  match x with
  | B754_nan => 0
  | B754_zero _ => 0
  | B754_infinity s => if s then 0 else U64MAX
  | B754_finite s _ _ _ => if s then 0 else N.min U64MAX (Z.to_N (Btrunc x))
  end.

(* ------------------------------------------------------------------ {:.p} of an f64 *)
(** Rust prints, for [{:.p}], the exact decimal expansion of the binary value
    rounded to [p] fractional digits, ties to even (core::num::flt2dec
    format_exact), "NaN" / "inf" / "-inf" for the specials, and the sign bit as
    "-" also for zeros.  The value of [S754_finite s m e] is (-1)^s * m * 2^e. *)
Definition round_he_div (a b : N) : N :=
  let q := a / b in
  let r := a mod b in
  match (2 * r) ?= b with
  | Lt => q
  | Gt => q + 1
  | Eq => if N.even q then q else q + 1
  end.

(** round_half_even (m * 2^e * 10^p) *)
Definition scaled (m : positive) (e : Z) (p : N) : N :=
  match e with
  | Z0 => Npos m * 10 ^ p
  | Zpos k => Npos m * 2 ^ Npos k * 10 ^ p
  | Zneg k => round_he_div (Npos m * 10 ^ p) (2 ^ Npos k)
  end.

(** the digits of [q] = value * 10^p with the point inserted before the last [p] digits *)
Definition fixed_digits (p : N) (q : N) : list N :=
  let ds := pad0 (S (N.to_nat p)) (dec q) in
  let il := (List.length ds - N.to_nat p)%nat in
  firstn il ds ++ (if p =? 0 then [] else CH_DOT :: skipn il ds).

Definition sign_str (s : bool) : list N := if s then [CH_MINUS] else [].

Definition fmt_fixed (p : N) (x : spec_float) : list N :=
  match x with
  | S754_nan => str "NaN"
  | S754_infinity s => sign_str s ++ str "inf"
  | S754_zero s => sign_str s ++ fixed_digits p 0
  | S754_finite s m e => sign_str s ++ fixed_digits p (scaled m e p)
  end.

(** f64::from_bits (IEEE 754 binary64 interchange format) *)
Definition decode64 (bits : N) : spec_float :=
  let s := N.testbit bits 63 in
  let ex := (bits / 2 ^ 52) mod 2048 in
  let fr := bits mod 2 ^ 52 in
  if ex =? 2047 then (if fr =? 0 then S754_infinity s else S754_nan)
  else if ex =? 0 then
    match fr with 0 => S754_zero s | Npos m => S754_finite s m (-1074) end
  else
    match fr + 2 ^ 52 with 0 => S754_zero s | Npos m => S754_finite s m (Z.of_N ex - 1075) end.

(* ------------------------------------------------------------------ std::time::Duration *)
(** A Duration (secs : u64, nanos : u32 < 10^9) is represented by its total
    number of nanoseconds: the derived lexicographic order, [Add] (panics on
    overflow: site 2), [saturating_add] and [Div<u32>] of std are exactly
    order, sum, clamped sum and quotient of the totals. *)
Definition NANOS_PER_SEC : N := 1000000000.
Definition dur_ns (secs nanos : N) : N := secs * NANOS_PER_SEC + nanos.
Definition DUR_MAX_NS : N := dur_ns U64MAX 999999999.
Definition dur_sat_add (a b : N) : N := N.min DUR_MAX_NS (a + b).
Definition dur_add (a b : N) : outcome N := if a + b <=? DUR_MAX_NS then Ok (a + b) else Panic 2.
Definition dur_div (a k : N) : N := a / k.

(** Duration::as_secs_f64: (secs as f64) + (nanos as f64) / (NANOS_PER_SEC as f64) *)
Definition as_secs_f64 (secs nanos : N) : f64 :=
  fadd (f64_of_N secs) (fdiv (f64_of_N nanos) (f64_of_N NANOS_PER_SEC)).

(* ------------------------------------------------------------------ HumanDuration (format.rs:107-131) *)
(** lines 109-116: [i] is the enumerate() index of the head of [units];
    returns the final value of [idx] *)
Fixpoint hd_loop (d : N) (i : nat) (units : list (N * string * string)) (idx : nat) : outcome nat :=
  match units with
  | [] => Ok idx
  | (cur, _, _) :: rest =>
      match rest with                                              (* :112 UNITS.get(i + 1) *)
      | (next, _, _) :: _ =>
          match dur_add (dur_ns cur 0) (dur_div (dur_ns cur 0) 2) with   (* cur + cur / 2 *)
          | Panic s => Panic s
          | Ok thr =>
              if thr <=? dur_sat_add d (dur_div (dur_ns next 0) 2) (* :113 *)
              then Ok i                                            (* break, idx = i *)
              else hd_loop d (S i) rest i                          (* continue *)
          end
      | [] => hd_loop d (S i) rest i                               (* None => continue *)
      end
  end.

Definition human_duration (secs nanos : N) (alternate : bool) : outcome (list N) :=
  match hd_loop (dur_ns secs nanos) 0 UNITS 0 with
  | Panic s => Panic s
  | Ok idx =>
      match nth_error UNITS idx with                               (* :118 UNITS[idx] : site 3 *)
      | None => Panic 3
      | Some (unit, name, alt) =>
          let t := f64_to_usize (fround (fdiv (as_secs_f64 secs nanos) (as_secs_f64 unit 0))) in  (* :120 *)
          if (List.length UNITS =? 0)%nat then Panic 4 else        (* :121 UNITS.len() - 1 *)
          let t := if (idx <? List.length UNITS - 1)%nat then N.max t 2 else t in   (* :121-123 *)
          Ok (if alternate then dec t ++ str alt                   (* :126 *)
              else if t =? 1 then dec t ++ [CH_SP] ++ str name     (* :127 *)
              else dec t ++ [CH_SP] ++ str name ++ str "s")        (* :128 *)
      end
  end.

(* ------------------------------------------------------------------ number_prefix 0.4.0, format_number *)
Definition f64_neg (x : f64) : f64 := Bopp x.
(** lines 296-300: while amount >= kilo && prefix < 8 { amount = amount / kilo; prefix += 1 } *)
Fixpoint np_loop (fuel : nat) (amount kilo : f64) (prefix : N) : f64 * N :=
  match fuel with
  | O => (amount, prefix)
  | S f => if Bleb kilo amount && (prefix <? 8)
           then np_loop f (fdiv amount kilo) kilo (prefix + 1)
           else (amount, prefix)
  end.
Definition number_prefix (amount kilo : f64) : f64 * N :=
  let was_negative := Bsign amount in                              (* :294 is_sign_negative *)
  let amount := if was_negative then f64_neg amount else amount in
  let '(amount, prefix) := np_loop 9 amount kilo 0 in
  (if was_negative then f64_neg amount else amount, prefix).

Definition SYM_DECIMAL : list string := ["k"; "M"; "G"; "T"; "P"; "E"; "Z"; "Y"]%string.
Definition SYM_BINARY : list string := ["Ki"; "Mi"; "Gi"; "Ti"; "Pi"; "Ei"; "Zi"; "Yi"]%string.

(** format.rs:142-167; [binary] selects NumberPrefix::binary (HumanBytes and
    BinaryBytes, which are textually the same impl) or ::decimal (DecimalBytes) *)
Definition bytes_fmt (binary : bool) (n : N) : outcome (list N) :=
  let kilo := f64_of_N (if binary then 1024 else 1000) in
  let '(number, prefix) := number_prefix (f64_of_N n) kilo in       (* self.0 as f64 *)
  if prefix =? 0 then Ok (fmt_fixed 0 (B2SF number) ++ str " B")    (* Standalone: {number:.0} B *)
  else
    (* number_prefix lib.rs:310 [prefixes[prefix - 1]] on an array of 8: site 5 *)
    match nth_error (if binary then SYM_BINARY else SYM_DECIMAL) (N.to_nat (prefix - 1)) with
    | None => Panic 5
    | Some sym => Ok (fmt_fixed 2 (B2SF number) ++ [CH_SP] ++ str sym ++ str "B")  (* {number:.2} {prefix}B *)
    end.

(* ------------------------------------------------------------------ HumanFloatCount (format.rs:186-221) *)
Fixpoint split_once (c : N) (s : list N) : option (list N * list N) :=
  match s with
  | [] => None
  | x :: r => if x =? c then Some ([], r)
              else match split_once c r with
                   | Some (a, b) => Some (x :: a, b)
                   | None => None
                   end
  end.

(** str::trim_end_matches(c) *)
Fixpoint trim_end (c : N) (s : list N) : list N :=
  match s with
  | [] => []
  | x :: r => match trim_end c r with
              | [] => if x =? c then [] else [x]
              | t => x :: t
              end
  end.

Definition human_float_count_sf (precision : option N) (x : spec_float) : outcome (list N) :=
  let p := match precision with Some p => p | None => 4 end in      (* :191 *)
  let num := fmt_fixed p x in                                       (* :192 *)
  let '(int_part, frac_part) :=
    match split_once CH_DOT num with                                (* :194-197 *)
    | Some (a, b) => (a, b)
    | None => (num, [])
    end in
  let '(sgn, int_part) :=
    match int_part with                                             (* :199-205 strip_prefix('-') *)
    | c :: digits => if c =? CH_MINUS then ([CH_MINUS], digits) else ([], int_part)
    | [] => ([], int_part)
    end in
  match group_loop (len int_part) 0 int_part with                   (* :206-213 *)
  | Panic s => Panic s
  | Ok grouped =>
      let frac_trimmed := trim_end CH_0 frac_part in                (* :214 *)
      Ok (sgn ++ grouped ++ (if (List.length frac_trimmed =? 0)%nat then [] else CH_DOT :: frac_trimmed))
  end.

Definition human_float_count (precision : option N) (bits : N) : outcome (list N) :=
  human_float_count_sf precision (decode64 bits).

(* ------------------------------------------------------------------ correspondence *)
Inductive fcase :=
| CCount (n : N)
| CFDur (secs nanos : N)
| CHDur (secs nanos : N) (alternate : bool)
| CBytes (kind : N) (n : N)            (* 0 HumanBytes, 1 DecimalBytes, 2 BinaryBytes *)
| CFloat (precision : option N) (bits : N).

Definition fmt_model (c : fcase) : outcome (list N) :=
  match c with
  | CCount n => human_count n
  | CFDur s n => Ok (formatted_duration s n)
  | CHDur s n a => human_duration s n a
  | CBytes k n => bytes_fmt (negb (k =? 1)) n
  | CFloat p b => human_float_count p b
  end.

(** a case and the string observed on the implementation ([None] = it panicked) *)
Definition fmt_check (c : fcase * option (list N)) : bool :=
  let '(inp, obs) := c in
  match fmt_model inp, obs with
  | Ok s, Some o => list_eqb N.eqb s o
  | Panic _, None => true
  | _, _ => false
  end.
