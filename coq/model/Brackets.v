(** Critical sections of a lock footprint (model/Locks.v, generated table gen/LockFootprints.v):
    how many separate top-level critical sections over the bar mutex / the MultiState lock a public
    call consists of.  The drawing-system model (Sys.v) treats every public call as ONE atomic
    step; that is sound for a call whose state accesses all happen inside a single outermost
    critical section (one bracket from the mutation through the paint).  Definitions only. *)
From IndModel Require Import Base Locks.
From Coq Require Import String.
Local Open Scope string_scope.

Definition state_lock (c : cres) : bool :=
  match c with CBar | CMulti => true | _ => false end.

(* number of top-level critical sections over {Bar, Multi}; Slot / Stop sections (ticker slot read,
   ticker wake-up) do not touch bar or multi state and are not counted *)
Fixpoint sections_from (depth : nat) (fp : list caction) : nat :=
  match fp with
  | [] => 0
  | CAcq c :: q =>
      if state_lock c then (match depth with O => 1 | _ => 0 end + sections_from (S depth) q)%nat
      else sections_from depth q
  | CRel c :: q => if state_lock c then sections_from (Nat.pred depth) q else sections_from depth q
  | _ :: q => sections_from depth q
  end.
Definition sections (fp : list caction) : nat := sections_from 0 fp.

(** The calls that are NOT a single critical section, with the number of sections they have in the
    pinned tree (each documented in docs/C02.md "atomic steps"): adding a bar to a MultiProgress
    (`internalize`: membership test under the bar lock (fix bee77c9), slot allocation under the multi
    lock, then `set_draw_target` under the bar lock) - three steps in which the new bar is not yet drawn; insert_before/after additionally read
    the reference bar's index first; dropping the last handle (final draw, then mark_zombie) - also when a failing
    WeakProgressBar::upgrade drops the last Arc it had just obtained; the ticker thread's loop
    (per iteration). Every other call must be one bracket. *)
Definition allowed_sections (name : string) : nat :=
  if String.eqb name "MultiProgress::add" then 3
  else if String.eqb name "MultiProgress::insert" then 3
  else if String.eqb name "MultiProgress::insert_from_back" then 3
  else if String.eqb name "MultiProgress::insert_after" then 4
  else if String.eqb name "MultiProgress::insert_before" then 4
  else if String.eqb name "ProgressBar::drop" then 3
  else if String.eqb name "BarState::drop:drop" then 3
  else if String.eqb name "WeakProgressBar::upgrade" then 3
  else if String.eqb name "TickerControl::run" then 4
  else 1.

Definition bracket_ok (e : string * list caction) : bool :=
  Nat.leb (sections (snd e)) (allowed_sections (fst e)).

(** The same over the STRUCTURED programs (gen/LockFootprints.all_programs): the maximum, over all
    paths, of the number of top-level critical sections.  Abstract state = (nesting depth over
    {Bar, Multi}, sections so far); [Locks.acheck] needs a loop's entry set to be invariant, so a
    loop whose body opens a top-level section makes the result [None] ("unbounded"). *)
Definition sec_step (a : caction) (st : nat * nat) : option (nat * nat) :=
  let '(d, n) := st in
  match a with
  | CAcq c => if state_lock c then Some (S d, match d with O => S n | _ => n end) else Some st
  | CRel c => if state_lock c then Some (Nat.pred d, n) else Some st
  | _ => Some st
  end.
Definition st_eqb (x y : nat * nat) : bool := Nat.eqb (fst x) (fst y) && Nat.eqb (snd x) (snd y).
Definition max_sections (p : cprog) : option nat :=
  match acheck st_eqb sec_step p [(0, 0)%nat] with
  | Some outs => Some (fold_right (fun st m => Nat.max (snd st) m) 0%nat outs)
  | None => None
  end.
(** a program that is one top-level loop (the ticker thread) is bounded per iteration *)
Definition bracket_ok_p (e : string * cprog) : bool :=
  match match snd e with PLoop b => max_sections b | p => max_sections p end with
  | Some k => Nat.leb k (allowed_sections (fst e))
  | None => false
  end.
