(** Critical sections of a lock footprint (model/Locks.v, generated table gen/LockFootprints.v):
    how many separate top-level critical sections over the bar mutex / the MultiState lock a public
    call consists of.  The drawing-system model (Sys.v) treats every public call as ONE atomic
    step; that is sound for a call whose state accesses all happen inside a single outermost
    critical section (one bracket from the mutation through the paint).  Definitions only. *)
From IndModel Require Import Base Locks.
From Coq Require Import String.
Local Open Scope string_scope.

Definition state_lock (c : cres) : bool :=
  match c with CBar | CMulti => true | _ => false end.

(* number of top-level critical sections over {Bar, Multi}; Slot / Stop sections (ticker slot read,
   ticker wake-up) do not touch bar or multi state and are not counted *)
Fixpoint sections_from (depth : nat) (fp : list caction) : nat :=
  match fp with
  | [] => 0
  | CAcq c :: q =>
      if state_lock c then (match depth with O => 1 | _ => 0 end + sections_from (S depth) q)%nat
      else sections_from depth q
  | CRel c :: q => if state_lock c then sections_from (Nat.pred depth) q else sections_from depth q
  | _ :: q => sections_from depth q
  end.
Definition sections (fp : list caction) : nat := sections_from 0 fp.

(** The calls that are NOT a single critical section, with the number of sections they have in the
    pinned tree (each documented in docs/C02.md "atomic steps"): adding a bar to a MultiProgress
    (`internalize`: membership test under the bar lock (fix bee77c9), slot allocation under the multi
    lock, then `set_draw_target` under the bar lock) - three steps in which the new bar is not yet drawn; insert_before/after additionally read
    the reference bar's index first; dropping the last handle (final draw, then mark_zombie); the
    ticker thread's loop. Every other call must be one bracket. *)
Definition allowed_sections (name : string) : nat :=
  if String.eqb name "MultiProgress::add" then 3
  else if String.eqb name "MultiProgress::insert" then 3
  else if String.eqb name "MultiProgress::insert_from_back" then 3
  else if String.eqb name "MultiProgress::insert_after" then 4
  else if String.eqb name "MultiProgress::insert_before" then 4
  else if String.eqb name "ProgressBar::drop" then 3
  else if String.eqb name "BarState::drop:drop" then 3
  else if String.eqb name "TickerControl::run" then 4
  else 1.

Definition bracket_ok (e : string * list caction) : bool :=
  Nat.leb (sections (snd e)) (allowed_sections (fst e)).
