(** The PANIC SITES of the drawing system, as an explicit function over the Sys.v model.

    Sys.v totalises the partial operations of src/multi.rs / src/draw_target.rs ([nthN]/[updN]
    defaults, [ms_mark_zombie] on an empty ordering, [ms_insert] returning [None], ...), so "the
    model has no panic outcome" says nothing.  This file states, for every partial operation of
    the Rust code that a public call of the model reaches (`unwrap()`, `expect`, `assert!`,
    `assert_eq!`, `debug_assert*!`, `vec[idx]`, unchecked `+`/`-` on usize / VisualLines - debug
    builds check those), the condition under which it panics, as a guard over the SAME state
    components [Sys.step] reads, in the order in which the Rust code evaluates them, including
    inside the helpers (MultiState::{draw, clear, suspend, mark_zombie, insert, remove_idx,
    draw_state}, DrawState::draw_to_term).  [step_panics W H fails s now o] = the first site the
    real code hits when it executes call [o] in state [s]; [None] = the call returns.

    Definitions only (proofs: IndProofs.SysPanicProofs).  Line numbers: /repo HEAD 7d42cff.
    19 sites of the current code + 1 historical ([P_draw_adjust_add], module [Pre_f8fa07f]).
    Every `+` / `-` on VisualLines / usize of src/multi.rs and src/draw_target.rs is either
    saturating or one of: draw_target.rs:560 (-), :575 (-), :605 (+=), :642 (+), multi.rs:492 (-)
    - the five arithmetic sites below - or listed as total after [psite].

    Conventions / what the guards abstract:
    * usize is 64 bits ([USIZE] = 2^64).
    * The terminal calls of draw_to_term are joined by `?`: an I/O failure makes it return early
      and SKIPS the later arithmetic sites.  The draw_to_term guards below ignore that (they are
      evaluated as if every call succeeded): a fault can only remove sites, never add one, so
      [None] here implies "no panic" under every fault oracle.  The STATES between the parts of
      one call (which do depend on the oracle: `real_height + shift` is only written to
      last_line_count after a successful flush; after a FAILED draw the count is the old one
      capped at the height, [N.min (tt_n t) H] in [Sys.term_draw], because the cap of :527-529
      runs before the first fallible call) are the ones [Sys.step] computes, with the oracle.
    * Sites owned by other properties are not repeated here: RateLimiter::{new, allow} /
      AtomicPosition::allow (model coq/model/Limiter.v with its four panic outcomes, theorem
      C05_no_panic; line by line in docs/C18.md), ProgressStyle::format_state and everything under it (C10, C13,
      C14, C16), the estimator (C09).  Lock poisoning (`.lock().unwrap()`, `.write().unwrap()`)
      needs an earlier panic while the lock is held; `assert!(Arc::ptr_eq(..))` of
      MultiProgress::remove (src/multi.rs:158) needs a second MultiProgress (the model has one). *)
From IndModel Require Export MultiSpec.

Definition USIZE : N := U64.          (* usize::MAX + 1 *)
Definition USIZE_MAX : N := U64MAX.

Inductive psite :=
(* --- public wrappers, src/multi.rs *)
| P_insert_before_index_unwrap     (* multi.rs:132  `before.index().unwrap()`: the reference bar is not a member *)
| P_insert_after_index_unwrap      (* multi.rs:144  `after.index().unwrap()` *)
(* --- MultiState::mark_zombie *)
| P_mark_members_index             (* multi.rs:257  `&mut self.members[index]` *)
| P_mark_first_unwrap              (* multi.rs:261  `self.ordering.first().copied().unwrap()` *)
(* --- MultiState::draw *)
| P_draw_extra_assert              (* multi.rs:302  `debug_assert_eq!(extra_lines.is_some(), len > 0)` *)
| P_draw_scan_index                (* multi.rs:312  `&self.members[index]` in the zombie scan *)
| P_draw_adjust_add                (* HISTORICAL - not a site of the current code: multi.rs:324 was `adjust += line_count`
                                      (-> draw_target.rs:687, unchecked) before fix f8fa07f made it `saturating_add`;
                                      only [Pre_f8fa07f] (the guards of the OLD code, kept for the regression theorem) yields it *)
| P_draw_compose_index             (* multi.rs:357  `&self.members[*index]` while composing the frame *)
(* --- MultiState::draw_state (Drawable::state() of a member) *)
| P_draw_state_unwrap              (* multi.rs:397  `self.members.get_mut(idx).unwrap()` *)
(* --- MultiState::insert *)
| P_insert_free_index              (* multi.rs:427  `self.members[idx] = ..` for a popped free index *)
| P_insert_after_position_unwrap   (* multi.rs:445  `.position(|i| *i == after_idx).unwrap()` *)
| P_insert_before_position_unwrap  (* multi.rs:449  `.position(|i| *i == before_idx).unwrap()` *)
| P_insert_assert                  (* multi.rs:454  `assert_eq!(self.len(), self.ordering.len(), "Draw state is inconsistent")` *)
(* --- MultiState::remove_idx / len *)
| P_remove_members_index           (* multi.rs:480  `self.members[idx] = ..` *)
| P_remove_assert                  (* multi.rs:484  `assert_eq!(self.len(), self.ordering.len(), ..)` *)
| P_len_sub                        (* multi.rs:492  `self.members.len() - self.free_set.len()` (unchecked) *)
(* --- DrawState::draw_to_term, src/draw_target.rs *)
| P_dt_shift_sub                   (* draw_target.rs:560 `*bar_count - full_height` -> :701 `self.0 - rhs.0` *)
| P_dt_pad_sub                     (* draw_target.rs:575 `shift.as_usize() - usize::from(full_screen_padding)` (fix 881c313) *)
| P_dt_real_add                    (* draw_target.rs:605 `real_height += line_height` -> :687 *)
| P_dt_count_add.                  (* draw_target.rs:642 `real_height + shift` -> :681 `self.0 + rhs.0` *)

(** Operations of the same functions that were inspected and are total (so: no constructor):
    multi.rs:431 `self.members.len() - 1` (right after a push); :438 `ordering.insert(min(pos,
    len), ..)`, :442 `insert(len.saturating_sub(pos), ..)`, :446 `insert(pos + 1, ..)`, :450
    `insert(pos, ..)` with `pos < len` from `position` (Vec::insert panics only for an index
    > len); :277/:324/:378 `saturating_add` (:324 since fix f8fa07f); :274/:375 `Ord::min`; :359 `&state.lines[..]`;
    draw_target.rs:289/:290/:328/:329 saturating; :533/:542/:549 `saturating_sub(1)`; :527-529 the cap of `*bar_count` at the terminal height (fix 7d42cff, a comparison and an assignment);
    :545 `i + 1` (i < n); :619 `idx + 1` (idx < lines.len()); :622-625 saturating;
    :626 `" ".repeat(filler)` (filler < width, see C14 SITE_REPEAT); :656 `&self.lines[range]`
    (only ever called with the full range `..`); :707-711 saturating fold; :724 float -> usize
    cast saturates (x/0 = inf -> usize::MAX, 0/0 = NaN -> 0). *)

(** LineType::wrapped_height as the Rust code computes it, INCLUDING width 0
    (src/draw_target.rs:721-730): `(cols as f64 / 0.0).ceil() as usize` is usize::MAX for a
    non-empty line and 0 (then max 1) for an empty one.  For W >= 1 it is [Text.wrapped_height]
    (the model of Sys.v, which is NOT faithful at W = 0: it gives 1 row there). *)
Definition wrapped_height_rs (l : line) (W : N) : N :=
  if W =? 0 then (if lwidth l =? 0 then 1 else USIZE_MAX) else wrapped_height l W.

(* visual_line_count, src/draw_target.rs:707-711: a saturating fold *)
Definition visual_line_count_rs (ls : list line) (W : N) : N :=
  fold_left (fun acc l => N.min USIZE_MAX (acc + wrapped_height_rs l W)) ls 0.

Definition member_vlc_rs (mem : member) (W : N) : N :=
  match m_lines mem with Some ls => visual_line_count_rs ls W | None => 0 end.

Definition oob {A} (l : list A) (i : N) : bool := N.of_nat (length l) <=? i.

(* ------------------------------------------------------------------ draw_to_term *)
(** All row arithmetic of the guards below is the one the RUST code does ([wrapped_height_rs],
    saturating sums), for every width including 0 - not [Draw.draw_to_term]'s, which uses
    [Text.wrapped_height] (1 row for every line at W = 0).  For W >= 1 and counts below 2^64 the two
    agree ([SysPanicProofs.dt_count_rs_model]). *)

(** the paint loop (draw_target.rs:588-628): `real_height += line_height` (:605) runs for a Bar
    line that passed the `break` test `real_height.saturating_add(line_height) > term.height()` (:594) *)
Fixpoint paint_panics (ls : list line) (W H real : N) : option psite :=
  match ls with
  | [] => None
  | l :: r =>
      let h := wrapped_height_rs l W in
      if is_bar l && (H <? N.min USIZE_MAX (real + h)) then None           (* break *)
      else if is_bar l && (USIZE <=? real + h) then Some P_dt_real_add
      else paint_panics r W H (if is_bar l then real + h else real)
  end.

(** what the loop leaves behind when it does not panic: `real_height` and whether a Bar line was
    painted (then the padding has been written: `padded = true`) *)
Fixpoint paint_real_rs (ls : list line) (W H real : N) (bar_painted : bool) : N * bool :=
  match ls with
  | [] => (real, bar_painted)
  | l :: r =>
      let h := wrapped_height_rs l W in
      if is_bar l && (H <? N.min USIZE_MAX (real + h)) then (real, bar_painted)
      else paint_real_rs r W H (if is_bar l then real + h else real) (bar_painted || is_bar l)
  end.

(** `*bar_count - full_height` of the arm `Bottom if full_height < *bar_count` (:560), else 0;
    [n] is the count AFTER the cap of :527-529 *)
Definition dt_shift0 (ls : list line) (n : N) (al : alignment) (W : N) : N :=
  let full := visual_line_count_rs ls W in
  match al with Bottom => if full <? n then n - full else 0 | Top => 0 end.

(** the value written to last_line_count at :642: `real_height + shift`, `shift` reset to 0 at
    :631-634 when no padding is on the screen; [n] is the count AFTER the cap of :527-529 *)
Definition dt_count_rs (ls : list line) (n : N) (al : alignment) (W H : N) : N :=
  let '(real, bar_painted) := paint_real_rs ls W H 0 false in
  real + (if negb (starts_with_text ls) || bar_painted then dt_shift0 ls n al W else 0).

(** DrawState::draw_to_term on [ls] with last_line_count [n] (the terminal calls are not
    partial; see the header for `?`) *)
Definition dt_panics (ls : list line) (n : N) (al : alignment) (below : bool) (W H : N) : option psite :=
  (* :527-529 (fix 7d42cff) - `if *bar_count > screen_height { *bar_count = screen_height }`: every
     use of the count below sees the capped value *)
  let n := N.min n H in
  let full := visual_line_count_rs ls W in
  let in_arm := match al with Bottom => full <? n | Top => false end in
  (* :560 - the subtraction is evaluated in the match arm `Bottom if full_height < *bar_count` only *)
  if in_arm && (n <? full) then Some P_dt_shift_sub else
  let shift0 := dt_shift0 ls n al W in
  (* :575 - evaluated when `padded`; `usize::from(full_screen_padding)` is 1 or 0, and
     full_screen_padding (:572-573) requires `shift > 0` *)
  if negb (starts_with_text ls) && full_pad ls shift0 H && (shift0 <? 1) then Some P_dt_pad_sub else
  match paint_panics ls W H 0 with
  | Some p => Some p
  | None =>
      (* :642 - `*bar_count = real_height + shift` *)
      if USIZE <=? dt_count_rs ls n al W H then Some P_dt_count_add else None
  end.

Section WithTerminal.
  Variable W H : N.
  Variable fails : N -> bool.

  (* ---------------------------------------------------------------- MultiState helpers *)
  (** MultiState::remove_idx (multi.rs:475-489), then MultiState::len (:491-493) inside the
      assert_eq!.  [ms_remove_idx m idx] is the state after the three updates. *)
  Definition ms_remove_idx_panics (m : mstate) (idx : N) : option psite :=
    if memN idx (ms_free m) then None else                                  (* :476 early return *)
    if oob (ms_members m) idx then Some P_remove_members_index else          (* :480 *)
    let m' := ms_remove_idx m idx in
    if (length (ms_members m') <? length (ms_free m'))%nat then Some P_len_sub else     (* :492 *)
    if negb (length (ms_members m') - length (ms_free m') =? length (ms_order m'))%nat
    then Some P_remove_assert else None.                                     (* :484 *)

  (** `for index in reap_indices { self.remove_idx(index) }` (multi.rs:366-368) *)
  Fixpoint reap_panics (zs : list N) (m : mstate) : option psite :=
    match zs with
    | [] => None
    | i :: r => match ms_remove_idx_panics m i with
                | Some p => Some p
                | None => reap_panics r (ms_remove_idx m i)
                end
    end.

  (** the zombie scan (multi.rs:311-327): `&self.members[index]` for every index of the ordering up
      to and including the first non-zombie.  Since fix f8fa07f the sum is
      `adjust = adjust.saturating_add(line_count)` (:324): no arithmetic site *)
  Fixpoint scan_panics (order : list N) (mems : list member) : option psite :=
    match order with
    | [] => None
    | i :: r =>
        if oob mems i then Some P_draw_scan_index else
        if negb (m_zombie (nthN mems i member_default)) then None           (* break *)
        else scan_panics r mems
    end.

  (** MultiState::draw (multi.rs:286-382); mirrors [Sys.ms_draw] *)
  Definition ms_draw_panics (m : mstate) (force : bool) (extra : option (list line)) (now : N)
    : option psite :=
    match ms_target m with
    | TTerm tg =>                                                           (* :296 width is Some *)
        if match extra with Some [] => true | _ => false end then Some P_draw_extra_assert else  (* :302 *)
        match scan_panics (ms_order m) (ms_members m) with
        | Some p => Some p
        | None =>
            let has_text := match extra with Some _ => true | None => false end
                            || negb (match ms_orphans m with [] => true | _ => false end) in
            let tg1 := if has_text then tt_adjust_clear tg (ms_zombie_lines m) else tg in
            let force' := force || (0 <? visual_line_count (ms_orphans m) W) in
            let '(allowed, tg2) := tt_allow tg1 force' now in
            if negb allowed then None else                                  (* :343 rate limited *)
            if existsb (oob (ms_members m)) (ms_order m) then Some P_draw_compose_index else   (* :357 *)
            let ls := match extra with Some e => e | None => [] end
                      ++ ms_orphans m
                      ++ concat (map (member_lines (ms_members m)) (ms_order m)) in
            match dt_panics ls (tt_n tg2) (ms_align m) (tt_below tg2) W H with          (* :364 *)
            | Some p => Some p
            | None =>
                (* :366 - remove_idx reads members / free_set / ordering only, which the draw
                   above has not touched *)
                reap_panics (head_zombies (ms_order m) (ms_members m)) m
            end
        end
    | _ => None
    end.

  (** MultiState::clear (multi.rs:463-473): drawable(true) never asks the limiter;
      Clear(zombie_lines_count) saturates; Drawable::clear = state() + draw() on the terminal *)
  Definition ms_clear_panics (m : mstate) : option psite :=
    match ms_target m with
    | TTerm tg => dt_panics [] (tt_n (tt_adjust_clear tg (ms_zombie_lines m))) (tt_align tg) (tt_below tg) W H
    | _ => None
    end.

  (** MultiState::suspend (multi.rs:409-419); the state handed to the final draw is the one
      [Sys.ms_suspend] computes *)
  Definition ms_suspend_panics (m : mstate) (writes : list text) (now c : N) : option psite :=
    match ms_clear_panics m with
    | Some p => Some p
    | None =>
        let '(m1, e1, c1, _) := ms_clear W H fails m c in
        let m1 := set_ms_target m1 (match ms_target m1 with
                                    | TTerm tg => TTerm (mktt 0 (tt_rl tg) (tt_align tg) (tt_below tg))
                                    | t => t
                                    end) in
        ms_draw_panics m1 true None now
    end.

  (** MultiState::mark_zombie (multi.rs:254-284) *)
  Definition ms_mark_zombie_panics (m : mstate) (idx : N) : option psite :=
    if oob (ms_members m) idx then Some P_mark_members_index else           (* :257 *)
    match ms_order m with
    | [] => Some P_mark_first_unwrap                                        (* :261 *)
    | first :: _ =>
        if negb (N.eqb idx first) then None
        else ms_remove_idx_panics m idx     (* :283; :277/:280 only change the counters *)
    end.

  (** MultiState::insert (multi.rs:425-461) *)
  Definition ms_insert_panics (m : mstate) (loc : iloc) : option psite :=
    if match ms_free m with i :: _ => oob (ms_members m) i | [] => false end
    then Some P_insert_free_index else                                      (* :427 *)
    match ms_insert m loc with
    | None => match loc with                                                (* :445 / :449 *)
              | LBefore _ => Some P_insert_before_position_unwrap
              | _ => Some P_insert_after_position_unwrap
              end
    | Some (m', _) =>
        if (length (ms_members m') <? length (ms_free m'))%nat then Some P_len_sub else   (* :492 *)
        if negb (length (ms_members m') - length (ms_free m') =? length (ms_order m'))%nat
        then Some P_insert_assert else None                                 (* :454 *)
    end.

  (** Drawable::state() of a member = MultiState::draw_state (multi.rs:396-403) *)
  Definition ms_store_panics (m : mstate) (idx : N) : option psite :=
    if oob (ms_members m) idx then Some P_draw_state_unwrap else None.      (* :397 *)

  Definition orelse (a : option psite) (b : option psite) : option psite :=
    match a with Some p => Some p | None => b end.

  (* ---------------------------------------------------------------- bar level *)
  (** BarState::draw (state.rs:200-223); mirrors [Sys.bar_draw] *)
  Definition bar_draw_panics (s : sys) (b : N) (force : bool) (now : N) : option psite :=
    let br := get_bar s b in
    let force' := force || finished br in
    match b_target br with
    | THidden => None
    | TTerm tg =>
        let '(allowed, tg1) := tt_allow tg force' now in
        if negb allowed then None
        else dt_panics (frame_of br) (tt_n tg1) (tt_align tg1) (tt_below tg1) W H
    | TMulti idx =>
        let m := s_mp s in
        let bars := match ms_width W m with Some _ => frame_of br | None => [] end in
        orelse (ms_store_panics m idx)                                      (* state.rs:212 *)
               (ms_draw_panics (ms_store m idx [] bars) force' None now)    (* state.rs:222 *)
    end.

  (** BarState::println (state.rs:159-184) *)
  Definition bar_println_panics (s : sys) (b : N) (msg : text) (now : N) : option psite :=
    let br := get_bar s b in
    match b_target br with
    | THidden => None
    | TTerm tg => dt_panics (text_lines msg ++ frame_of br) (tt_n tg) (tt_align tg) (tt_below tg) W H
    | TMulti idx =>
        let m := s_mp s in
        let bars := match ms_width W m with Some _ => frame_of br | None => [] end in
        orelse (ms_store_panics m idx)
               (ms_draw_panics (ms_store m idx (text_lines msg) bars) true None now)
    end.

  (** BarState::suspend (state.rs:186-198) *)
  Definition bar_suspend_panics (s : sys) (b : N) (writes : list text) (now : N) : option psite :=
    let br := get_bar s b in
    match b_target br with
    | TMulti _ => ms_suspend_panics (s_mp s) writes now (s_calls s)
    | THidden => None
    | TTerm tg =>
        orelse (dt_panics [] (tt_n tg) (tt_align tg) (tt_below tg) W H)     (* :192 drawable.clear() *)
               (let '(tg1, e1, c1, _) := term_draw W H fails tg [] (s_calls s) in
                let '(e2, c2) := emit_each fails c1 (map TLine writes) in
                let s1 := set_s_calls (upd_bar s b (fun x => set_b_target x (TTerm tg1))) c2 in
                bar_draw_panics s1 b true now)                              (* :196 *)
    end.

  Definition bar_tick_panics (s : sys) (b : N) (now : N) : option psite :=
    bar_draw_panics (upd_bar s b (fun x => set_b_tick x (sat_add64 (b_tick x) 1))) b false now.

  Definition bar_pos_update_panics (s : sys) (b : N) (f : N -> N) (now : N) : option psite :=
    let s1 := upd_bar s b (fun x => set_b_pos x (f (b_pos x))) in
    let '(a, ap') := ap_allow (b_ap (get_bar s1 b)) now in
    let s2 := upd_bar s1 b (fun x => set_b_ap x ap') in
    if a then bar_tick_panics s2 b now else None.

  Definition bar_finish_panics (s : sys) (b : N) (k : fin) (now : N) : option psite :=
    bar_draw_panics (upd_bar s b (finish_upd k)) b true now.

  (** ProgressDrawTarget::mark_zombie (draw_target.rs:146-150) *)
  Definition mark_zombie_panics (s : sys) (b : N) : option psite :=
    match b_target (get_bar s b) with
    | TMulti idx => ms_mark_zombie_panics (s_mp s) idx
    | _ => None
    end.

  (** Drop for BarState (state.rs:226-240): finish (unless finished), then mark_zombie on the
      state the finish left behind *)
  Definition bar_drop_panics (s : sys) (b : N) (now : N) : option psite :=
    let br := get_bar s b in
    if finished br then mark_zombie_panics s b
    else orelse (bar_finish_panics s b (b_on_finish br) now)
                (mark_zombie_panics (fst (bar_finish W H fails s b (b_on_finish br) now)) b).

  (** ProgressBar::set_draw_target: disconnect (draw_target.rs:211-227) = Drawable::Multi.clear()
      of a member; then the assignment *)
  Definition bar_set_target_panics (s : sys) (b : N) (now : N) : option psite :=
    match b_target (get_bar s b) with
    | TMulti idx0 =>
        orelse (ms_store_panics (s_mp s) idx0)
               (ms_draw_panics (ms_store (s_mp s) idx0 [] []) true None now)
    | _ => None
    end.

  (** the argument of insert_before / insert_after is evaluated BEFORE `internalize` runs,
      i.e. also when the bar to insert is a member already *)
  Definition insert_ref_panics (s : sys) (bl : bloc) : option psite :=
    match bl with
    | BBefore r => if is_member s r then None else Some P_insert_before_index_unwrap
    | BAfter r => if is_member s r then None else Some P_insert_after_index_unwrap
    | _ => None
    end.

  (** One public call: the first panic site it reaches ([None]: it returns).  Same case
      structure as [Sys.step]. *)
  Definition step_panics (s : sys) (now : N) (o : op) : option psite :=
    match o with
    | OTick b => bar_tick_panics s b now
    | OInc b d => bar_pos_update_panics s b (fun p => wadd64 p d) now
    | ODec b d => bar_pos_update_panics s b (fun p => wsub64 p d) now
    | OSetPos b p => bar_pos_update_panics s b (fun _ => p) now
    | OSetLen b l => bar_draw_panics (upd_bar s b (fun x => set_b_len x (Some l))) b false now
    | OIncLen b d => bar_draw_panics (upd_bar s b (fun x => set_b_len x (option_map (fun l => sat_add64 l d) (b_len x)))) b false now
    | ODecLen b d => bar_draw_panics (upd_bar s b (fun x => set_b_len x (option_map (fun l => sat_sub l d) (b_len x)))) b false now
    | OUnsetLen b => bar_draw_panics (upd_bar s b (fun x => set_b_len x None)) b false now
    | OSetMsg b m => bar_draw_panics (upd_bar s b (fun x => set_b_msg x m)) b false now
    | OSetPrefix b m => bar_draw_panics (upd_bar s b (fun x => set_b_prefix x m)) b false now
    | OSetStyle _ _ => None
    | OPrintln b m => bar_println_panics s b m now
    | OSuspend b ws => bar_suspend_panics s b ws now
    | OReset b =>
        bar_draw_panics (upd_bar s b (fun x =>
           set_b_status (set_b_ap (set_b_pos x 0) (ap_reset (b_ap x) now)) InProgress)) b false now
    | OResetEta _ | OResetElapsed _ => None
    | OFinish b k => bar_finish_panics s b k now
    | OFinishUsingStyle b => bar_finish_panics s b (b_on_finish (get_bar s b)) now
    | OForceDraw b | OSetTabWidth b => bar_draw_panics s b true now
    | ODrop b => bar_drop_panics s b now
    | OInsert bl b =>
        orelse (insert_ref_panics s bl)                                     (* multi.rs:132 / :144 *)
        match b_target (get_bar s b) with
        | TMulti _ => None                                                  (* multi.rs:177 *)
        | _ =>
            let loc :=
              match bl with
              | BEnd => Some LEnd
              | BIndex i => Some (LIndex i)
              | BFromBack i => Some (LFromBack i)
              | BAfter r => match b_target (get_bar s r) with TMulti i => Some (LAfter i) | _ => None end
              | BBefore r => match b_target (get_bar s r) with TMulti i => Some (LBefore i) | _ => None end
              end in
            match loc with
            | None => None   (* not reached: insert_ref_panics fired *)
            | Some l =>
                orelse (ms_insert_panics (s_mp s) l)                        (* multi.rs:182 *)
                match ms_insert (s_mp s) l with
                | Some (m1, _) => bar_set_target_panics (set_s_mp s m1) b now     (* multi.rs:185 *)
                | None => None
                end
            end
        end
    | ORemove b =>
        match b_target (get_bar s b) with
        | TMulti idx =>
            let s1 := upd_bar s b (fun x => set_b_target x THidden) in
            orelse (ms_remove_idx_panics (s_mp s1) idx)                     (* multi.rs:166 *)
                   (ms_draw_panics (ms_remove_idx (s_mp s1) idx) true None now)   (* multi.rs:167 *)
        | _ => None
        end
    | OMPrintln m =>
        let ls := match m with [] => [mkline KEmpty []] | _ => map (mkline KText) (lines_of m) end in
        ms_draw_panics (s_mp s) true (Some ls) now
    | OMSuspend ws => ms_suspend_panics (s_mp s) ws now (s_calls s)
    | OMClear => ms_clear_panics (s_mp s)
    | OSetAlign _ => None
    end.
End WithTerminal.

(* ------------------------------------------------------------------ the code BEFORE fix f8fa07f *)
(** REGRESSION ONLY.  The guards of the tree before /repo f8fa07f ("counting the lines of finished
    bars on a zero-width terminal no longer overflows"), in which MultiState::draw summed the rows
    of the head zombies with the unchecked `adjust += line_count` (finding D31).  A verbatim copy of
    the section above; the ONLY difference is [scan_panics], which carries the running sum and
    yields [P_draw_adjust_add] when it reaches 2^64.  Nothing but
    [C18_zero_width_overflow_regression] refers to this module. *)
Module Pre_f8fa07f.
Section WithTerminal.
  Variable W H : N.
  Variable fails : N -> bool.

  (* ---------------------------------------------------------------- MultiState helpers *)
  (** MultiState::remove_idx (multi.rs:475-489), then MultiState::len (:491-493) inside the
      assert_eq!.  [ms_remove_idx m idx] is the state after the three updates. *)
  Definition ms_remove_idx_panics (m : mstate) (idx : N) : option psite :=
    if memN idx (ms_free m) then None else                                  (* :476 early return *)
    if oob (ms_members m) idx then Some P_remove_members_index else          (* :480 *)
    let m' := ms_remove_idx m idx in
    if (length (ms_members m') <? length (ms_free m'))%nat then Some P_len_sub else     (* :492 *)
    if negb (length (ms_members m') - length (ms_free m') =? length (ms_order m'))%nat
    then Some P_remove_assert else None.                                     (* :484 *)

  (** `for index in reap_indices { self.remove_idx(index) }` (multi.rs:366-368) *)
  Fixpoint reap_panics (zs : list N) (m : mstate) : option psite :=
    match zs with
    | [] => None
    | i :: r => match ms_remove_idx_panics m i with
                | Some p => Some p
                | None => reap_panics r (ms_remove_idx m i)
                end
    end.

  (** the zombie scan (multi.rs:311-327): for every index of the ordering up to and including
      the first non-zombie: `&self.members[index]`, then `adjust += line_count` with the row
      count the Rust code computes ([member_vlc_rs]) *)
  Fixpoint scan_panics (order : list N) (mems : list member) (adj : N) : option psite :=
    match order with
    | [] => None
    | i :: r =>
        if oob mems i then Some P_draw_scan_index else
        let mem := nthN mems i member_default in
        if negb (m_zombie mem) then None else                               (* break *)
        let lc := member_vlc_rs mem W in
        if USIZE <=? adj + lc then Some P_draw_adjust_add else
        scan_panics r mems (adj + lc)
    end.

  (** MultiState::draw (multi.rs:286-382); mirrors [Sys.ms_draw] *)
  Definition ms_draw_panics (m : mstate) (force : bool) (extra : option (list line)) (now : N)
    : option psite :=
    match ms_target m with
    | TTerm tg =>                                                           (* :296 width is Some *)
        if match extra with Some [] => true | _ => false end then Some P_draw_extra_assert else  (* :302 *)
        match scan_panics (ms_order m) (ms_members m) 0 with
        | Some p => Some p
        | None =>
            let has_text := match extra with Some _ => true | None => false end
                            || negb (match ms_orphans m with [] => true | _ => false end) in
            let tg1 := if has_text then tt_adjust_clear tg (ms_zombie_lines m) else tg in
            let force' := force || (0 <? visual_line_count (ms_orphans m) W) in
            let '(allowed, tg2) := tt_allow tg1 force' now in
            if negb allowed then None else                                  (* :343 rate limited *)
            if existsb (oob (ms_members m)) (ms_order m) then Some P_draw_compose_index else   (* :357 *)
            let ls := match extra with Some e => e | None => [] end
                      ++ ms_orphans m
                      ++ concat (map (member_lines (ms_members m)) (ms_order m)) in
            match dt_panics ls (tt_n tg2) (ms_align m) (tt_below tg2) W H with          (* :364 *)
            | Some p => Some p
            | None =>
                (* :366 - remove_idx reads members / free_set / ordering only, which the draw
                   above has not touched *)
                reap_panics (head_zombies (ms_order m) (ms_members m)) m
            end
        end
    | _ => None
    end.

  (** MultiState::clear (multi.rs:463-473): drawable(true) never asks the limiter;
      Clear(zombie_lines_count) saturates; Drawable::clear = state() + draw() on the terminal *)
  Definition ms_clear_panics (m : mstate) : option psite :=
    match ms_target m with
    | TTerm tg => dt_panics [] (tt_n (tt_adjust_clear tg (ms_zombie_lines m))) (tt_align tg) (tt_below tg) W H
    | _ => None
    end.

  (** MultiState::suspend (multi.rs:409-419); the state handed to the final draw is the one
      [Sys.ms_suspend] computes *)
  Definition ms_suspend_panics (m : mstate) (writes : list text) (now c : N) : option psite :=
    match ms_clear_panics m with
    | Some p => Some p
    | None =>
        let '(m1, e1, c1, _) := ms_clear W H fails m c in
        let m1 := set_ms_target m1 (match ms_target m1 with
                                    | TTerm tg => TTerm (mktt 0 (tt_rl tg) (tt_align tg) (tt_below tg))
                                    | t => t
                                    end) in
        ms_draw_panics m1 true None now
    end.

  (** MultiState::mark_zombie (multi.rs:254-284) *)
  Definition ms_mark_zombie_panics (m : mstate) (idx : N) : option psite :=
    if oob (ms_members m) idx then Some P_mark_members_index else           (* :257 *)
    match ms_order m with
    | [] => Some P_mark_first_unwrap                                        (* :261 *)
    | first :: _ =>
        if negb (N.eqb idx first) then None
        else ms_remove_idx_panics m idx     (* :283; :277/:280 only change the counters *)
    end.

  (** MultiState::insert (multi.rs:425-461) *)
  Definition ms_insert_panics (m : mstate) (loc : iloc) : option psite :=
    if match ms_free m with i :: _ => oob (ms_members m) i | [] => false end
    then Some P_insert_free_index else                                      (* :427 *)
    match ms_insert m loc with
    | None => match loc with                                                (* :445 / :449 *)
              | LBefore _ => Some P_insert_before_position_unwrap
              | _ => Some P_insert_after_position_unwrap
              end
    | Some (m', _) =>
        if (length (ms_members m') <? length (ms_free m'))%nat then Some P_len_sub else   (* :492 *)
        if negb (length (ms_members m') - length (ms_free m') =? length (ms_order m'))%nat
        then Some P_insert_assert else None                                 (* :454 *)
    end.

  (** Drawable::state() of a member = MultiState::draw_state (multi.rs:396-403) *)
  Definition ms_store_panics (m : mstate) (idx : N) : option psite :=
    if oob (ms_members m) idx then Some P_draw_state_unwrap else None.      (* :397 *)

  Definition orelse (a : option psite) (b : option psite) : option psite :=
    match a with Some p => Some p | None => b end.

  (* ---------------------------------------------------------------- bar level *)
  (** BarState::draw (state.rs:200-223); mirrors [Sys.bar_draw] *)
  Definition bar_draw_panics (s : sys) (b : N) (force : bool) (now : N) : option psite :=
    let br := get_bar s b in
    let force' := force || finished br in
    match b_target br with
    | THidden => None
    | TTerm tg =>
        let '(allowed, tg1) := tt_allow tg force' now in
        if negb allowed then None
        else dt_panics (frame_of br) (tt_n tg1) (tt_align tg1) (tt_below tg1) W H
    | TMulti idx =>
        let m := s_mp s in
        let bars := match ms_width W m with Some _ => frame_of br | None => [] end in
        orelse (ms_store_panics m idx)                                      (* state.rs:212 *)
               (ms_draw_panics (ms_store m idx [] bars) force' None now)    (* state.rs:222 *)
    end.

  (** BarState::println (state.rs:159-184) *)
  Definition bar_println_panics (s : sys) (b : N) (msg : text) (now : N) : option psite :=
    let br := get_bar s b in
    match b_target br with
    | THidden => None
    | TTerm tg => dt_panics (text_lines msg ++ frame_of br) (tt_n tg) (tt_align tg) (tt_below tg) W H
    | TMulti idx =>
        let m := s_mp s in
        let bars := match ms_width W m with Some _ => frame_of br | None => [] end in
        orelse (ms_store_panics m idx)
               (ms_draw_panics (ms_store m idx (text_lines msg) bars) true None now)
    end.

  (** BarState::suspend (state.rs:186-198) *)
  Definition bar_suspend_panics (s : sys) (b : N) (writes : list text) (now : N) : option psite :=
    let br := get_bar s b in
    match b_target br with
    | TMulti _ => ms_suspend_panics (s_mp s) writes now (s_calls s)
    | THidden => None
    | TTerm tg =>
        orelse (dt_panics [] (tt_n tg) (tt_align tg) (tt_below tg) W H)     (* :192 drawable.clear() *)
               (let '(tg1, e1, c1, _) := term_draw W H fails tg [] (s_calls s) in
                let '(e2, c2) := emit_each fails c1 (map TLine writes) in
                let s1 := set_s_calls (upd_bar s b (fun x => set_b_target x (TTerm tg1))) c2 in
                bar_draw_panics s1 b true now)                              (* :196 *)
    end.

  Definition bar_tick_panics (s : sys) (b : N) (now : N) : option psite :=
    bar_draw_panics (upd_bar s b (fun x => set_b_tick x (sat_add64 (b_tick x) 1))) b false now.

  Definition bar_pos_update_panics (s : sys) (b : N) (f : N -> N) (now : N) : option psite :=
    let s1 := upd_bar s b (fun x => set_b_pos x (f (b_pos x))) in
    let '(a, ap') := ap_allow (b_ap (get_bar s1 b)) now in
    let s2 := upd_bar s1 b (fun x => set_b_ap x ap') in
    if a then bar_tick_panics s2 b now else None.

  Definition bar_finish_panics (s : sys) (b : N) (k : fin) (now : N) : option psite :=
    bar_draw_panics (upd_bar s b (finish_upd k)) b true now.

  (** ProgressDrawTarget::mark_zombie (draw_target.rs:146-150) *)
  Definition mark_zombie_panics (s : sys) (b : N) : option psite :=
    match b_target (get_bar s b) with
    | TMulti idx => ms_mark_zombie_panics (s_mp s) idx
    | _ => None
    end.

  (** Drop for BarState (state.rs:226-240): finish (unless finished), then mark_zombie on the
      state the finish left behind *)
  Definition bar_drop_panics (s : sys) (b : N) (now : N) : option psite :=
    let br := get_bar s b in
    if finished br then mark_zombie_panics s b
    else orelse (bar_finish_panics s b (b_on_finish br) now)
                (mark_zombie_panics (fst (bar_finish W H fails s b (b_on_finish br) now)) b).

  (** ProgressBar::set_draw_target: disconnect (draw_target.rs:211-227) = Drawable::Multi.clear()
      of a member; then the assignment *)
  Definition bar_set_target_panics (s : sys) (b : N) (now : N) : option psite :=
    match b_target (get_bar s b) with
    | TMulti idx0 =>
        orelse (ms_store_panics (s_mp s) idx0)
               (ms_draw_panics (ms_store (s_mp s) idx0 [] []) true None now)
    | _ => None
    end.

  (** the argument of insert_before / insert_after is evaluated BEFORE `internalize` runs,
      i.e. also when the bar to insert is a member already *)
  Definition insert_ref_panics (s : sys) (bl : bloc) : option psite :=
    match bl with
    | BBefore r => if is_member s r then None else Some P_insert_before_index_unwrap
    | BAfter r => if is_member s r then None else Some P_insert_after_index_unwrap
    | _ => None
    end.

  (** One public call: the first panic site it reaches ([None]: it returns).  Same case
      structure as [Sys.step]. *)
  Definition step_panics (s : sys) (now : N) (o : op) : option psite :=
    match o with
    | OTick b => bar_tick_panics s b now
    | OInc b d => bar_pos_update_panics s b (fun p => wadd64 p d) now
    | ODec b d => bar_pos_update_panics s b (fun p => wsub64 p d) now
    | OSetPos b p => bar_pos_update_panics s b (fun _ => p) now
    | OSetLen b l => bar_draw_panics (upd_bar s b (fun x => set_b_len x (Some l))) b false now
    | OIncLen b d => bar_draw_panics (upd_bar s b (fun x => set_b_len x (option_map (fun l => sat_add64 l d) (b_len x)))) b false now
    | ODecLen b d => bar_draw_panics (upd_bar s b (fun x => set_b_len x (option_map (fun l => sat_sub l d) (b_len x)))) b false now
    | OUnsetLen b => bar_draw_panics (upd_bar s b (fun x => set_b_len x None)) b false now
    | OSetMsg b m => bar_draw_panics (upd_bar s b (fun x => set_b_msg x m)) b false now
    | OSetPrefix b m => bar_draw_panics (upd_bar s b (fun x => set_b_prefix x m)) b false now
    | OSetStyle _ _ => None
    | OPrintln b m => bar_println_panics s b m now
    | OSuspend b ws => bar_suspend_panics s b ws now
    | OReset b =>
        bar_draw_panics (upd_bar s b (fun x =>
           set_b_status (set_b_ap (set_b_pos x 0) (ap_reset (b_ap x) now)) InProgress)) b false now
    | OResetEta _ | OResetElapsed _ => None
    | OFinish b k => bar_finish_panics s b k now
    | OFinishUsingStyle b => bar_finish_panics s b (b_on_finish (get_bar s b)) now
    | OForceDraw b | OSetTabWidth b => bar_draw_panics s b true now
    | ODrop b => bar_drop_panics s b now
    | OInsert bl b =>
        orelse (insert_ref_panics s bl)                                     (* multi.rs:132 / :144 *)
        match b_target (get_bar s b) with
        | TMulti _ => None                                                  (* multi.rs:177 *)
        | _ =>
            let loc :=
              match bl with
              | BEnd => Some LEnd
              | BIndex i => Some (LIndex i)
              | BFromBack i => Some (LFromBack i)
              | BAfter r => match b_target (get_bar s r) with TMulti i => Some (LAfter i) | _ => None end
              | BBefore r => match b_target (get_bar s r) with TMulti i => Some (LBefore i) | _ => None end
              end in
            match loc with
            | None => None   (* not reached: insert_ref_panics fired *)
            | Some l =>
                orelse (ms_insert_panics (s_mp s) l)                        (* multi.rs:182 *)
                match ms_insert (s_mp s) l with
                | Some (m1, _) => bar_set_target_panics (set_s_mp s m1) b now     (* multi.rs:185 *)
                | None => None
                end
            end
        end
    | ORemove b =>
        match b_target (get_bar s b) with
        | TMulti idx =>
            let s1 := upd_bar s b (fun x => set_b_target x THidden) in
            orelse (ms_remove_idx_panics (s_mp s1) idx)                     (* multi.rs:166 *)
                   (ms_draw_panics (ms_remove_idx (s_mp s1) idx) true None now)   (* multi.rs:167 *)
        | _ => None
        end
    | OMPrintln m =>
        let ls := match m with [] => [mkline KEmpty []] | _ => map (mkline KText) (lines_of m) end in
        ms_draw_panics (s_mp s) true (Some ls) now
    | OMSuspend ws => ms_suspend_panics (s_mp s) ws now (s_calls s)
    | OMClear => ms_clear_panics (s_mp s)
    | OSetAlign _ => None
    end.
End WithTerminal.
End Pre_f8fa07f.

Definition step_panics_pre_f8fa07f := Pre_f8fa07f.step_panics.


(* ------------------------------------------------------------------ API misuse, enumerated *)
(** the handles a call goes through exist (ownership: a dropped handle cannot be used) *)
Definition handles_alive (s : sys) (o : op) : bool :=
  match op_bar o with Some b => alive s b | None => true end
  && match o with
     | OInsert (BAfter r) _ | OInsert (BBefore r) _ => alive s r
     | _ => true
     end.

(** the calls that panic BY CONTRACT: insert_before / insert_after relative to a bar that is not
    a member of the MultiProgress - and which site they hit *)
Definition misuse_site (s : sys) (o : op) : option psite :=
  match o with
  | OInsert (BBefore r) _ => if is_member s r then None else Some P_insert_before_index_unwrap
  | OInsert (BAfter r) _ => if is_member s r then None else Some P_insert_after_index_unwrap
  | _ => None
  end.

(* ------------------------------------------------------------------ histories *)
(** Since fix 7d42cff (the count is capped at the terminal height before it is used) no guard
    depends on the magnitude of last_line_count / zombie_lines_count any more: the theorems
    need no hypothesis about the counters. *)
Fixpoint run_panics (W H : N) (fails : N -> bool) (s : sys) (ops : list (N * op)) : option (nat * psite) :=
  match ops with
  | [] => None
  | (now, o) :: r =>
      match step_panics W H fails s now o with
      | Some p => Some (O, p)
      | None => option_map (fun kp => (S (fst kp), snd kp)) (run_panics W H fails (step_sys W H fails s now o) r)
      end
  end.

Fixpoint run_panics_pre_f8fa07f (W H : N) (fails : N -> bool) (s : sys) (ops : list (N * op)) : option (nat * psite) :=
  match ops with
  | [] => None
  | (now, o) :: r =>
      match step_panics_pre_f8fa07f W H fails s now o with
      | Some p => Some (O, p)
      | None => option_map (fun kp => (S (fst kp), snd kp)) (run_panics_pre_f8fa07f W H fails (step_sys W H fails s now o) r)
      end
  end.

(** decidable forms of the hypotheses (for the Examples) *)
Fixpoint hist_ok_b (W H : N) (fails : N -> bool) (s : sys) (ops : list (N * op)) : bool :=
  match ops with
  | [] => true
  | (now, o) :: r => op_ok s o && hist_ok_b W H fails (step_sys W H fails s now o) r
  end.
Definition init_ok_b (s : sys) : bool :=
  match ms_members (s_mp s), ms_free (s_mp s), ms_order (s_mp s) with
  | [], [], [] => forallb (fun x => match b_target x with TMulti _ => false | _ => true end) (s_bars s)
  | _, _, _ => false
  end.

(* ------------------------------------------------------------------ witnesses (props/C18.v) *)
Definition np_nofail : N -> bool := fun _ => false.
Definition np_tmpl : list tpart := [PLit [120]; PPos].        (* "x{pos}" *)
Definition np_sys : sys :=
  mksys [new_bar (Some 10) FAndLeave np_tmpl THidden 0; new_bar (Some 10) FAndLeave np_tmpl THidden 0;
         new_bar (Some 10) FAndLeave np_tmpl THidden 0; new_bar (Some 10) FAndLeave np_tmpl THidden 0]
        (new_ms (TTerm (new_ttarget None 0))) 0.
(** add a b c d; tick each; finish b, c; drop b, c (flagged: not at the head); finish a; drop a
    (head: reaped by mark_zombie).  The ordering is now [b; c], both zombies. *)
Definition np_ops : list (N * op) :=
  [(0, OInsert BEnd 0); (0, OInsert BEnd 1); (0, OInsert BEnd 2); (0, OInsert BEnd 3);
   (1, OTick 0); (1, OTick 1); (1, OTick 2); (1, OTick 3);
   (2, OFinish 1 FAndLeave); (2, OFinish 2 FAndLeave); (3, ODrop 1); (3, ODrop 2);
   (4, OFinish 0 FAndLeave); (5, ODrop 0)].
(** a history through insert_after, insert_before, insert_from_back, re-add, tick, println, suspend
    of a member and of the MultiProgress, remove, clear, drop at the head (mark_zombie reaps), drop
    behind the head (flag) and the draw that reaps it, under Bottom alignment, with failing calls *)
Definition np_ops2 : list (N * op) :=
  [(0, OInsert BEnd 0); (0, OInsert (BAfter 0) 1); (0, OInsert (BBefore 0) 2); (0, OInsert (BFromBack 1) 3);
   (0, OInsert BEnd 1); (1, OSetAlign Bottom); (1, OTick 0); (1, OInc 1 3); (1, OSetMsg 2 [109]); (2, OPrintln 3 [104; 10; 105]);
   (3, OSuspend 1 [[65]]); (4, OMSuspend [[66]; [67]]); (5, ORemove 3); (6, OMPrintln [112]);
   (7, OFinish 0 FAndLeave); (7, ODrop 0); (8, ODrop 2); (9, OMClear); (10, OTick 1); (11, OFinish 1 FAndClear); (12, ODrop 1)].
Definition np_fails2 : N -> bool := fun k => (k =? 7) || (30 <=? k) && (k <? 40).
