(** Correspondence entry points for the drawing system (Sys.v): a case is an initial
    configuration, a fault oracle, a timed op list and, per op, a 64-bit FNV-1a hash of what
    the implementation did (the TermLike calls that reached the recording terminal, the
    io::Result of the call, and the getters of every bar).  The checker recomputes the hashes
    with the model. *)
From IndModel Require Export Sys.
From Coq Require Import String Ascii.

(* texts are written as ASCII string literals in the case files *)
Definition t (s : string) : text := List.map N_of_ascii (list_ascii_of_string s).

Definition FNV_OFFSET : N := 14695981039346656037.
Definition FNV_PRIME : N := 1099511628211.
Definition hmix (h v : N) : N := (N.lxor h v * FNV_PRIME) mod U64.
Definition hmix_list (h : N) (vs : list N) : N := fold_left hmix vs h.
Definition hmix_text (h : N) (s : text) : N := hmix_list (hmix h (tlen s)) s.

Definition hash_termop (h : N) (o : termop) : N :=
  match o with
  | TUp n => hmix (hmix h 1) n
  | TDown n => hmix (hmix h 2) n
  | TClear => hmix h 3
  | TLine s => hmix_text (hmix h 4) s
  | TStr s => hmix_text (hmix h 5) s
  | TFlush => hmix h 6
  end.

Definition hash_bar (h : N) (b : bar) : N :=
  let h := hmix (hmix h 100) (b_pos b) in
  let h := match b_len b with Some l => hmix (hmix h 1) l | None => hmix h 0 end in
  let h := hmix h (if finished b then 1 else 0) in
  let h := hmix h (if b_alive b then 1 else 0) in
  hmix_text (hmix_text h (b_msg b)) (b_prefix b).

(* dropped bars have no handle left to query: their getters are not part of the observation *)
Definition hash_obs (e : list termop) (ok : bool) (bars : list bar) : N :=
  let h := fold_left hash_termop e FNV_OFFSET in
  let h := hmix h (if ok then 201 else 200) in
  fold_left (fun h b => if b_alive b then hash_bar h b else hmix h 99) bars h.

Inductive tinit := IHidden | ITerm (rate : option N).
Definition init_target (t : tinit) (now : N) : target :=
  match t with IHidden => THidden | ITerm r => TTerm (new_ttarget r now) end.

Record syscase := mkcase {
  c_W : N; c_H : N;
  c_fail_at : list N; c_fail_from : option N;
  c_mp : tinit;
  c_bars : list (option N * fin * list tpart * tinit);
  c_ops : list (N * op);
  c_expected : list N }.

Definition case_fails (c : syscase) (k : N) : bool :=
  memN k (c_fail_at c) || match c_fail_from c with Some f => f <=? k | None => false end.

Definition case_init (c : syscase) : sys :=
  mksys (map (fun '(l, fk, tm, ti) => new_bar l fk tm (init_target ti 0) 0) (c_bars c))
        (new_ms (init_target (c_mp c) 0)) 0.

Fixpoint run_hashes (W H : N) (fails : N -> bool) (s : sys) (ops : list (N * op)) : list N :=
  match ops with
  | [] => []
  | (now, o) :: r =>
      let '(s', e, ok) := step W H fails s now o in
      hash_obs e ok (s_bars s') :: run_hashes W H fails s' r
  end.

Definition sys_check (c : syscase) : bool :=
  list_eqb N.eqb (run_hashes (c_W c) (c_H c) (case_fails c) (case_init c) (c_ops c)) (c_expected c).

(* for debugging a mismatch: the model's full trace *)
Fixpoint run_trace (W H : N) (fails : N -> bool) (s : sys) (ops : list (N * op))
  : list (list termop * bool * list (N * option N * bool)) :=
  match ops with
  | [] => []
  | (now, o) :: r =>
      let '(s', e, ok) := step W H fails s now o in
      (e, ok, map (fun b => (b_pos b, b_len b, finished b)) (s_bars s')) :: run_trace W H fails s' r
  end.
Definition sys_trace (c : syscase) :=
  run_trace (c_W c) (c_H c) (case_fails c) (case_init c) (c_ops c).
