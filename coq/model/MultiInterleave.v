(** MultiProgress under concurrent use (property C02, clause 3): statement vocabulary.
    Definitions only; nothing in Sys.v / MultiSpec.v / MultiLatest.v is changed.

    Part 1 - the atomic-step assumption, named.  indicatif serialises the public calls on a
    MultiProgress and its member bars by two kinds of locks (the bar mutex, the MultiState RwLock);
    a call whose state accesses all lie inside ONE outermost critical section is an atomic step.
    Under that assumption a concurrent execution of per-thread call lists [ts] IS a sequential run
    of [Sys.step] over some interleaving [l] of [ts].  [AtomicExec] says exactly this and nothing
    else; which calls are one critical section is checked on the footprint table generated from
    the source (model/Brackets.v, theorem C02_atomic_brackets_generated); the calls that are NOT
    (add / insert*: 3-4 sections) are treated in part 2.

    Part 2 - add / insert* split into their critical sections ([mstep], [sec_step]) and the
    schedule condition under which the split execution equals the atomic one ([sched_ok]). *)
From IndModel Require Export MultiLatest.

(* ------------------------------------------------------------------ part 1 *)
(** [Subseq t l]: the calls of thread [t] occur in [l] in program order *)
Inductive Subseq {A} : list A -> list A -> Prop :=
| Sub_nil : forall l, Subseq [] l
| Sub_skip : forall t x l, Subseq t l -> Subseq t (x :: l)
| Sub_take : forall t x l, Subseq t l -> Subseq (x :: t) (x :: l).

(** THE ATOMIC-STEP ASSUMPTION: [l] is an interleaving of the per-thread call lists [ts] and every
    call of [l] is possible when it is made ([hist_ok]: handles in use are not dropped,
    insert_before/after name a member) - the behaviour of the
    concurrent program is the sequential run [run W H fails s0 l]. *)
Definition AtomicExec (W H : N) (fails : N -> bool) (s0 : sys)
    (ts : list (list (N * op))) (l : list (N * op)) : Prop :=
  Merge ts l /\ hist_ok W H fails s0 l.

Section Frames.
  Variable W H : N.
  Variable fails : N -> bool.
  Variable s0 : sys.

  (** the system state before call number [k] of [l] (calls are numbered from 0) *)
  Definition state_before (l : list (N * op)) (k : nat) : sys := run W H fails s0 (firstn k l).
  (** ... and right after it *)
  Definition state_after (l : list (N * op)) (k : nat) : sys := run W H fails s0 (firstn (S k) l).

  (** the "latest drawn state" ghost (MultiLatest.v) right after call number [k] of [l]: what a
      frame composed during that call shows for every slot *)
  Definition ghost_after (l : list (N * op)) (k : nat) : lghost :=
    snd (lrun W H fails s0 0 lg_empty (firstn (S k) l)).

  (** [(m, f, ex)] is a MultiState::draw made by call number [k] of [l]: on MultiState [m], with
      force flag [f] and the println lines [ex] *)
  Definition DrawAt (l : list (N * op)) (k : nat) (m : mstate) (f : bool) (ex : option (list line)) : Prop :=
    exists now o, nth_error l k = Some (now, o)
                  /\ In (m, f, ex) (step_draws W H fails (state_before l k) now o).

  (** such a draw is PAINTED (not refused by the refresh limiter of the MultiProgress target;
      C02_frame: it then makes exactly one draw_to_term call with [ms_frame m ex]) *)
  Definition PaintedAt (l : list (N * op)) (k : nat) (m : mstate) (f : bool) (ex : option (list line)) : Prop :=
    exists now o, nth_error l k = Some (now, o)
                  /\ In (m, f, ex) (step_draws W H fails (state_before l k) now o)
                  /\ ms_attempt W m f ex now = true.
End Frames.

(** the println lines handed to a MultiState::draw *)
Definition extra_lines (ex : option (list line)) : list line :=
  match ex with Some e => e | None => [] end.

(* ------------------------------------------------------------------ part 2: the critical sections of add / insert* *)
(** MultiProgress::{add, insert, insert_from_back} are THREE critical sections, insert_before /
    insert_after FOUR (src/multi.rs: the five entry points, `internalize`; after fix bee77c9;
    footprints in gen/LockFootprints.v, bound in Brackets.allowed_sections):

      [MRead k r]      (insert_before/after only) bar lock of the reference bar [r]:
                       `r.index().unwrap()` - the slot of [r], kept in a local of the call
      [MCheck k b]     bar lock of [b]: is [b]'s draw target a remote of this MultiProgress already?
                       (fix bee77c9: if so the call returns, "no effect")
      [MAlloc k bl b]  MultiState lock: `idx = state.insert(location)` - a fresh or recycled slot
                       holding the default member (no lines, not a zombie) enters the ordering
      [MAttach k b]    bar lock of [b] (inside it the MultiState lock, for the disconnect of the old
                       target): `b.set_draw_target(new_remote(idx))`

    [k] names the call (its locals `idx` / `is_member`); between the sections every other thread
    may run.  Every other call of the model is one section ([MCall]).  (Dropping the last handle is
    three sections over the MultiState lock alone: width query, final draw, mark_zombie; these ARE
    the two model calls OFinishUsingStyle; ODrop, theorem C04_drop_unfinished, and nobody else
    holds a handle of that bar - no new definition is needed for it.)

    A panic (`unwrap()` on a reference bar that is not a member / whose slot has gone) is a no-op
    here, as in Sys.step; that the second one happens WITH THE MultiState LOCK HELD (poisoning it)
    is outside the model (docs/C02.md, findings). *)
Inductive mstep :=
| MCall (o : op)
| MRead (k r : N)
| MCheck (k b : N)
| MAlloc (k : N) (bl : bloc) (b : N)
| MAttach (k b : N).

(** the locals of the calls in flight: the slot index (read for the reference bar, then the one
    allocated) and the result of the membership check *)
Record locals := mklc { lc_idx : N -> option N; lc_skip : N -> bool }.
Definition lc0 : locals := mklc (fun _ => None) (fun _ => false).
Definition set_idx (lc : locals) (k : N) (v : option N) : locals := mklc (fupd (lc_idx lc) k v) (lc_skip lc).
Definition set_skip (lc : locals) (k : N) (v : bool) : locals := mklc (lc_idx lc) (fupd (lc_skip lc) k v).

(** ProgressBar::index *)
Definition bar_index (s : sys) (r : N) : option N :=
  match b_target (get_bar s r) with TMulti i => Some i | _ => None end.

(** the draw target of bar [b] replaced *)
Definition retarget (s : sys) (b : N) (t : target) : sys := upd_bar s b (fun x => set_b_target x t).

(** the sections of one public call *)
Definition op_sections (k : N) (o : op) : list mstep :=
  match o with
  | OInsert (BAfter r) b => [MRead k r; MCheck k b; MAlloc k (BAfter r) b; MAttach k b]
  | OInsert (BBefore r) b => [MRead k r; MCheck k b; MAlloc k (BBefore r) b; MAttach k b]
  | OInsert bl b => [MCheck k b; MAlloc k bl b; MAttach k b]
  | _ => [MCall o]
  end.

(** the atomic history a section history stands for: every add/insert* at its allocation section *)
Definition atom1 (x : N * mstep) : list (N * op) :=
  match snd x with
  | MCall o => [(fst x, o)]
  | MAlloc _ bl b => [(fst x, OInsert bl b)]
  | MRead _ _ | MCheck _ _ | MAttach _ _ => []
  end.
Definition atomize (h : list (N * mstep)) : list (N * op) := flat_map atom1 h.

(** allocated, not yet attached *)
Record pent := mkpe { pe_call : N; pe_bar : N; pe_slot : N }.
Definition pending_bar (pend : list pent) (b : N) : bool := existsb (fun p => N.eqb (pe_bar p) b) pend.

(** the call goes through a handle of bar [b] (as subject or as reference bar) *)
Definition mentions (o : op) (b : N) : bool :=
  match op_bar o with Some x => N.eqb x b | None => false end
  || match o with
     | OInsert (BAfter r) _ | OInsert (BBefore r) _ => N.eqb r b
     | _ => false
     end.

Section Sections.
  Variable W H : N.
  Variable fails : N -> bool.

  (** the location handed to MultiState::insert: the reference slot is the one READ EARLIER *)
  Definition sec_iloc (lc : locals) (k : N) (bl : bloc) : option iloc :=
    match bl with
    | BEnd => Some LEnd
    | BIndex i => Some (LIndex i)
    | BFromBack i => Some (LFromBack i)
    | BAfter _ => option_map LAfter (lc_idx lc k)
    | BBefore _ => option_map LBefore (lc_idx lc k)
    end.

  (** what the allocation section does: nothing if the check said "member" *)
  Definition sec_alloc (s : sys) (lc : locals) (k : N) (bl : bloc) : option (mstate * N) :=
    if lc_skip lc k then None
    else match sec_iloc lc k bl with Some l => ms_insert (s_mp s) l | None => None end.

  Definition sec_step (st : sys * locals) (now : N) (x : mstep) : sys * locals * list termop :=
    let '(s, lc) := st in
    match x with
    | MCall o => (step_sys W H fails s now o, lc, step_out W H fails s now o)
    | MRead k r => (s, set_idx lc k (bar_index s r), [])
    | MCheck k b => (s, set_skip lc k (is_member s b), [])
    | MAlloc k bl _ =>
        match sec_alloc s lc k bl with
        | Some (m1, idx) => (set_s_mp s m1, set_idx lc k (Some idx), [])
        | None => (s, set_idx lc k None, [])
        end
    | MAttach k b =>
        match lc_idx lc k with
        | Some idx => let '(s', e) := bar_set_target W H fails s b (TMulti idx) now in (s', lc, e)
        | None => (s, lc, [])
        end
    end.

  Fixpoint sec_run (st : sys * locals) (h : list (N * mstep)) : sys * locals * list termop :=
    match h with
    | [] => (fst st, snd st, [])
    | (now, x) :: r =>
        let '(s1, lc1, e1) := sec_step st now x in
        let '(s2, lc2, e2) := sec_run (s1, lc1) r in
        (s2, lc2, e1 ++ e2)
    end.

  (** a run of the atomic model with the TermLike calls it emits *)
  Fixpoint run_out (s : sys) (h : list (N * op)) : sys * list termop :=
    match h with
    | [] => (s, [])
    | (now, o) :: r => let '(s2, e2) := run_out (step_sys W H fails s now o) r in
                       (s2, step_out W H fails s now o ++ e2)
    end.

  Definition pend_step (s : sys) (lc : locals) (pend : list pent) (x : mstep) : list pent :=
    match x with
    | MAlloc k bl b =>
        match sec_alloc s lc k bl with
        | Some (_, idx) => mkpe k b idx :: pend
        | None => pend
        end
    | MAttach k b =>
        match lc_idx lc k with
        | Some _ => filter (fun p => negb (N.eqb (pe_bar p) b)) pend
        | None => pend
        end
    | _ => pend
    end.

  (** THE SCHEDULES COVERED.
      (S1) while a bar [b] is between its allocation and its attach section no other section goes
           through a handle of [b] (as subject, as reference bar, or as the bar of another add);
      (S2) the slot a reference bar [r] had when insert_before/after read it is still the slot of
           [r] when the allocation section uses it (no remove(r) in between);
      (S3) the answer of the membership check is still true when the allocation section runs (no
           add/remove of the same bar through another handle in between).
      An attach section belongs to a pending allocation of the same call, or does nothing. *)
  Definition sched1 (s : sys) (lc : locals) (pend : list pent) (x : mstep) : Prop :=
    match x with
    | MCall o => forall p, In p pend -> mentions o (pe_bar p) = false
    | MRead k r => pending_bar pend r = false
    | MCheck k b => pending_bar pend b = false
    | MAlloc k bl b =>
        pending_bar pend b = false /\ lc_skip lc k = is_member s b
        /\ match bl with
           | BAfter r | BBefore r => pending_bar pend r = false /\ lc_idx lc k = bar_index s r
           | _ => True
           end
    | MAttach k b => lc_idx lc k = None \/ exists idx, In (mkpe k b idx) pend /\ lc_idx lc k = Some idx
    end.

  Fixpoint sched_ok (s : sys) (lc : locals) (pend : list pent) (h : list (N * mstep)) : Prop :=
    match h with
    | [] => True
    | (now, x) :: r =>
        sched1 s lc pend x
        /\ let '(s1, lc1, _) := sec_step (s, lc) now x in sched_ok s1 lc1 (pend_step s lc pend x) r
    end.

  Fixpoint pend_run (s : sys) (lc : locals) (pend : list pent) (h : list (N * mstep)) : list pent :=
    match h with
    | [] => pend
    | (now, x) :: r => let '(s1, lc1, _) := sec_step (s, lc) now x in
                       pend_run s1 lc1 (pend_step s lc pend x) r
    end.
End Sections.

(** the bars of the pending entries already attached *)
Definition retargets (pend : list pent) (s : sys) : sys :=
  fold_left (fun s p => retarget s (pe_bar p) (TMulti (pe_slot p))) pend s.

(** threads as lists of named calls (name, time, call); their section lists and their call lists *)
Definition thread_sections (t : list (N * N * op)) : list (N * mstep) :=
  flat_map (fun c => map (pair (snd (fst c))) (op_sections (fst (fst c)) (snd c))) t.
Definition thread_calls (t : list (N * N * op)) : list (N * op) :=
  map (fun c => (snd (fst c), snd c)) t.

(* ------------------------------------------------------------------ part 3: inc / dec / set_position are not one bracket either *)
(** ProgressBar::{inc, dec, set_position} (src/progress_bar.rs:243-249, 252-258, 295-301):
        self.pos.inc(delta);  let now = Instant::now();  if self.pos.allow(now) { self.tick_inner(now); }
    The position store and the position limiter are plain atomics touched BEFORE any lock; only
    `tick_inner` takes the bar mutex (and inside it the MultiState lock).  The lock-footprint table
    has no event for them, so C02_atomic_brackets_generated says nothing about these accesses.
    [PStore o]   the atomic store of the call [o] (an OInc / ODec / OSetPos), no lock;
    [PBracket b] the rest of the call: position limiter, then - if it agrees - the locked
                 tick + draw (allow and tick are merged into one step here: a coarser split than
                 the code's, enough for the witness below).
    With ONE thread issuing position updates per bar the two sections of a call are adjacent as far
    as that bar is concerned and [PStore o; PBracket b] IS [step o] (C02_pos_sections_adjacent).
    With TWO writers on one bar they interleave: T1 stores, T2 stores, T2 paints, T1 paints - both
    frames show the second value; no interleaving of the two atomic calls paints that
    (C02_pos_sections_two_writers_refuted).  Nothing the property forbids happens (every painted
    position is a value the counter held), but it is outside [AtomicExec]. *)
Inductive pstep :=
| PCall (o : op)
| PStore (o : op)
| PBracket (b : N).

Definition pos_store (s : sys) (o : op) : sys :=
  match o with
  | OInc b d => upd_bar s b (fun x => set_b_pos x (wadd64 (b_pos x) d))
  | ODec b d => upd_bar s b (fun x => set_b_pos x (wsub64 (b_pos x) d))
  | OSetPos b p => upd_bar s b (fun x => set_b_pos x p)
  | _ => s
  end.

Section PosSections.
  Variable W H : N.
  Variable fails : N -> bool.

  Definition pos_bracket (s : sys) (b : N) (now : N) : sys * list termop :=
    let '(a, ap') := ap_allow (b_ap (get_bar s b)) now in
    let s2 := upd_bar s b (fun x => set_b_ap x ap') in
    if a then bar_tick W H fails s2 b now else (s2, []).

  Definition psec_step (s : sys) (now : N) (x : pstep) : sys * list termop :=
    match x with
    | PCall o => (step_sys W H fails s now o, step_out W H fails s now o)
    | PStore o => (pos_store s o, [])
    | PBracket b => pos_bracket s b now
    end.

  Fixpoint psec_run (s : sys) (h : list (N * pstep)) : sys * list termop :=
    match h with
    | [] => (s, [])
    | (now, x) :: r => let '(s1, e1) := psec_step s now x in
                       let '(s2, e2) := psec_run s1 r in (s2, e1 ++ e2)
    end.
End PosSections.

(* ------------------------------------------------------------------ part 4: SEVERAL writers per bar, at the granularity of the code *)
(** ProgressBar::{inc, dec, set_position} as the code has them (src/progress_bar.rs:243-249, 252-258,
    295-301; src/state.rs AtomicPosition):
        [QStore b w]            one atomic read-modify-write / store on the counter `pos` of bar b; no lock
        (PAllow)                `pos.allow(now)`: loads and stores of the limiter's capacity / prev; with
                                two writers they interleave arbitrarily, so its verdict is an ORACLE BIT of
                                the call (every verdict sequence is covered); it does not touch the counter
        [QBracket b None p]     only when the verdict is true: bar mutex; `tick_inner` reads `pos`
                                atomically, renders and draws; [p] = the frame is painted (a second oracle
                                bit: the refresh limiter of the draw target may refuse it); unlock
    Calls that mutate under the lock (finish*: position := length, then a forced draw) are one
    bracket with the store inside: [QBracket b (Some w) true]; tick / set_message / ... are
    [QBracket b None p].  Brackets on one bar are totally ordered by its mutex, stores are atomic:
    a section-level execution is a LIST of sections.  The machine below keeps, per bar, the history
    of values the counter held (oldest first; the counter is its last element) and the log of
    painted frames (bar, index of the shown value in that bar's history, shown value).  It is an
    abstraction of Sys.v restricted to what clause 3 says about positions: [pos_store] (part 3)
    writes [b_pos] exactly as [wr_apply] does (C02_pos_store_is_counter_write), a painted bracket
    renders [frame_of] of the bar record with the counter value it read.  Tie to the source: reading
    of progress_bar.rs / state.rs + the two-writers-per-bar stress oracle of c02.rs; the lock
    footprint table has no event for the atomics. *)
Inductive wr := WInc (d : N) | WDec (d : N) | WSet (p : N).
Definition wr_apply (w : wr) (v : N) : N :=
  match w with WInc d => wadd64 v d | WDec d => wsub64 v d | WSet p => p end.

Inductive qstep :=
| QStore (b : N) (w : wr)
| QBracket (b : N) (w : option wr) (paints : bool).

Record qst := mkq { q_hist : N -> list N; q_log : list (N * nat * N) }.
Definition q_init (c0 : N -> N) : qst := mkq (fun b => [c0 b]) [].
(** the counter of bar b now *)
Definition q_cnt (st : qst) (b : N) : N := last (q_hist st b) 0.

Definition q_store (st : qst) (b : N) (w : wr) : qst :=
  mkq (fupd (q_hist st) b (q_hist st b ++ [wr_apply w (q_cnt st b)])) (q_log st).

Definition q_step (st : qst) (x : qstep) : qst :=
  match x with
  | QStore b w => q_store st b w
  | QBracket b ow paints =>
      let st1 := match ow with Some w => q_store st b w | None => st end in
      if paints
      then mkq (q_hist st1) (q_log st1 ++ [(b, Nat.pred (length (q_hist st1 b)), q_cnt st1 b)])
      else st1
  end.
Definition q_run (st : qst) (l : list qstep) : qst := fold_left q_step l st.

(** "never older": every later frame of the same bar shows an index at least as large *)
Fixpoint log_mono (log : list (N * nat * N)) : Prop :=
  match log with
  | [] => True
  | e :: r => (forall e', In e' r -> fst (fst e') = fst (fst e) -> (snd (fst e) <= snd (fst e'))%nat) /\ log_mono r
  end.

(** what the last painted frame of bar b shows (index, value) *)
Definition last_shown (log : list (N * nat * N)) (b : N) : option (nat * N) :=
  fold_left (fun acc e => if N.eqb (fst (fst e)) b then Some (snd (fst e), snd e) else acc) log None.

(** the section writes the counter of bar b *)
Definition stores_on (b : N) (x : qstep) : bool :=
  match x with
  | QStore b' _ => N.eqb b' b
  | QBracket b' (Some _) _ => N.eqb b' b
  | QBracket _ None _ => false
  end.

(** public calls with their two oracle bits (verdict of the position limiter, paint verdict of the
    draw target), and their sections *)
Inductive qcall :=
| QCPos (b : N) (w : wr)          (* inc / dec / set_position *)
| QCDraw (b : N)                   (* tick, set_message, ...: one bracket, no counter write *)
| QCFinish (b : N) (p : N).        (* finish*: position := p inside the bracket, forced draw *)
Definition qcall_sections (c : qcall * bool * bool) : list qstep :=
  let '(call, verdict, paints) := c in
  match call with
  | QCPos b w => QStore b w :: (if verdict then [QBracket b None paints] else [])
  | QCDraw b => [QBracket b None paints]
  | QCFinish b p => [QBracket b (Some (WSet p)) true]
  end.
Definition qthread_sections (t : list (qcall * bool * bool)) : list qstep := flat_map qcall_sections t.

(* ------------------------------------------------------------------ part 5: one frame reads the counter SEVERAL times *)
(** Inside one bracket the code does not read `pos` once: `update_estimate_and_draw` loads it
    (state.rs:149), `format_state` loads it once for {pos} / {human_pos} / the byte keys
    (style.rs:246), `state.fraction()` loads it again for {bar} / {wide_bar} / {percent} /
    {percent_precise} (state.rs:286-287), `eta()` / `per_sec()` again - all plain loads, while the
    stores of inc / dec / set_position of OTHER threads are not under the bar mutex.  At read
    granularity a frame is a sequence of READS with foreign stores allowed between them.  [q_read b]
    = one such load, logged like a paint of part 4 (bar, index into the history, value); a frame with
    two position-dependent key groups = [q_read b; foreign stores; q_read b].
    Sys.v's template alphabet (PLit / PMsg / PPrefix / PPos / PLen / PSpinner / PNewLine) has ONE
    position-dependent group (PPos; PLen falls back to it), so its frames read once: the theorems
    over Sys.v are about single-read frames.  Templates with {bar} / {percent} / {eta} next to {pos}
    are outside that alphabet; for them "every painted frame shows a state the bar really had"
    FAILS with a concurrent writer: open finding D33 `torn-position-read-within-one-frame`
    (C02_frame_single_state_refuted; exhibit in c02.rs). *)
Definition q_read (b : N) : qstep := QBracket b None true.
(** a frame of bar b with two reads and the stores [ws] of other threads between them *)
Definition frame2 (b : N) (ws : list wr) : list qstep := q_read b :: map (QStore b) ws ++ [q_read b].
