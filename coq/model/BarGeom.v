(** C13 – progress-bar geometry (and the fraction clause of C07).

    Bit-exact, executable transcription (Flocq [BinarySingleNaN], binary32 =
    prec 24 / emax 128, round-to-nearest-even) of (line numbers: /repo HEAD 7d42cff)

      ProgressState::fraction            /repo/src/state.rs:286-295
      ProgressStyle::format_bar          /repo/src/style.rs:193-234
      BarDisplay / RepeatedStringDisplay /repo/src/style.rs:698-729  (Display)
      the "bar" arm of format_state      /repo/src/style.rs:267-276  (width.unwrap_or(20))
      PaddedStringDisplay, no-excess arm /repo/src/style.rs:757-771  ({bar:N} is padded to N)
      WideElement::expand, Bar arm       /repo/src/style.rs:456-464  ({wide_bar})

    Definitions only; the proofs are in proofs/BarGeomProofs.v.
    usize is 64 bits (x86_64, the platform the harness runs on). *)
From IndModel Require Export Base.
From IndGen Require Import Constants.
From Flocq Require Import Core BinarySingleNaN.
Open Scope N_scope.

(** ** vocabulary of the statements in props/C13.v (hypotheses only; nothing below computes with them)
    [W24] = 2^24: every integer up to it is a binary32 value - the bound on bar widths (the code has
    u16 <= 65535) and, in G7 / G2 / fraction_below_one, on the length.
    [len_wf]: a known length is a u64. *)
Definition W24 : N := 16777216.
Definition len_wf (len : option N) : Prop := match len with Some l => l < U64 | None => True end.

(** ** binary32 *)
Notation f32_prec := 24%Z (only parsing).
Notation f32_emax := 128%Z (only parsing).
Definition f32_Hprec : FLX.Prec_gt_0 f32_prec := eq_refl.
Definition f32_Hmax : Prec_lt_emax f32_prec f32_emax := eq_refl.
Definition f32 : Set := binary_float f32_prec f32_emax.

Definition f_zero : f32 := B754_zero false.                       (* 0.0 *)
Definition f_one : f32 := @Bone f32_prec f32_emax f32_Hprec f32_Hmax. (* 1.0 *)

(** [n as f32] for an unsigned integer: round to nearest, ties to even
    (u64::MAX as f32 = 2^64, finite). *)
Definition f_of_N (n : N) : f32 :=
  @binary_normalize f32_prec f32_emax f32_Hprec f32_Hmax mode_NE (Z.of_N n) 0 false.

Definition f_mul (a b : f32) : f32 := @Bmult f32_prec f32_emax f32_Hprec f32_Hmax mode_NE a b.
Definition f_div (a b : f32) : f32 := @Bdiv f32_prec f32_emax f32_Hprec f32_Hmax mode_NE a b.
Definition f_sub (a b : f32) : f32 := @Bminus f32_prec f32_emax f32_Hprec f32_Hmax mode_NE a b.
(** [a < b] on f32: false when either is NaN *)
Definition f_lt (a b : f32) : bool := Bltb a b.

(** [x as usize]: NaN -> 0, truncation toward zero, saturating at 0 and usize::MAX *)
Definition USIZE_MAX : N := U64MAX.
Definition f_to_usize (x : f32) : N :=
  match x with
  | B754_nan => 0
  | B754_infinity s => if s then 0 else USIZE_MAX
  | _ => let z := Btrunc x in
         if (z <? 0)%Z then 0 else N.min USIZE_MAX (Z.to_N z)
  end.

(** [f32::trunc] and [f32::fract] (= self - self.trunc()) *)
Definition f_trunc (x : f32) : f32 := @Bnearbyint f32_prec f32_emax f32_Hmax mode_ZR x.
Definition f_fract (x : f32) : f32 := f_sub x (f_trunc x).

(** [f32::clamp(0.0, 1.0)]:  if self < min {min} ; if self > max {max} ; NaN stays NaN *)
Definition f_clamp01 (x : f32) : f32 :=
  if f_lt x f_zero then f_zero else if f_lt f_one x then f_one else x.

(** ** ProgressState::fraction  (state.rs:286-295)
      let pct = match (pos, self.len) {
          (_, None) => 0.0,
          (_, Some(0)) => 1.0,
          (0, _) => 0.0,
          (pos, Some(len)) => pos as f32 / len as f32,
      };
      pct.clamp(0.0, 1.0) *)
Definition fraction (pos : N) (len : option N) : f32 :=
  f_clamp01
    match len with
    | None => f_zero
    | Some 0 => f_one
    | Some l => if pos =? 0 then f_zero else f_div (f_of_N pos) (f_of_N l)
    end.

(** ** ProgressStyle::format_bar  (style.rs:193-234) *)
Record bar := mkbar {
  b_cells : N;          (* width / char_width *)
  b_fill : f32;         (* fract * cells as f32 *)
  b_filled : N;         (* entirely_filled *)
  b_cur : option N;     (* index of the partial cell, Some iff head = 1 *)
  b_bg : N              (* background cells *)
}.

Definition b_head (b : bar) : N := match b_cur b with Some _ => 1 | None => 0 end.

Definition format_bar (fract : f32) (width c nchars : N) : bar :=
  let w := width / c in                               (* :195  (c > 0: builder assert, style.rs:153-156) *)
  let fill := f_mul fract (f_of_N w) in               (* :197 *)
  let filled := f_to_usize fill in                    (* :199 *)
  let head := f_lt f_zero fill && (filled <? w) in    (* :202 *)
  let cur :=
    if head then
      let n := nchars - 2 in                          (* :206 saturating_sub *)
      Some (if n <=? 1 then 1                          (* :207-210 *)
            else n - f_to_usize (f_mul (f_fract fill) (f_of_N n)))  (* :214 saturating_sub *)
    else None in
  let bg := (w - filled) - (if head then 1 else 0) in (* :222 saturating_sub twice *)
  mkbar w fill filled cur bg.

(** ** Display of the bar (style.rs:705-729): indices into progress_chars, one per cell *)
Definition rep {A} (n : N) (x : A) : list A := repeat x (N.to_nat n).

Definition bar_cells (b : bar) (nchars : N) : list N :=
  rep (b_filled b) 0
  ++ match b_cur b with Some i => [i] | None => [] end
  ++ rep (b_bg b) (nchars - 1).

(** text of the bar: every cell is the cluster at its index (a cluster = list of code points);
    [chars[i]] out of range panics in Rust – modelled by [None] *)
Fixpoint cells_text (chars : list (list N)) (cells : list N) : option (list N) :=
  match cells with
  | [] => Some []
  | i :: r =>
      match nth_error chars (N.to_nat i), cells_text chars r with
      | Some s, Some t => Some (s ++ t)
      | _, _ => None
      end
  end.

Definition nlen {A} (l : list A) : N := N.of_nat (length l).

Definition bar_text (chars : list (list N)) (c : N) (fract : f32) (width : N) : option (list N) :=
  cells_text chars (bar_cells (format_bar fract width c (nlen chars)) (nlen chars)).

(** columns of a bar: every cluster is [c] columns wide *)
Definition bar_cols (b : bar) (c nchars : N) : N := c * nlen (bar_cells b nchars).

(** ** {bar:N} / {bar}: style.rs:267-276 then the padding of style.rs:369-382, 757-771.
    The bar never exceeds N columns, so only the padding arm runs. *)
Inductive align := ALeft | ACenter | ARight.
Definition SP : N := 32.

Definition pad_cols (a : align) (diff : N) : N * N :=
  match a with
  | ALeft => (0, diff)
  | ARight => (diff, 0)
  | ACenter => (diff / 2, diff - diff / 2)
  end.

(** [w = None]: "{bar}", 20 columns, not padded.  [w = Some N]: "{bar:N}" *)
Definition bar_line (chars : list (list N)) (c : N) (w : option N) (a : align)
           (pos : N) (len : option N) : option (list N) :=
  let fr := fraction pos len in
  match w with
  | None => bar_text chars c fr DEFAULT_BAR_WIDTH
  | Some n =>
      match bar_text chars c fr n with
      | None => None
      | Some t =>
          let cols := bar_cols (format_bar fr n c (nlen chars)) c (nlen chars) in
          let '(l, r) := pad_cols a (n - cols) in
          Some (rep l SP ++ t ++ rep r SP)
      end
  end.

(** ** {wide_bar}: style.rs:456-464.  [pre]/[suf] is the rest of the line (text before /
    after the placeholder), [rest] its width in columns, [tw] the terminal width. *)
Definition wide_left (tw rest : N) : N := tw - rest.           (* :456 saturating_sub *)

Definition wide_line (chars : list (list N)) (c : N) (pre suf : list N) (rest tw : N)
           (pos : N) (len : option N) : option (list N) :=
  match bar_text chars c (fraction pos len) (wide_left tw rest) with
  | None => None
  | Some t => Some (pre ++ t ++ suf)
  end.

Definition wide_cols (c rest tw : N) (pos : N) (len : option N) (nchars : N) : N :=
  rest + bar_cols (format_bar (fraction pos len) (wide_left tw rest) c nchars) c nchars.

(** ** correspondence entry point *)
Inductive bar_tpl :=
| TBar (w : option N) (a : align)                  (* "{bar}" / "{bar:N}" / "{bar:>N}" / "{bar:^N}" *)
| TWide (pre suf : list N) (rest tw : N).          (* "PRE{wide_bar}SUF" on a terminal of width tw *)

(** raw IEEE bits of an f32, to compare fraction() itself *)
Definition f_bits (x : f32) : N :=
  match x with
  | B754_zero s => if s then 2147483648 else 0
  | B754_infinity s => if s then 4286578688 else 2139095040
  | B754_nan => 2143289344
  | B754_finite s m e _ =>
      let sb := if s then 2147483648 else 0 in
      if (Zpos m <? 8388608)%Z then sb + Npos m          (* subnormal: e = -149 *)
      else sb + Z.to_N (e + 150) * 8388608 + (Npos m - 8388608)
  end.

(** the observed line is run-length encoded: (code point, repetitions) *)
Definition unrle (l : list (N * N)) : list N := flat_map (fun p => rep (snd p) (fst p)) l.

(** case = (progress chars, char width, template, pos, len, observed fraction bits, observed line) *)
Definition bar_check (cs : list (list N) * N * bar_tpl * N * option N * N * list (N * N)) : bool :=
  let '(chars, c, tpl, pos, len, fb, obs) := cs in
  N.eqb (f_bits (fraction pos len)) fb &&
  option_eqb (list_eqb N.eqb)
    (match tpl with
     | TBar w a => bar_line chars c w a pos len
     | TWide pre suf rest tw => wide_line chars c pre suf rest tw pos len
     end)
    (Some (unrle obs)).
