(** C12 – field width, alignment and truncation.
    Transcribes  PaddedStringDisplay::fmt          (/repo/src/style.rs:734-769),
                 the width/None split of a placeholder (src/style.rs:365-384),
                 WideElement::Message expansion        (src/style.rs:437-482, arm 461-480).
                 a placeholder with a `.STYLE` part: s.apply_to(..) around the field
                 (HEAD 7d42cff src/style.rs:378-385; [styled_field_line], the style's texts are data).
    Line numbers refer to /repo at commit 96a75c4; at HEAD 7d42cff every one of them is 4 higher
    (fix 6ff82af inserted 2 lines at style.rs:157 and 2 at :277; the code below :280 is unchanged:
    PaddedStringDisplay::fmt is style.rs:738-773, WideElement::expand 447-486 today).

    A string is a list of characters; each character carries its code point and its
    terminal column width.  The UTF-8 byte length is COMPUTED from the code point
    ([nbytes]); the column width is DATA: the harness supplies, per character, what
    console::measure_text_width reports (0 for every character of an ANSI escape
    sequence) and checks on every case that the widths add up to measure_text_width of
    the whole string (modelling assumption "column width is additive over the characters").
    Definitions only; proofs are in proofs/PaddedProofs.v. *)
From IndModel Require Export Base.

Record ch := mkch { cp : N; cw : N }.
Definition str := list ch.

(* char::len_utf8 *)
Definition nbytes (c : N) : N :=
  if c <? 128 then 1 else if c <? 2048 then 2 else if c <? 65536 then 3 else 4.
Definition chb (c : ch) : N := nbytes (cp c).

(* str::len (bytes) and console::measure_text_width (columns) *)
Fixpoint blen (s : str) : N := match s with [] => 0 | c :: r => chb c + blen r end.
Fixpoint cols (s : str) : N := match s with [] => 0 | c :: r => cw c + cols r end.

(** [str::get(start..end)] (core::str, `impl SliceIndex<str> for Range<usize>`):
    Some iff start <= end, and both are character boundaries (0, len, or the first
    byte of a character; an offset beyond len is not a boundary). *)
(* the characters after the first n bytes; None if n is not a boundary *)
Fixpoint drop_bytes (s : str) (n : N) {struct s} : option str :=
  if n =? 0 then Some s else
  match s with
  | [] => None
  | c :: r => if n <? chb c then None else drop_bytes r (n - chb c)
  end.
(* the characters making up exactly the first n bytes; None if n is not a boundary *)
Fixpoint take_bytes (s : str) (n : N) {struct s} : option str :=
  if n =? 0 then Some [] else
  match s with
  | [] => None
  | c :: r => if n <? chb c then None
              else match take_bytes r (n - chb c) with Some t => Some (c :: t) | None => None end
  end.
Definition str_get (s : str) (st en : N) : option str :=
  if en <? st then None else
  match drop_bytes s st with
  | None => None
  | Some r => take_bytes r (en - st)
  end.

Inductive align := ALeft | ACenter | ARight.

Definition sp : ch := mkch 32 1.
Definition spaces (n : N) : str := N.iter n (cons sp) [].

(** byte range chosen by the truncating branch, style.rs:741-748.  [None] = the usize
    subtraction `self.str.len() - excess` underflows (a panic with overflow checks, as
    in the harness build; without them it wraps to a huge offset and `get` answers None). *)
Definition trunc_range (a : align) (len excess : N) : option (N * N) :=
  match a with
  | ALeft => if len <? excess then None else Some (0, len - excess)                 (* :742 *)
  | ARight => Some (excess, len)                                                     (* :743 *)
  | ACenter => let e2 := excess - excess / 2 in                                      (* :746 saturating_sub *)
               if len <? e2 then None else Some (excess / 2, len - e2)              (* :744-747 *)
  end.

(* style.rs:754-758 *)
Definition pad_split (a : align) (diff : N) : N * N :=
  match a with
  | ALeft => (0, diff)
  | ARight => (diff, 0)
  | ACenter => (diff / 2, diff - diff / 2)
  end.

(** PaddedStringDisplay { str, width, align, truncate }.fmt *)
Definition padded (s : str) (width : N) (a : align) (truncate : bool) : outcome str :=
  let c := cols s in                                   (* :736 *)
  let excess := c - width in                           (* :737 saturating_sub *)
  if (0 <? excess) && negb truncate then Ok s          (* :738-739 *)
  else if 0 <? excess then                             (* :740 *)
    match trunc_range a (blen s) excess with
    | None => Panic 1
    | Some (st, en) =>
        Ok (match str_get s st en with Some t => t | None => s end)   (* :750 get(..).unwrap_or(self.str) *)
    end
  else
    let diff := width - c in                           (* :753 *)
    let '(l, r) := pad_split a diff in
    Ok (spaces l ++ s ++ spaces r).                    (* :760-767 *)

(** One template line  pre{key:<align><width>[!]}post  with literal text before and
    after a single placeholder whose content is [s] (format_state, style.rs:365-386;
    the literals are appended to `cur` as they are).  [w = None]: no width given. *)
Definition field_line (pre post s : str) (w : option N) (a : align) (tr : bool) : outcome str :=
  match w with
  | None => Ok (pre ++ s ++ post)                                        (* :380-383 *)
  | Some w => match padded s w a tr with
              | Ok f => Ok (pre ++ f ++ post)                            (* :366-378 *)
              | Panic k => Panic k
              end
  end.

(** The same line when the placeholder carries a `.STYLE` part:  pre{key:<align><width>[!].STYLE}post.
    format_state writes `s.apply_to(padded)` resp. `s.apply_to(&buf)` (style.rs:378-380 / :385 at
    HEAD 7d42cff): console::StyledObject's Display (console-0.15.11 src/utils.rs:623-663) writes the
    escape sequences of the style, then the VALUE - for a sized field the whole padded / truncated
    field, blanks included -, then the reset sequence ESC[0m iff it wrote any sequence.  The style
    value is not modelled: [sty = Some (spre, spost)] are those two texts, DATA computed by the
    harness with the console crate (both empty when colours are off or the style string sets no
    attribute); [sty = None]: no `.STYLE` part.  An EMPTY content is no special case: the field is
    still padded to the width (seeded defect C12-6 skipped it). *)
Definition styled_field_line (pre post s : str) (w : option N) (a : align) (tr : bool)
                             (sty : option (str * str)) : outcome str :=
  match (match w with None => Ok s | Some w => padded s w a tr end) with
  | Ok f => Ok (pre ++ (match sty with Some (spre, spost) => spre ++ f ++ spost | None => f end) ++ post)
  | Panic k => Panic k
  end.

(* char::is_whitespace = Unicode White_Space *)
Definition is_ws (c : N) : bool :=
  ((9 <=? c) && (c <=? 13)) || (c =? 32) || (c =? 133) || (c =? 160) || (c =? 5760)
  || ((8192 <=? c) && (c <=? 8202)) || (c =? 8232) || (c =? 8233) || (c =? 8239)
  || (c =? 8287) || (c =? 12288).

(* str::trim_end *)
Definition trim_end (s : str) : str :=
  fold_right (fun c acc => match acc with
                           | [] => if is_ws (cp c) then [] else [c]
                           | _ => c :: acc
                           end) [] s.

(** One template line  pre{wide_msg[:align]}post  drawn at terminal width [tw]
    (WideElement::Message, style.rs:452 and 461-480).  `cur` is pre ++ "\0" ++ post;
    pre/post contain no NUL (assumption of this model), hence `cur` ends with NUL iff
    post is empty. *)
Definition wide_line (pre post msg : str) (a : align) (tw : N) : outcome str :=
  let left := tw - cols (pre ++ post) in                 (* :452 saturating_sub(measure(cur minus NUL)) *)
  match padded msg left a true with                      (* :463-472 truncate: true *)
  | Panic k => Panic k
  | Ok buf =>
      let trimmed := match post with [] => trim_end buf | _ => buf end in   (* :474-477 *)
      Ok (pre ++ trimmed ++ post)                        (* :479 cur.replace('\0', trimmed) *)
  end.

(** Properties of characters used by the theorems. *)
(* one byte, one column: printable ASCII and the like *)
Definition ascii1 (c : ch) : Prop := chb c = 1 /\ cw c = 1.
Definition ascii1b (c : ch) : bool := (chb c =? 1) && (cw c =? 1).
(* a fact about the unicode-width tables, checked by the harness for all 0x110000 scalars:
   no character is wider (columns) than long (bytes) *)
Definition ch_ok (c : ch) : Prop := cw c <= chb c.
(** the known-finding class "trunc-nonascii": truncation requested and needed, and the
    content contains a character that is not one byte / one column *)
Definition trunc_nonascii (s : str) (w : N) (tr : bool) : Prop :=
  tr = true /\ w < cols s /\ Exists (fun c => ~ ascii1 c) s.

(** SPECIFICATION side of the truncation clause, written from the property text with
    firstn / skipn on CELLS (independent of [padded] / [trunc_range], which slice BYTES): the
    cells the property asks for are the first W, the last W, or the W cells after dropping
    floor(excess/2) on the left *)
Definition trunc_spec (s : str) (w : N) (a : align) : str :=
  let e := cols s - w in
  match a with
  | ALeft => firstn (N.to_nat w) s
  | ARight => skipn (N.to_nat e) s
  | ACenter => firstn (N.to_nat w) (skipn (N.to_nat (e / 2)) s)
  end.
(** characters of the refutation witnesses *)
Definition e_acute : ch := mkch 233 1.            (* U+00E9, 2 bytes, 1 column *)
Definition cjk (c : N) : ch := mkch c 2.          (* 3 bytes, 2 columns *)

(** ------------------------------------------------------------------ correspondence *)
(* run-length encoded strings as written by the harness *)
Fixpoint dec3 (l : list (N * N * N)) : str :=          (* (code point, columns, repeat) *)
  match l with
  | [] => []
  | (c, w, n) :: r => N.iter n (cons (mkch c w)) (dec3 r)
  end.
Fixpoint dec2 (l : list (N * N)) : list N :=             (* (code point, repeat) *)
  match l with
  | [] => []
  | (c, n) :: r => N.iter n (cons c) (dec2 r)
  end.

Inductive c12case :=
| CField (pre post content : list (N * N * N)) (w : option N) (a : align) (tr : bool)
         (observed : option (list (N * N)))              (* None: the draw panicked *)
| CWide (pre post msg : list (N * N * N)) (a : align) (tw : N)
        (observed : option (list (N * N)))
| CStyled (pre post content : list (N * N * N)) (w : option N) (a : align) (tr : bool)
          (spre spost : list (N * N * N))                (* the style's escape texts (console crate) *)
          (observed : option (list (N * N))).

Definition obs_eqb (m : outcome str) (o : option (list (N * N))) : bool :=
  match m, o with
  | Ok l, Some x => list_eqb N.eqb (map cp l) (dec2 x)
  | Panic _, None => true
  | _, _ => false
  end.

Definition c12_check (c : c12case) : bool :=
  match c with
  | CField pre post s w a tr o => obs_eqb (field_line (dec3 pre) (dec3 post) (dec3 s) w a tr) o
  | CWide pre post m a tw o => obs_eqb (wide_line (dec3 pre) (dec3 post) (dec3 m) a tw) o
  | CStyled pre post s w a tr spre spost o =>
      (* the hypothesis of C12_styled_fits, evaluated on the observed style texts with the width
         function the model uses for content: a style text that occupies a column is a mismatch *)
      (cols (dec3 spre) =? 0) && (cols (dec3 spost) =? 0) &&
      obs_eqb (styled_field_line (dec3 pre) (dec3 post) (dec3 s) w a tr (Some (dec3 spre, dec3 spost))) o
  end.
