(** The screen of a MultiProgress under EITHER alignment (properties C02_screen_bottom,
    C03_log_bottom): the ghost of MultiScreen.v extended by the PADDING block of
    MultiProgressAlignment::Bottom and by the GAPS that suspend leaves, the provisos, and the
    history runner.  Definitions only; nothing in Sys.v / MultiSpec.v / Term.v / MultiScreen.v is
    changed.

    Scope (stated in every theorem): any alignment, changed at any time by set_alignment
    ([OSetAlign]); no I/O faults; the MultiProgress draws to a terminal; no bar owns a terminal.

    What is on the terminal after every call (theorems in proofs/MultiScreenBottomProofs.v):

        pre ++ rows(bg_log) ++ bg_kept ++ [bg_pad blank rows] ++ bg_live

    - [bg_log]  the printed lines in emission order ([LLine]), and between them the GAPS ([LGap k]:
                k blank rows): MultiState::suspend under Bottom alignment first pads the region
                with blank rows (clear), then forgets them (fix 96a75c4: Keep(usize::MAX)); they
                stay on the screen above what the closure writes.  Under Top alignment every gap
                has 0 rows.
    - [bg_kept] the ROWS that LineAdjust::Keep left above the region (zombie_lines_count of them);
    - [bg_pad]  the number of blank padding rows of the last painted frame (its `shift`; 0 under
                Top alignment or when the frame did not shrink) still counted by last_line_count;
    - [bg_live] the rows below the padding still counted by last_line_count.
    last_line_count = bg_pad + |bg_live| always.

    The ghost follows what the CODE does, also in the situation of the open finding D22
    (LineAdjust::Keep(k) while bg_pad > 0 keeps the TOP k rows of the region = padding rows first):
    [g_keepB].  [NoPadReap*] is the predicate "no head-zombie is reaped while padding is on the
    screen"; under it the kept rows are rows of painted Bar lines ([g_keepB] = [g_keep]). *)
From IndModel Require Export MultiScreen.

Inductive lentry := LLine (s : text) | LGap (k : N).

Record bghost := mkbg {
  bg_log : list lentry; bg_kept : list (list N); bg_pad : N; bg_live : list (list N) }.
Definition bghost0 : bghost := mkbg [] [] 0 [].

(** the printed lines of a log (gaps dropped) and the rows it occupies on a terminal of width Wn *)
Definition log_lines (es : list lentry) : list text :=
  flat_map (fun e => match e with LLine s => [s] | LGap _ => [] end) es.
Definition entry_rows (Wn : nat) (e : lentry) : list (list N) :=
  match e with LLine s => chunks Wn s | LGap k => repeat [] (N.to_nat k) end.
Definition log_rows (Wn : nat) (es : list lentry) : list (list N) :=
  concat (map (entry_rows Wn) es).

(** the rows counted by last_line_count: the padding, then the live rows *)
Definition bg_region (g : bghost) : list (list N) := repeat [] (N.to_nat (bg_pad g)) ++ bg_live g.

Section GhostB.
  Variable W H : N.
  Let Wn := N.to_nat W.

  (** `shift > 0` in draw_to_term: Bottom alignment and the new frame is shorter than the region *)
  Definition shifts (al : alignment) (ls : list line) (n : N) : bool :=
    match al with Bottom => visual_line_count ls W <? n | Top => false end.

  (** the padding rows a draw of [ls] over [n] counted rows leaves on the screen AND counts: shift,
      unless the vector has text lines only (no Bar line painted: `padded` stays false) *)
  Definition frame_pad (al : alignment) (ls : list line) (n : N) : N :=
    if shifts al ls n && (match ls with [] => true | _ => existsb is_bar ls end)
    then n - visual_line_count ls W else 0.

  (** LineAdjust::Keep(k): the first k rows of the counted region become kept rows - padding rows
      first (this IS finding D22 when bg_pad > 0 and k > 0) *)
  Definition g_keepB (g : bghost) (k : N) : bghost :=
    mkbg (bg_log g) (bg_kept g ++ firstn (N.to_nat k) (bg_region g))
         (bg_pad g - k) (skipn (N.to_nat (k - bg_pad g)) (bg_live g)).

  (** an ATTEMPTED MultiState::draw that erases [ne] rows *)
  Definition g_drawB (ne : N) (m : mstate) (extra : option (list line)) (g : bghost) : bghost :=
    let p := frame_pad (ms_align m) (ms_frame m extra) ne in
    let log' := bg_log g ++ map LLine (map lt (text_lines_of m extra)) in
    let live' := wrap Wn (map lt (bar_lines_of m)) in
    if ms_has_text m extra then mkbg log' [] p live'
    else g_keepB (mkbg log' (bg_kept g) p live')
                 (N.min (zombie_rows W m) (visual_line_count (bar_lines_of m) W + p)).

  (** MultiState::clear = a draw of no lines with the alignment left in the DrawState *)
  Definition clear_pad (m : mstate) : N :=
    match ms_target m with
    | TTerm tg => frame_pad (tt_align tg) [] (region_count m)
    | _ => 0
    end.

  Definition g_actB (now : N) (m : mstate) (a : maction) (g : bghost) : bghost :=
    match a with
    | ADraw force extra =>
        if ms_attempt W m force extra now then g_drawB (ms_erase_n m extra) m extra g else g
    | AClear => mkbg (bg_log g) [] (clear_pad m) []
    | ASuspend ws =>
        g_drawB 0 m None (mkbg (bg_log g ++ LGap (clear_pad m) :: map LLine ws) [] 0 [])
    | AMark idx =>
        match ms_order m with
        | first :: _ =>
            if N.eqb idx first
            then g_keepB g (N.min (member_vlc (nthN (ms_members m) idx member_default) W)
                                  (target_n (ms_target m)))
            else g
        | [] => g
        end
    | AWrite ws => mkbg (bg_log g ++ map LLine ws) (bg_kept g) (bg_pad g) (bg_live g)
    | AStore _ _ _ | ARemove _ | AInsert _ | AAlign _ => g
    end.

  (** provisos.  A draw that does NOT shift (Top alignment, or the frame is at least as tall as the
      region): as MultiScreen.fits_act - the Bar rows plus the kept rows that are not erased fit the
      height.  A draw that shifts never grows the region; only the EMPTY frame needs a proviso: the
      region (kept rows included) is shorter than the terminal (an empty frame as tall as the
      terminal leaves the cursor ON the last padding row - fix 881c313, covered per draw by
      TermBottomProofs.draw_to_term_spec_bottom, outside this invariant). *)
  Definition fits_drawB (al : alignment) (ne : N) (m : mstate) (extra : option (list line)) : bool :=
    if shifts al (ms_frame m extra) ne
    then match ms_frame m extra with [] => region_count m <? H | _ => true end
    else visual_line_count (bar_lines_of m) W
           + (if ms_has_text m extra then 0 else ms_zombie_lines m) <=? H.

  Definition fits_clearB (m : mstate) : bool :=
    match ms_target m with
    | TTerm tg => if shifts (tt_align tg) [] (region_count m) then region_count m <? H else true
    | _ => true
    end.

  Definition fits_actB (now : N) (m : mstate) (a : maction) : Prop :=
    match a with
    | ADraw force extra =>
        ms_attempt W m force extra now = true ->
        fits_drawB (ms_align m) (ms_erase_n m extra) m extra = true
    | AClear => fits_clearB m = true
    | ASuspend ws =>
        closure_ok m ws = true      (* MultiScreen.closure_ok: no empty FIRST line on an empty region *)
        /\ fits_clearB m = true
        /\ (visual_line_count (bar_lines_of m) W <=? H) = true
    | AWrite ws => ws = []
    | _ => True
    end.

  Fixpoint g_runB (now : N) (m : mstate) (c : N) (acts : list maction) (g : bghost) : bghost :=
    match acts with
    | [] => g
    | a :: r => let '(m1, _, c1, _) := mp_exec1 W H nofaults now m c a in
                g_runB now m1 c1 r (g_actB now m a g)
    end.

  Fixpoint fits_runB (now : N) (m : mstate) (c : N) (acts : list maction) : Prop :=
    match acts with
    | [] => True
    | a :: r => fits_actB now m a
                /\ let '(m1, _, c1, _) := mp_exec1 W H nofaults now m c a in fits_runB now m1 c1 r
    end.

  (* ---------------------------------------------------------------- histories *)
  Definition bs_step (st : sys * bghost * term) (x : N * op) : sys * bghost * term :=
    let '(s, g, t) := st in
    let '(s', e, _) := step W H nofaults s (fst x) (snd x) in
    (s', g_runB (fst x) (s_mp s) (s_calls s) (op_actions W s (fst x) (snd x)) g,
     run_ops (N.to_nat W) (N.to_nat H) t e).

  Definition bs_run (st : sys * bghost * term) (h : list (N * op)) : sys * bghost * term :=
    fold_left bs_step h st.

  Fixpoint FitsAllB (s : sys) (h : list (N * op)) : Prop :=
    match h with
    | [] => True
    | x :: r => fits_runB (fst x) (s_mp s) (s_calls s) (op_actions W s (fst x) (snd x))
                /\ FitsAllB (fst (fst (step W H nofaults s (fst x) (snd x)))) r
    end.

  (* ---------------------------------------------------------------- the D22 exclusion *)
  (** no row is moved from the counted region to the kept rows (LineAdjust::Keep(k), k > 0) while
      padding rows are on top of that region *)
  Definition nopad_act (now : N) (m : mstate) (a : maction) (g : bghost) : bool :=
    match a with
    | ADraw force extra =>
        negb (ms_attempt W m force extra now) || ms_has_text m extra
        || (frame_pad (ms_align m) (ms_frame m extra) (ms_erase_n m extra) =? 0)
        || (zombie_rows W m =? 0)
    | ASuspend _ => true      (* the redraw after the closure never shifts *)
    | AMark idx =>
        match ms_order m with
        | first :: _ =>
            negb (N.eqb idx first) || (bg_pad g =? 0)
            || (N.min (member_vlc (nthN (ms_members m) idx member_default) W)
                      (target_n (ms_target m)) =? 0)
        | [] => true
        end
    | _ => true
    end.

  Fixpoint nopad_run (now : N) (m : mstate) (c : N) (acts : list maction) (g : bghost) : bool :=
    match acts with
    | [] => true
    | a :: r => nopad_act now m a g
                && let '(m1, _, c1, _) := mp_exec1 W H nofaults now m c a in
                   nopad_run now m1 c1 r (g_actB now m a g)
    end.

  Fixpoint NoPadReap (st : sys * bghost * term) (h : list (N * op)) : Prop :=
    match h with
    | [] => True
    | x :: r =>
        nopad_run (fst x) (s_mp (fst (fst st))) (s_calls (fst (fst st)))
                  (op_actions W (fst (fst st)) (fst x) (snd x)) (snd (fst st)) = true
        /\ NoPadReap (bs_step st x) r
    end.
End GhostB.

(** initial configurations: as MultiScreen.ms_initial, with ANY alignment in MultiState and in the
    DrawState *)
Definition bs_initial (s : sys) : Prop :=
  no_own_term s
  /\ exists tg, ms_target (s_mp s) = TTerm tg /\ tt_n tg = 0 /\ tt_below tg = false
  /\ ms_orphans (s_mp s) = [] /\ ms_zombie_lines (s_mp s) = 0
  /\ members_bars (s_mp s).

(** the right-hand side of the screen equation *)
Definition bs_expected (W : N) (pre : list (list N)) (g : bghost) : list (list N) :=
  pre ++ log_rows (N.to_nat W) (bg_log g) ++ bg_kept g ++ bg_region g.

(** the Top-alignment ghost inside the Bottom ghost *)
Definition bg_top (g : bghost) : mghost := mkmg (log_lines (bg_log g)) (bg_kept g) (bg_live g).
