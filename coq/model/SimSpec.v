(** Specification-side definitions for the simulation / case-split theorems C06, C18, C04
    about the drawing system of Sys.v (definitions only; proofs in proofs/SimProofs.v).

    - the LOGIC projection of a bar (everything the getters position(), length(), message(),
      prefix(), is_finished() and the update paths read: no target, no terminal) and an
      independent step function [lstep] over lists of logic records,
    - what "hidden" means, the calls a closure passed to suspend makes itself,
    - histories ([run], [run_logics], [run_oks]),
    - the final state a finish variant defines ([final_of]),
    - the fault-independent STRUCTURE projection [erase_io] (everything but last_line_count,
      cursor_below, zombie_lines_count and the call counter). *)
From IndModel Require Export Sys.

(* ------------------------------------------------------------------ logic projection *)
Record logic := mklogic {
  l_pos : N; l_len : option N; l_tick : N; l_status : status;
  l_msg : text; l_prefix : text; l_tmpl : list tpart; l_on_finish : fin;
  l_ap : apos; l_alive : bool }.

Definition logic_of (b : bar) : logic :=
  mklogic (b_pos b) (b_len b) (b_tick b) (b_status b) (b_msg b) (b_prefix b) (b_tmpl b)
          (b_on_finish b) (b_ap b) (b_alive b).
Definition bars_logic (s : sys) : list logic := map logic_of (s_bars s).
Definition logic_default : logic := logic_of bar_default.

Definition lw_pos (x : logic) v := mklogic v (l_len x) (l_tick x) (l_status x) (l_msg x) (l_prefix x) (l_tmpl x) (l_on_finish x) (l_ap x) (l_alive x).
Definition lw_len (x : logic) v := mklogic (l_pos x) v (l_tick x) (l_status x) (l_msg x) (l_prefix x) (l_tmpl x) (l_on_finish x) (l_ap x) (l_alive x).
Definition lw_tick (x : logic) v := mklogic (l_pos x) (l_len x) v (l_status x) (l_msg x) (l_prefix x) (l_tmpl x) (l_on_finish x) (l_ap x) (l_alive x).
Definition lw_status (x : logic) v := mklogic (l_pos x) (l_len x) (l_tick x) v (l_msg x) (l_prefix x) (l_tmpl x) (l_on_finish x) (l_ap x) (l_alive x).
Definition lw_msg (x : logic) v := mklogic (l_pos x) (l_len x) (l_tick x) (l_status x) v (l_prefix x) (l_tmpl x) (l_on_finish x) (l_ap x) (l_alive x).
Definition lw_prefix (x : logic) v := mklogic (l_pos x) (l_len x) (l_tick x) (l_status x) (l_msg x) v (l_tmpl x) (l_on_finish x) (l_ap x) (l_alive x).
Definition lw_tmpl (x : logic) v := mklogic (l_pos x) (l_len x) (l_tick x) (l_status x) (l_msg x) (l_prefix x) v (l_on_finish x) (l_ap x) (l_alive x).
Definition lw_ap (x : logic) v := mklogic (l_pos x) (l_len x) (l_tick x) (l_status x) (l_msg x) (l_prefix x) (l_tmpl x) (l_on_finish x) v (l_alive x).
Definition lw_alive (x : logic) v := mklogic (l_pos x) (l_len x) (l_tick x) (l_status x) (l_msg x) (l_prefix x) (l_tmpl x) (l_on_finish x) (l_ap x) v.

Definition l_finished (l : logic) : bool :=
  match l_status l with InProgress => false | _ => true end.

(* the state a ProgressFinish variant defines (BarState::finish_using_style, src/state.rs:42-69) *)
Definition l_finish (k : fin) (l : logic) : logic :=
  let to_len x := match l_len x with Some n => lw_pos x n | None => x end in
  match k with
  | FAndLeave => lw_status (to_len l) DoneVisible
  | FWithMessage m => lw_msg (lw_status (to_len l) DoneVisible) m
  | FAndClear => lw_status (to_len l) DoneHidden
  | FAbandon => lw_status l DoneVisible
  | FAbandonWithMessage m => lw_msg (lw_status l DoneVisible) m
  end.

(* inc / dec / set_position: the position changes unconditionally; the tick counter advances
   only if the position limiter (AtomicPosition::allow) grants it *)
Definition l_pos_update (f : N -> N) (now : N) (l : logic) : logic :=
  let l1 := lw_pos l (f (l_pos l)) in
  let '(a, ap') := ap_allow (l_ap l1) now in
  let l2 := lw_ap l1 ap' in
  if a then lw_tick l2 (sat_add64 (l_tick l2) 1) else l2.

(* the bar a call is made on (None: a call on the MultiProgress itself) *)
Definition op_bar (o : op) : option N :=
  match o with
  | OTick b | OInc b _ | ODec b _ | OSetPos b _ | OSetLen b _ | OIncLen b _ | ODecLen b _
  | OUnsetLen b | OSetMsg b _ | OSetPrefix b _ | OSetStyle b _ | OPrintln b _ | OSuspend b _
  | OReset b | OResetEta b | OResetElapsed b | OFinish b _ | OFinishUsingStyle b
  | OForceDraw b | OSetTabWidth b | ODrop b | OInsert _ b | ORemove b => Some b
  | OMPrintln _ | OMSuspend _ | OMClear | OSetAlign _ => None
  end.

(** what one public call does to the logic of the bar it is made on - no target, no terminal,
    no fault oracle, no MultiProgress state in sight *)
Definition lstep_bar (now : N) (o : op) (l : logic) : logic :=
  match o with
  | OTick _ => lw_tick l (sat_add64 (l_tick l) 1)
  | OInc _ d => l_pos_update (fun p => wadd64 p d) now l
  | ODec _ d => l_pos_update (fun p => wsub64 p d) now l
  | OSetPos _ p => l_pos_update (fun _ => p) now l
  | OSetLen _ n => lw_len l (Some n)
  | OIncLen _ d => lw_len l (option_map (fun n => sat_add64 n d) (l_len l))
  | ODecLen _ d => lw_len l (option_map (fun n => sat_sub n d) (l_len l))
  | OUnsetLen _ => lw_len l None
  | OSetMsg _ m => lw_msg l m
  | OSetPrefix _ m => lw_prefix l m
  | OSetStyle _ t => lw_tmpl l t
  | OReset _ => lw_status (lw_ap (lw_pos l 0) (ap_reset (l_ap l) now)) InProgress
  | OFinish _ k => l_finish k l
  | OFinishUsingStyle _ => l_finish (l_on_finish l) l
  | ODrop _ => lw_alive (if l_finished l then l else l_finish (l_on_finish l) l) false
  | _ => l
  end.

Definition lstep (now : N) (o : op) (ls : list logic) : list logic :=
  match op_bar o with
  | Some b => updN ls (N.to_nat b) (lstep_bar now o)
  | None => ls
  end.

(* the logic after every op of a history *)
Fixpoint ltrace (ls : list logic) (ops : list (N * op)) : list (list logic) :=
  match ops with
  | [] => []
  | (now, o) :: r => let ls' := lstep now o ls in ls' :: ltrace ls' r
  end.

(* ------------------------------------------------------------------ histories *)
Fixpoint run (W H : N) (fails : N -> bool) (s : sys) (ops : list (N * op)) : sys * list termop :=
  match ops with
  | [] => (s, [])
  | (now, o) :: r =>
      let '(s1, e, _) := step W H fails s now o in
      let '(s2, e2) := run W H fails s1 r in
      (s2, e ++ e2)
  end.

Fixpoint run_logics (W H : N) (fails : N -> bool) (s : sys) (ops : list (N * op)) : list (list logic) :=
  match ops with
  | [] => []
  | (now, o) :: r =>
      let '(s1, _, _) := step W H fails s now o in
      bars_logic s1 :: run_logics W H fails s1 r
  end.

Definition no_faults : N -> bool := fun _ => false.

(* ------------------------------------------------------------------ hidden *)
Definition is_term (t : target) : bool := match t with TTerm _ => true | _ => false end.

(* a bar that cannot draw: hidden target (ProgressDrawTarget::hidden(), a Term that is not a
   tty, a bar removed from its MultiProgress) or member of a MultiProgress that cannot draw *)
Definition bar_hidden (s : sys) (b : N) : bool :=
  match b_target (get_bar s b) with
  | THidden => true
  | TTerm _ => false
  | TMulti _ => negb (is_term (ms_target (s_mp s)))
  end.

Definition mp_hidden (s : sys) : bool := negb (is_term (ms_target (s_mp s))).

Definition all_hidden (s : sys) : Prop :=
  mp_hidden s = true /\ Forall (fun b => is_term (b_target b) = false) (s_bars s).

(* the calls made by the CLOSURE handed to suspend (foreign code writing to the terminal
   itself, not indicatif) *)
Definition closure_writes (o : op) : list termop :=
  match o with
  | OSuspend _ ws | OMSuspend ws => map TLine ws
  | _ => []
  end.

(* the hidden twins *)
Definition hide_bar (b : bar) : bar := set_b_target b THidden.
Definition hide_all (s : sys) : sys :=
  mksys (map hide_bar (s_bars s)) (set_ms_target (s_mp s) THidden) (s_calls s).
Definition hide_mp (s : sys) : sys := set_s_mp s (set_ms_target (s_mp s) THidden).

(* ------------------------------------------------------------------ io::Result reporting *)
Definition is_reporting (o : op) : bool :=
  match o with OMPrintln _ | OMClear => true | _ => false end.

(* ------------------------------------------------------------------ final states (C04) *)
Definition final_of (k : fin) (x : bar) : bar :=
  let to_len x := match b_len x with Some l => set_b_pos x l | None => x end in
  match k with
  | FAndLeave => set_b_status (to_len x) DoneVisible
  | FWithMessage m => set_b_msg (set_b_status (to_len x) DoneVisible) m
  | FAndClear => set_b_status (to_len x) DoneHidden
  | FAbandon => set_b_status x DoneVisible
  | FAbandonWithMessage m => set_b_msg (set_b_status x DoneVisible) m
  end.

Definition fin_is_finish (k : fin) : bool :=
  match k with FAndLeave | FWithMessage _ | FAndClear => true | _ => false end.
Definition fin_msg (k : fin) : option text :=
  match k with FWithMessage m | FAbandonWithMessage m => Some m | _ => None end.

(* the line list a draw of the MultiProgress hands to the terminal (no extra lines) *)
Definition ms_compose (m : mstate) : list line :=
  ms_orphans m ++ concat (map (member_lines (ms_members m)) (ms_order m)).

(* the calls of a fault-free Drawable::draw *)
Definition draw_calls (ls : list line) (n : N) (al : alignment) (below : bool) (W H : N) : list termop :=
  fst (fst (draw_to_term ls n al below W H)).
Definition draw_n (ls : list line) (n : N) (al : alignment) (below : bool) (W H : N) : N :=
  snd (fst (draw_to_term ls n al below W H)).
Definition draw_below (ls : list line) (n : N) (al : alignment) (below : bool) (W H : N) : bool :=
  snd (draw_to_term ls n al below W H).

(* ------------------------------------------------------------------ structure projection (C18) *)
Definition erase_tt (t : ttarget) : ttarget := mktt 0 (tt_rl t) (tt_align t) false.
Definition erase_target (t : target) : target :=
  match t with TTerm tg => TTerm (erase_tt tg) | x => x end.
Definition erase_bar (b : bar) : bar := set_b_target b (erase_target (b_target b)).
Definition erase_ms (m : mstate) : mstate :=
  set_ms_zombie_lines (set_ms_target m (erase_target (ms_target m))) 0.
Definition erase_io (s : sys) : sys :=
  mksys (map erase_bar (s_bars s)) (erase_ms (s_mp s)) 0.

(* every step of a history: the state it starts from, the op, the calls that reached the terminal *)
Fixpoint run_steps (W H : N) (fails : N -> bool) (s : sys) (ops : list (N * op))
  : list (sys * op * list termop) :=
  match ops with
  | [] => []
  | (now, o) :: r =>
      let '(s1, e, _) := step W H fails s now o in
      (s, o, e) :: run_steps W H fails s1 r
  end.

(* io::Result of every call of a history *)
Fixpoint run_oks (W H : N) (fails : N -> bool) (s : sys) (ops : list (N * op)) : list bool :=
  match ops with
  | [] => []
  | (now, o) :: r =>
      let '(s1, _, ok) := step W H fails s now o in
      ok :: run_oks W H fails s1 r
  end.

(* rows of finished, reaped bars that stay on the screen (zombie_lines_count) + rows the next
   draw of the MultiProgress will erase (last_line_count) *)
Definition kept_plus_live (s : sys) : N :=
  ms_zombie_lines (s_mp s) + target_n (ms_target (s_mp s)).

(* ------------------------------------------------------------------ added in round 3 *)
(* the subject of a call (the bar it is made on; the MultiProgress for its own calls) cannot draw *)
Definition subject_hidden (s : sys) (o : op) : bool :=
  match op_bar o with Some b => bar_hidden s b | None => mp_hidden s end.

(* the calls on bar 0 that finish it: Some k = "finishes with ProgressFinish k" *)
Definition finishing_op (s : sys) (o : op) : option fin :=
  match o with
  | OFinish 0 k => Some k
  | OFinishUsingStyle 0 => Some (b_on_finish (get_bar s 0))
  | ODrop 0 => if finished (get_bar s 0) then None else Some (b_on_finish (get_bar s 0))
  | _ => None
  end.

(* ProgressBarIter::next when the wrapped iterator returns None (src/iter.rs:120-130):
   `else if !self.progress.is_finished() { self.progress.finish_using_style() }` *)
Definition iter_none_step (W H : N) (fails : N -> bool) (s : sys) (now : N) (b : N)
  : sys * list termop * bool :=
  if finished (get_bar s b) then (s, [], true) else step W H fails s now (OFinishUsingStyle b).

(* ------------------------------------------------------------------ added in round 4: iterator consumers *)
From Coq Require Import String.
(* The AUDITED table of what src/iter.rs implements itself for ProgressBarIter (compared with the
   table tools/iter_extract.py generates from the source, gen/IterOverrides.v).  Every other
   consumer of the std traits (for loops, for_each, fold, try_fold, count, sum, product, last,
   min/max(_by(_key)), nth, advance_by, collect, position, all/any/find, ..., and on the
   double-ended side rfold, try_rfold, nth_back, rfind, rev) is std's DEFAULT method, which sees
   the end of the iteration only by getting None from [next] (resp. [next_back]). *)
Definition audited_iter_overrides : list (string * option (list string)) :=
  [("Iterator", Some ["next"; "size_hint"]);
   ("DoubleEndedIterator", Some ["next_back"]);
   ("ExactSizeIterator", Some ["len"]);
   ("FusedIterator", Some [])]%string.

(* the methods through which a consumer can observe exhaustion *)
Definition exhaustion_methods (tbl : list (string * option (list string))) : list string :=
  List.filter (fun m => negb (String.eqb m "size_hint" || String.eqb m "len"))%string
         (List.concat (List.map (fun x => match snd x with Some l => l | None => [] end) tbl)).

Definition audited_exhaustion_methods : list string := ["next"; "next_back"]%string.

(* ------------------------------------------------------------------ added in round 5 *)
(* what the end of a wrapped iterator (iter_none_step) does to the logic of the bar *)
Definition l_iter_none (l : logic) : logic :=
  if l_finished l then l else l_finish (l_on_finish l) l.
