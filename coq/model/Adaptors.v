(** C17 – iterator and I/O adaptors are transparent and count exactly.

    Transcribes every trait impl of [ProgressBarIter<T>] in /repo/src/iter.rs
    (Iterator 117-135, ExactSizeIterator 137-141, DoubleEndedIterator 143-155,
    io::Read 159-183, io::BufRead 185-194, io::Seek 196-208, tokio AsyncWrite
    210-233, AsyncRead 235-251, AsyncSeek 253-268, AsyncBufRead 270-284,
    futures Stream 286-304, io::Write 306-328) and the rayon plumbing wrappers of
    /repo/src/rayon.rs (IndexedParallelIterator 48-87, ProgressProducer 89-126,
    ProgressProducerIter 128-166, ProgressConsumer 168-213, ProgressFolder
    215-238, ParallelIterator 240-247) over an ARBITRARY inner object: the inner
    object is a record of step functions over an abstract state type [S]; all
    of its nondeterminism (short transfers, errors, Pending, what it writes into
    the caller's buffers) is whatever those functions return.

    The bar side is the part of BarState the adaptors touch and the getters
    position()/is_finished()/message()/length() read:
    ProgressBar::inc (progress_bar.rs:233-239) -> AtomicPosition::inc
    (state.rs: fetch_add, wrapping), set_position (progress_bar.rs:285-291),
    is_finished (progress_bar.rs:256-258, state.rs:272-278), finish_using_style
    (progress_bar.rs:401-405, state.rs:43-72).  Drawing is not modelled (C01-C03).

    Definitions only; proofs are in proofs/AdaptorsProofs.v. *)
From IndModel Require Export Base.

(* ------------------------------------------------------------------ *)
(** * The bar                                                          *)

Inductive status := InProgress | DoneVisible | DoneHidden.      (* state.rs Status *)

Inductive finish :=                                             (* state.rs ProgressFinish *)
| AndLeave
| WithMessage (m : list N)
| AndClear
| Abandon
| AbandonWithMessage (m : list N).

Record bar := {
  b_pos : N;              (* AtomicPosition::pos, a u64 *)
  b_len : option N;       (* ProgressState::len *)
  b_status : status;      (* ProgressState::status *)
  b_msg : list N;         (* ProgressState::message (code points; no tabs, see docs) *)
  b_on_finish : finish    (* BarState::on_finish *)
}.

(* ProgressBar::inc -> AtomicPosition::inc: fetch_add(delta), wrapping at 2^64 *)
Definition bar_inc (b : bar) (d : N) : bar :=
  {| b_pos := wadd64 (b_pos b) d; b_len := b_len b; b_status := b_status b;
     b_msg := b_msg b; b_on_finish := b_on_finish b |}.

(* ProgressBar::set_position -> AtomicPosition::set: store(pos) *)
Definition bar_set_position (b : bar) (p : N) : bar :=
  {| b_pos := p; b_len := b_len b; b_status := b_status b;
     b_msg := b_msg b; b_on_finish := b_on_finish b |}.

(* ProgressState::is_finished, state.rs:272-278 *)
Definition bar_is_finished (b : bar) : bool :=
  match b_status b with InProgress => false | DoneVisible => true | DoneHidden => true end.

(* BarState::finish_using_style(now, finish), state.rs:43-72 *)
Definition bar_finish (b : bar) (f : finish) : bar :=
  let to_len := match b_len b with Some l => l | None => b_pos b end in
  match f with
  | AndLeave =>
      {| b_pos := to_len; b_len := b_len b; b_status := DoneVisible;
         b_msg := b_msg b; b_on_finish := b_on_finish b |}
  | WithMessage m =>
      {| b_pos := to_len; b_len := b_len b; b_status := DoneVisible;
         b_msg := m; b_on_finish := b_on_finish b |}
  | AndClear =>
      {| b_pos := to_len; b_len := b_len b; b_status := DoneHidden;
         b_msg := b_msg b; b_on_finish := b_on_finish b |}
  | Abandon =>
      {| b_pos := b_pos b; b_len := b_len b; b_status := DoneVisible;
         b_msg := b_msg b; b_on_finish := b_on_finish b |}
  | AbandonWithMessage m =>
      {| b_pos := b_pos b; b_len := b_len b; b_status := DoneVisible;
         b_msg := m; b_on_finish := b_on_finish b |}
  end.

(* ProgressBar::finish_using_style, progress_bar.rs:401-405: clones on_finish *)
Definition bar_finish_using_style (b : bar) : bar := bar_finish b (b_on_finish b).

(* ProgressBar::reset -> BarState::reset(Reset::All), state.rs:74-93 (fields above only) *)
Definition bar_reset (b : bar) : bar :=
  {| b_pos := 0; b_len := b_len b; b_status := InProgress;
     b_msg := b_msg b; b_on_finish := b_on_finish b |}.

(* ------------------------------------------------------------------ *)
(** * Results of I/O calls                                             *)

Inductive io_result (E A : Type) : Type := IoOk (a : A) | IoErr (e : E).
Arguments IoOk {E A} a.
Arguments IoErr {E A} e.

Inductive poll (A : Type) : Type := Ready (a : A) | Pending.
Arguments Ready {A} a.
Arguments Pending {A}.

Inductive seek_from := SeekStart (n : N) | SeekEnd (z : Z) | SeekCurrent (z : Z).

(* ------------------------------------------------------------------ *)
(** * The inner object: an arbitrary state machine                     *)
(** [S] inner state (it may contain the whole future behaviour of the
    environment), [E] error values, [Item] iterator / stream items, [Data]
    whatever a call moves through the caller's buffers (bytes put into a read
    buffer, the slice lent by fill_buf, the bytes handed to write).  Buffer
    arguments are represented by what the adaptor can see of them: lengths. *)
Record inner (S E Item Data : Type) : Type := {
  (* Iterator / DoubleEndedIterator / ExactSizeIterator *)
  i_next : S -> S * option Item;
  i_next_back : S -> S * option Item;
  i_size_hint : S -> N * option N;
  i_len : S -> N;
  (* io::Read: argument = buf.len() (or the lengths of the IoSliceMuts) *)
  i_read : S -> N -> S * (Data * io_result E N);
  i_read_vectored : S -> list N -> S * (Data * io_result E N);
  i_read_to_string : S -> S * (Data * io_result E N);
  i_read_exact : S -> N -> S * (Data * io_result E unit);
  (* io::BufRead *)
  i_fill_buf : S -> S * io_result E Data;
  i_consume : S -> N -> S;
  (* io::Seek *)
  i_seek : S -> seek_from -> S * io_result E N;
  i_stream_position : S -> S * io_result E N;
  (* io::Write *)
  i_write : S -> Data -> S * io_result E N;
  i_write_vectored : S -> list Data -> S * io_result E N;
  i_flush : S -> S * io_result E unit;
  (* tokio AsyncWrite *)
  i_poll_write : S -> Data -> S * poll (io_result E N);
  i_poll_flush : S -> S * poll (io_result E unit);
  i_poll_shutdown : S -> S * poll (io_result E unit);
  (* tokio AsyncRead: arguments = buf.filled().len(), buf.capacity();
     result = data put, the new filled().len(), the poll *)
  i_poll_read : S -> N -> N -> S * (Data * N * poll (io_result E unit));
  (* tokio AsyncSeek *)
  i_start_seek : S -> seek_from -> S * io_result E unit;
  i_poll_complete : S -> S * poll (io_result E N);
  (* tokio AsyncBufRead *)
  i_poll_fill_buf : S -> S * poll (io_result E Data);
  i_aconsume : S -> N -> S;
  (* futures Stream *)
  i_poll_next : S -> S * poll (option Item);
  i_stream_size_hint : S -> N * option N
}.
Arguments i_next {S E Item Data} _ _.
Arguments i_next_back {S E Item Data} _ _.
Arguments i_size_hint {S E Item Data} _ _.
Arguments i_len {S E Item Data} _ _.
Arguments i_read {S E Item Data} _ _ _.
Arguments i_read_vectored {S E Item Data} _ _ _.
Arguments i_read_to_string {S E Item Data} _ _.
Arguments i_read_exact {S E Item Data} _ _ _.
Arguments i_fill_buf {S E Item Data} _ _.
Arguments i_consume {S E Item Data} _ _ _.
Arguments i_seek {S E Item Data} _ _ _.
Arguments i_stream_position {S E Item Data} _ _.
Arguments i_write {S E Item Data} _ _ _.
Arguments i_write_vectored {S E Item Data} _ _ _.
Arguments i_flush {S E Item Data} _ _.
Arguments i_poll_write {S E Item Data} _ _ _.
Arguments i_poll_flush {S E Item Data} _ _.
Arguments i_poll_shutdown {S E Item Data} _ _.
Arguments i_poll_read {S E Item Data} _ _ _ _.
Arguments i_start_seek {S E Item Data} _ _ _.
Arguments i_poll_complete {S E Item Data} _ _.
Arguments i_poll_fill_buf {S E Item Data} _ _.
Arguments i_aconsume {S E Item Data} _ _ _.
Arguments i_poll_next {S E Item Data} _ _.
Arguments i_stream_size_hint {S E Item Data} _ _.
