(** C17 – iterator and I/O adaptors are transparent and count exactly.

    Transcribes every trait impl of [ProgressBarIter<T>] in /repo/src/iter.rs (HEAD 6ff82af)
    (Iterator 117-135, ExactSizeIterator 137-141, DoubleEndedIterator 143-155,
    io::Read 159-183, io::BufRead 185-194, io::Seek 196-208, tokio AsyncWrite
    212-252 incl. poll_write_vectored / is_write_vectored, AsyncRead 256-271,
    AsyncSeek 275-288, AsyncBufRead 292-304, futures Stream 308-332 incl.
    size_hint, io::Write 334-356) and the rayon plumbing wrappers of
    /repo/src/rayon.rs (IndexedParallelIterator 48-87, ProgressProducer 89-126,
    ProgressProducerIter 130-165, ProgressConsumer 167-212, ProgressFolder 214-237,
    ParallelIterator 239-246) over an ARBITRARY inner object: the inner object is a
    record of step functions over an abstract state type [S]; all of its
    nondeterminism (short transfers, errors, Pending, what it writes into the
    caller's buffers) is whatever those functions return.

    THE CODE UNDER VERIFICATION is [head_code].  The model keeps a [variant]
    parameter (one boolean per fix commit 7fc986e, 3a319c2, c811d79, 2747e49) only so
    that the four defects those commits repaired stay stated and refuted as
    regression statements: [pre_fix_code] (all flags off) is the historical tree
    before them (8b11f76).

    The bar side is the part of BarState the adaptors touch and the getters
    position()/is_finished()/message()/length() read:
    ProgressBar::inc (progress_bar.rs:243-249) -> AtomicPosition::inc
    (state.rs:598-604: fetch_add, wrapping), set_position (progress_bar.rs:295-301,
    state.rs:606-608), is_finished (progress_bar.rs:266-268, state.rs:277-283),
    finish_using_style (progress_bar.rs:416-422, state.rs:43-72).  Drawing is not
    modelled (C01-C03).

    Definitions only (including the vocabulary of the statements in props/C17.v);
    proofs are in proofs/AdaptorsProofs.v. *)
From IndModel Require Export Base.

(* ------------------------------------------------------------------ *)
(** * The bar                                                          *)

Inductive status := InProgress | DoneVisible | DoneHidden.      (* state.rs Status *)

Inductive finish :=                                             (* state.rs ProgressFinish *)
| AndLeave
| WithMessage (m : list N)
| AndClear
| Abandon
| AbandonWithMessage (m : list N).

Record bar := {
  b_pos : N;              (* AtomicPosition::pos, a u64 *)
  b_len : option N;       (* ProgressState::len *)
  b_status : status;      (* ProgressState::status *)
  b_msg : list N;         (* ProgressState::message (code points; no tabs, see docs) *)
  b_on_finish : finish    (* BarState::on_finish *)
}.

(* ProgressBar::inc -> AtomicPosition::inc: fetch_add(delta), wrapping at 2^64 *)
Definition bar_inc (b : bar) (d : N) : bar :=
  {| b_pos := wadd64 (b_pos b) d; b_len := b_len b; b_status := b_status b;
     b_msg := b_msg b; b_on_finish := b_on_finish b |}.

(* ProgressBar::set_position -> AtomicPosition::set: store(pos) *)
Definition bar_set_position (b : bar) (p : N) : bar :=
  {| b_pos := p; b_len := b_len b; b_status := b_status b;
     b_msg := b_msg b; b_on_finish := b_on_finish b |}.

(* ProgressState::is_finished, state.rs:277-283 *)
Definition bar_is_finished (b : bar) : bool :=
  match b_status b with InProgress => false | DoneVisible => true | DoneHidden => true end.

(* BarState::finish_using_style(now, finish), state.rs:43-72 *)
Definition bar_finish (b : bar) (f : finish) : bar :=
  let to_len := match b_len b with Some l => l | None => b_pos b end in
  match f with
  | AndLeave =>
      {| b_pos := to_len; b_len := b_len b; b_status := DoneVisible;
         b_msg := b_msg b; b_on_finish := b_on_finish b |}
  | WithMessage m =>
      {| b_pos := to_len; b_len := b_len b; b_status := DoneVisible;
         b_msg := m; b_on_finish := b_on_finish b |}
  | AndClear =>
      {| b_pos := to_len; b_len := b_len b; b_status := DoneHidden;
         b_msg := b_msg b; b_on_finish := b_on_finish b |}
  | Abandon =>
      {| b_pos := b_pos b; b_len := b_len b; b_status := DoneVisible;
         b_msg := b_msg b; b_on_finish := b_on_finish b |}
  | AbandonWithMessage m =>
      {| b_pos := b_pos b; b_len := b_len b; b_status := DoneVisible;
         b_msg := m; b_on_finish := b_on_finish b |}
  end.

(* ProgressBar::finish_using_style, progress_bar.rs:416-422: clones on_finish *)
Definition bar_finish_using_style (b : bar) : bar := bar_finish b (b_on_finish b).

(* ProgressBar::reset (progress_bar.rs:366-368) -> BarState::reset(Reset::All), state.rs:74-98 (fields above only) *)
Definition bar_reset (b : bar) : bar :=
  {| b_pos := 0; b_len := b_len b; b_status := InProgress;
     b_msg := b_msg b; b_on_finish := b_on_finish b |}.

(* ------------------------------------------------------------------ *)
(** * Results of I/O calls                                             *)

Inductive io_result (E A : Type) : Type := IoOk (a : A) | IoErr (e : E).
Arguments IoOk {E A} a.
Arguments IoErr {E A} e.

Inductive poll (A : Type) : Type := Ready (a : A) | Pending.
Arguments Ready {A} a.
Arguments Pending {A}.

Inductive seek_from := SeekStart (n : N) | SeekEnd (z : Z) | SeekCurrent (z : Z).

(* ------------------------------------------------------------------ *)
(** * Which tree is modelled                                           *)
(** One flag per fix commit in /repo.  [true] transcribes the code WITH that fix (all four are in
    HEAD), [false] the code before it (historical, kept for the regression statements). *)
Record variant := {
  v_stream_size_hint : bool;       (* 7fc986e: Stream::size_hint is forwarded *)
  v_stream_end_guard : bool;       (* 3a319c2: Ready(None) finishes only an unfinished bar *)
  v_poll_read_saturating : bool;   (* c811d79: filled - prev_len is a saturating_sub *)
  v_async_write_vectored : bool    (* 2747e49: poll_write_vectored / is_write_vectored forwarded *)
}.
(** /repo HEAD: the code under verification *)
Definition head_code : variant :=
  {| v_stream_size_hint := true; v_stream_end_guard := true;
     v_poll_read_saturating := true; v_async_write_vectored := true |}.
(** the tree before the four fixes (8b11f76): historical *)
Definition pre_fix_code : variant :=
  {| v_stream_size_hint := false; v_stream_end_guard := false;
     v_poll_read_saturating := false; v_async_write_vectored := false |}.

(** What the model has to know about the abstract [Data] moved through write buffers: tokio's
    DEFAULT poll_write_vectored picks the first non-empty slice, or the empty slice. *)
Record buffers (Data : Type) : Type := {
  buf_empty : Data;                 (* &[][..] *)
  buf_is_empty : Data -> bool       (* <[u8]>::is_empty *)
}.
Arguments buf_empty {Data} _.
Arguments buf_is_empty {Data} _ _.

(* ------------------------------------------------------------------ *)
(** * The inner object: an arbitrary state machine                     *)
(** [S] inner state (it may contain the whole future behaviour of the
    environment), [E] error values, [Item] iterator / stream items, [Data]
    whatever a call moves through the caller's buffers (bytes put into a read
    buffer, the slice lent by fill_buf, the bytes handed to write).  Buffer
    arguments are represented by what the adaptor can see of them: lengths. *)
Record inner (S E Item Data : Type) : Type := {
  (* Iterator / DoubleEndedIterator / ExactSizeIterator *)
  i_next : S -> S * option Item;
  i_next_back : S -> S * option Item;
  i_size_hint : S -> N * option N;
  i_len : S -> N;
  (* io::Read: argument = buf.len() (or the lengths of the IoSliceMuts) *)
  i_read : S -> N -> S * (Data * io_result E N);
  i_read_vectored : S -> list N -> S * (Data * io_result E N);
  i_read_to_string : S -> S * (Data * io_result E N);
  i_read_exact : S -> N -> S * (Data * io_result E unit);
  (* io::BufRead *)
  i_fill_buf : S -> S * io_result E Data;
  i_consume : S -> N -> S;
  (* io::Seek *)
  i_seek : S -> seek_from -> S * io_result E N;
  i_stream_position : S -> S * io_result E N;
  (* io::Write *)
  i_write : S -> Data -> S * io_result E N;
  i_write_vectored : S -> list Data -> S * io_result E N;
  i_flush : S -> S * io_result E unit;
  (* tokio AsyncWrite *)
  i_poll_write : S -> Data -> S * poll (io_result E N);
  i_poll_write_vectored : S -> list Data -> S * poll (io_result E N);
  i_is_write_vectored : S -> bool;
  i_poll_flush : S -> S * poll (io_result E unit);
  i_poll_shutdown : S -> S * poll (io_result E unit);
  (* tokio AsyncRead: arguments = buf.filled().len(), buf.capacity();
     result = data put, the new filled().len(), the poll *)
  i_poll_read : S -> N -> N -> S * (Data * N * poll (io_result E unit));
  (* tokio AsyncSeek *)
  i_start_seek : S -> seek_from -> S * io_result E unit;
  i_poll_complete : S -> S * poll (io_result E N);
  (* tokio AsyncBufRead *)
  i_poll_fill_buf : S -> S * poll (io_result E Data);
  i_aconsume : S -> N -> S;
  (* futures Stream *)
  i_poll_next : S -> S * poll (option Item);
  i_stream_size_hint : S -> N * option N
}.
Arguments i_next {S E Item Data} _ _.
Arguments i_next_back {S E Item Data} _ _.
Arguments i_size_hint {S E Item Data} _ _.
Arguments i_len {S E Item Data} _ _.
Arguments i_read {S E Item Data} _ _ _.
Arguments i_read_vectored {S E Item Data} _ _ _.
Arguments i_read_to_string {S E Item Data} _ _.
Arguments i_read_exact {S E Item Data} _ _ _.
Arguments i_fill_buf {S E Item Data} _ _.
Arguments i_consume {S E Item Data} _ _ _.
Arguments i_seek {S E Item Data} _ _ _.
Arguments i_stream_position {S E Item Data} _ _.
Arguments i_write {S E Item Data} _ _ _.
Arguments i_write_vectored {S E Item Data} _ _ _.
Arguments i_flush {S E Item Data} _ _.
Arguments i_poll_write {S E Item Data} _ _ _.
Arguments i_poll_write_vectored {S E Item Data} _ _ _.
Arguments i_is_write_vectored {S E Item Data} _ _.
Arguments i_poll_flush {S E Item Data} _ _.
Arguments i_poll_shutdown {S E Item Data} _ _.
Arguments i_poll_read {S E Item Data} _ _ _ _.
Arguments i_start_seek {S E Item Data} _ _ _.
Arguments i_poll_complete {S E Item Data} _ _.
Arguments i_poll_fill_buf {S E Item Data} _ _.
Arguments i_aconsume {S E Item Data} _ _ _.
Arguments i_poll_next {S E Item Data} _ _.
Arguments i_stream_size_hint {S E Item Data} _ _.

(* ------------------------------------------------------------------ *)
(** * ProgressBarIter<T>: the wrappers, line by line                    *)
Section Wrappers.
  Variables S E Item Data : Type.
  Variable I : inner S E Item Data.
  Variable V : variant.
  Variable B : buffers Data.

  (** ProgressBarIter { it, progress }: the inner object and (a handle on) the bar *)
  Definition W : Type := (S * bar)%type.

  (* impl Iterator: next, iter.rs:120-130 *)
  Definition w_next (w : W) : W * option Item :=
    let '(s, b) := w in
    let '(s', item) := i_next I s in                         (* let item = self.it.next(); *)
    let b' := match item with
              | Some _ => bar_inc b 1                         (* if item.is_some() { inc(1) } *)
              | None => if negb (bar_is_finished b)           (* else if !is_finished() *)
                        then bar_finish_using_style b         (*   { finish_using_style() } *)
                        else b
              end in
    ((s', b'), item).

  (* impl Iterator: size_hint (forwarded, fix e76d6b6), iter.rs:132-134 *)
  Definition w_size_hint (w : W) : N * option N := i_size_hint I (fst w).

  (* impl ExactSizeIterator: len, iter.rs:138-140 *)
  Definition w_len (w : W) : N := i_len I (fst w).

  (* impl DoubleEndedIterator: next_back, iter.rs:144-154 *)
  Definition w_next_back (w : W) : W * option Item :=
    let '(s, b) := w in
    let '(s', item) := i_next_back I s in
    let b' := match item with
              | Some _ => bar_inc b 1
              | None => if negb (bar_is_finished b) then bar_finish_using_style b else b
              end in
    ((s', b'), item).

  (* impl io::Read: read 160-164, read_vectored 166-170, read_to_string 172-176, read_exact 178-182 *)
  Definition w_read (w : W) (n : N) : W * (Data * io_result E N) :=
    let '(s, b) := w in
    let '(s', (d, r)) := i_read I s n in
    match r with
    | IoErr e => ((s', b), (d, IoErr e))                      (* `?` returns the error *)
    | IoOk inc => ((s', bar_inc b inc), (d, IoOk inc))        (* inc(inc as u64); Ok(inc) *)
    end.

  Definition w_read_vectored (w : W) (ns : list N) : W * (Data * io_result E N) :=
    let '(s, b) := w in
    let '(s', (d, r)) := i_read_vectored I s ns in
    match r with
    | IoErr e => ((s', b), (d, IoErr e))
    | IoOk inc => ((s', bar_inc b inc), (d, IoOk inc))
    end.

  Definition w_read_to_string (w : W) : W * (Data * io_result E N) :=
    let '(s, b) := w in
    let '(s', (d, r)) := i_read_to_string I s in
    match r with
    | IoErr e => ((s', b), (d, IoErr e))
    | IoOk inc => ((s', bar_inc b inc), (d, IoOk inc))
    end.

  (* read_exact: on Ok(()) counts buf.len(); on Err counts nothing, whatever was transferred *)
  Definition w_read_exact (w : W) (n : N) : W * (Data * io_result E unit) :=
    let '(s, b) := w in
    let '(s', (d, r)) := i_read_exact I s n in
    match r with
    | IoErr e => ((s', b), (d, IoErr e))
    | IoOk tt => ((s', bar_inc b n), (d, IoOk tt))            (* inc(buf.len() as u64) *)
    end.

  (* impl io::BufRead: fill_buf 186-188, consume 190-193 *)
  Definition w_fill_buf (w : W) : W * io_result E Data :=
    let '(s, b) := w in
    let '(s', r) := i_fill_buf I s in ((s', b), r).

  Definition w_consume (w : W) (amt : N) : W :=
    let '(s, b) := w in
    (i_consume I s amt, bar_inc b amt).                       (* it.consume(amt); inc(amt) *)

  (* impl io::Seek: seek 197-202, stream_position 205-207 *)
  Definition w_seek (w : W) (f : seek_from) : W * io_result E N :=
    let '(s, b) := w in
    let '(s', r) := i_seek I s f in
    match r with
    | IoOk pos => ((s', bar_set_position b pos), IoOk pos)    (* .map(|pos| { set_position(pos); pos }) *)
    | IoErr e => ((s', b), IoErr e)
    end.

  Definition w_stream_position (w : W) : W * io_result E N :=
    let '(s, b) := w in
    let '(s', r) := i_stream_position I s in ((s', b), r).

  (* impl io::Write: write 335-340, write_vectored 342-347, flush 349-351 *)
  Definition w_write (w : W) (d : Data) : W * io_result E N :=
    let '(s, b) := w in
    let '(s', r) := i_write I s d in
    match r with
    | IoOk inc => ((s', bar_inc b inc), IoOk inc)
    | IoErr e => ((s', b), IoErr e)
    end.

  Definition w_write_vectored (w : W) (ds : list Data) : W * io_result E N :=
    let '(s, b) := w in
    let '(s', r) := i_write_vectored I s ds in
    match r with
    | IoOk inc => ((s', bar_inc b inc), IoOk inc)
    | IoErr e => ((s', b), IoErr e)
    end.

  Definition w_flush (w : W) : W * io_result E unit :=
    let '(s, b) := w in
    let '(s', r) := i_flush I s in ((s', b), r).

  (* impl tokio AsyncWrite: poll_write 213-224, poll_flush 245-247, poll_shutdown 249-251 *)
  Definition w_poll_write (w : W) (d : Data) : W * poll (io_result E N) :=
    let '(s, b) := w in
    let '(s', r) := i_poll_write I s d in
    match r with
    | Ready (IoOk inc) => ((s', bar_inc b inc), Ready (IoOk inc))
    | Ready (IoErr e) => ((s', b), Ready (IoErr e))
    | Pending => ((s', b), Pending)
    end.

  (* tokio-1.x src/io/async_write.rs:152-162, the DEFAULT body of poll_write_vectored (what ran on
     the adaptor before fix 2747e49): bufs.iter().find(|b| !b.is_empty()).map_or(&[][..], |b| &**b) *)
  Definition first_nonempty (ds : list Data) : Data :=
    match find (fun d => negb (buf_is_empty B d)) ds with
    | Some d => d
    | None => buf_empty B
    end.

  (* HEAD, iter.rs:226-243: poll_write_vectored forwarded, Ready(Ok(n)) counted like poll_write;
     is_write_vectored forwarded.
     Before fix 2747e49 the impl overrode neither, so tokio's defaults ran ON THE ADAPTOR:
     poll_write(first non-empty slice) resp. false - the inner object's own methods were never called. *)
  Definition w_poll_write_vectored (w : W) (ds : list Data) : W * poll (io_result E N) :=
    if v_async_write_vectored V then
      let '(s, b) := w in
      let '(s', r) := i_poll_write_vectored I s ds in
      match r with
      | Ready (IoOk inc) => ((s', bar_inc b inc), Ready (IoOk inc))
      | Ready (IoErr e) => ((s', b), Ready (IoErr e))
      | Pending => ((s', b), Pending)
      end
    else w_poll_write w (first_nonempty ds).

  Definition w_is_write_vectored (w : W) : bool :=
    if v_async_write_vectored V then i_is_write_vectored I (fst w) else false.

  Definition w_poll_flush (w : W) : W * poll (io_result E unit) :=
    let '(s, b) := w in
    let '(s', r) := i_poll_flush I s in ((s', b), r).

  Definition w_poll_shutdown (w : W) : W * poll (io_result E unit) :=
    let '(s, b) := w in
    let '(s', r) := i_poll_shutdown I s in ((s', b), r).

  (* impl tokio AsyncRead: poll_read, iter.rs:257-270.
     HEAD: `(buf.filled().len() as u64).saturating_sub(prev_len)` (N subtraction truncates at 0), in
     every build mode.  Ready(Err) counts the bytes filled before the error as well.
     Before fix c811d79: `buf.filled().len() as u64 - prev_len`, a checked subtraction in builds with
     overflow checks: an inner object that SHRINKS the filled region made it panic (builds without
     overflow checks wrapped: the position moved BACK; not modelled). *)
  Definition w_poll_read (w : W) (filled cap : N)
    : outcome (W * (Data * N * poll (io_result E unit))) :=
    let '(s, b) := w in
    let prev_len := filled in
    let '(s', (d, filled', r)) := i_poll_read I s filled cap in
    match r with
    | Ready e =>
        if negb (v_poll_read_saturating V) && (filled' <? prev_len) then Panic 1
        else Ok ((s', bar_inc b (filled' - prev_len)), (d, filled', Ready e))
    | Pending => Ok ((s', b), (d, filled', Pending))
    end.

  (* impl tokio AsyncSeek: start_seek 276-278, poll_complete 280-287 (sets the position, fix 7186563) *)
  Definition w_start_seek (w : W) (f : seek_from) : W * io_result E unit :=
    let '(s, b) := w in
    let '(s', r) := i_start_seek I s f in ((s', b), r).

  Definition w_poll_complete (w : W) : W * poll (io_result E N) :=
    let '(s, b) := w in
    let '(s', r) := i_poll_complete I s in
    match r with
    | Ready (IoOk pos) => ((s', bar_set_position b pos), Ready (IoOk pos))
    | Ready (IoErr e) => ((s', b), Ready (IoErr e))
    | Pending => ((s', b), Pending)
    end.

  (* impl tokio AsyncBufRead: poll_fill_buf 295-298, consume 300-303 (after fix e424c71: counts in consume, like BufRead) *)
  Definition w_poll_fill_buf (w : W) : W * poll (io_result E Data) :=
    let '(s, b) := w in
    let '(s', r) := i_poll_fill_buf I s in ((s', b), r).

  Definition w_aconsume (w : W) (amt : N) : W :=
    let '(s, b) := w in
    (i_aconsume I s amt, bar_inc b amt).

  (* impl futures_core::Stream: poll_next, iter.rs:311-327.
     HEAD: Ready(None) has the same `!is_finished()` guard as Iterator::next.
     Before fix 3a319c2 there was no guard: every Ready(None) ran finish_using_style again. *)
  Definition w_poll_next (w : W) : W * poll (option Item) :=
    let '(s, b) := w in
    let '(s', item) := i_poll_next I s in
    let b' := match item with
              | Ready (Some _) => bar_inc b 1
              | Ready None => if v_stream_end_guard V && bar_is_finished b then b
                              else bar_finish_using_style b
              | Pending => b
              end in
    ((s', b'), item).

  (* HEAD, iter.rs:329-331: Stream::size_hint forwarded like Iterator::size_hint.
     Before fix 7fc986e it was not overridden: futures_core's default (stream.rs:105-107). *)
  Definition w_stream_size_hint (w : W) : N * option N :=
    if v_stream_size_hint V then i_stream_size_hint I (fst w) else (0, None).

  (** ** One type for "a call on the adaptor" / "the same call on the bare object" *)
  Inductive call :=
  | CNext | CNextBack | CSizeHint | CLen
  | CRead (n : N) | CReadVectored (ns : list N) | CReadToString | CReadExact (n : N)
  | CFillBuf | CConsume (amt : N)
  | CSeek (f : seek_from) | CStreamPosition
  | CWrite (d : Data) | CWriteVectored (ds : list Data) | CFlush
  | CPollWrite (d : Data) | CPollWriteVectored (ds : list Data) | CIsWriteVectored
  | CPollFlush | CPollShutdown
  | CPollRead (filled cap : N)
  | CStartSeek (f : seek_from) | CPollComplete
  | CPollFillBuf | CAConsume (amt : N)
  | CPollNext | CStreamSizeHint.

  Inductive ret :=
  | RItem (o : option Item)
  | RHint (h : N * option N)
  | RLen (n : N)
  | RBool (x : bool)                               (* is_write_vectored *)
  | RCount (d : Data) (r : io_result E N)          (* read-like: data put in the buffer, result *)
  | RExact (d : Data) (r : io_result E unit)
  | RSlice (r : io_result E Data)
  | RUnit                                          (* consume *)
  | RNum (r : io_result E N)                       (* seek, stream_position, write* *)
  | RDone (r : io_result E unit)                   (* flush, start_seek *)
  | RPollNum (r : poll (io_result E N))
  | RPollDone (r : poll (io_result E unit))
  | RPollRead (d : Data) (filled' : N) (r : poll (io_result E unit))
  | RPollSlice (r : poll (io_result E Data))
  | RPollItem (r : poll (option Item)).

  (** the call on the UNWRAPPED object *)
  Definition bare_step (s : S) (c : call) : S * ret :=
    match c with
    | CNext => let '(s', o) := i_next I s in (s', RItem o)
    | CNextBack => let '(s', o) := i_next_back I s in (s', RItem o)
    | CSizeHint => (s, RHint (i_size_hint I s))
    | CLen => (s, RLen (i_len I s))
    | CRead n => let '(s', (d, r)) := i_read I s n in (s', RCount d r)
    | CReadVectored ns => let '(s', (d, r)) := i_read_vectored I s ns in (s', RCount d r)
    | CReadToString => let '(s', (d, r)) := i_read_to_string I s in (s', RCount d r)
    | CReadExact n => let '(s', (d, r)) := i_read_exact I s n in (s', RExact d r)
    | CFillBuf => let '(s', r) := i_fill_buf I s in (s', RSlice r)
    | CConsume amt => (i_consume I s amt, RUnit)
    | CSeek f => let '(s', r) := i_seek I s f in (s', RNum r)
    | CStreamPosition => let '(s', r) := i_stream_position I s in (s', RNum r)
    | CWrite d => let '(s', r) := i_write I s d in (s', RNum r)
    | CWriteVectored ds => let '(s', r) := i_write_vectored I s ds in (s', RNum r)
    | CFlush => let '(s', r) := i_flush I s in (s', RDone r)
    | CPollWrite d => let '(s', r) := i_poll_write I s d in (s', RPollNum r)
    | CPollWriteVectored ds => let '(s', r) := i_poll_write_vectored I s ds in (s', RPollNum r)
    | CIsWriteVectored => (s, RBool (i_is_write_vectored I s))
    | CPollFlush => let '(s', r) := i_poll_flush I s in (s', RPollDone r)
    | CPollShutdown => let '(s', r) := i_poll_shutdown I s in (s', RPollDone r)
    | CPollRead f cap => let '(s', (d, f', r)) := i_poll_read I s f cap in (s', RPollRead d f' r)
    | CStartSeek f => let '(s', r) := i_start_seek I s f in (s', RDone r)
    | CPollComplete => let '(s', r) := i_poll_complete I s in (s', RPollNum r)
    | CPollFillBuf => let '(s', r) := i_poll_fill_buf I s in (s', RPollSlice r)
    | CAConsume amt => (i_aconsume I s amt, RUnit)
    | CPollNext => let '(s', r) := i_poll_next I s in (s', RPollItem r)
    | CStreamSizeHint => (s, RHint (i_stream_size_hint I s))
    end.

  (** the call on the adaptor *)
  Definition wrap_step (w : W) (c : call) : outcome (W * ret) :=
    match c with
    | CNext => let '(w', o) := w_next w in Ok (w', RItem o)
    | CNextBack => let '(w', o) := w_next_back w in Ok (w', RItem o)
    | CSizeHint => Ok (w, RHint (w_size_hint w))
    | CLen => Ok (w, RLen (w_len w))
    | CRead n => let '(w', (d, r)) := w_read w n in Ok (w', RCount d r)
    | CReadVectored ns => let '(w', (d, r)) := w_read_vectored w ns in Ok (w', RCount d r)
    | CReadToString => let '(w', (d, r)) := w_read_to_string w in Ok (w', RCount d r)
    | CReadExact n => let '(w', (d, r)) := w_read_exact w n in Ok (w', RExact d r)
    | CFillBuf => let '(w', r) := w_fill_buf w in Ok (w', RSlice r)
    | CConsume amt => Ok (w_consume w amt, RUnit)
    | CSeek f => let '(w', r) := w_seek w f in Ok (w', RNum r)
    | CStreamPosition => let '(w', r) := w_stream_position w in Ok (w', RNum r)
    | CWrite d => let '(w', r) := w_write w d in Ok (w', RNum r)
    | CWriteVectored ds => let '(w', r) := w_write_vectored w ds in Ok (w', RNum r)
    | CFlush => let '(w', r) := w_flush w in Ok (w', RDone r)
    | CPollWrite d => let '(w', r) := w_poll_write w d in Ok (w', RPollNum r)
    | CPollWriteVectored ds => let '(w', r) := w_poll_write_vectored w ds in Ok (w', RPollNum r)
    | CIsWriteVectored => Ok (w, RBool (w_is_write_vectored w))
    | CPollFlush => let '(w', r) := w_poll_flush w in Ok (w', RPollDone r)
    | CPollShutdown => let '(w', r) := w_poll_shutdown w in Ok (w', RPollDone r)
    | CPollRead f cap =>
        match w_poll_read w f cap with
        | Ok (w', (d, f', r)) => Ok (w', RPollRead d f' r)
        | Panic k => Panic k
        end
    | CStartSeek f => let '(w', r) := w_start_seek w f in Ok (w', RDone r)
    | CPollComplete => let '(w', r) := w_poll_complete w in Ok (w', RPollNum r)
    | CPollFillBuf => let '(w', r) := w_poll_fill_buf w in Ok (w', RPollSlice r)
    | CAConsume amt => Ok (w_aconsume w amt, RUnit)
    | CPollNext => let '(w', r) := w_poll_next w in Ok (w', RPollItem r)
    | CStreamSizeHint => Ok (w, RHint (w_stream_size_hint w))
    end.

  (** ** Specification side: what a (call, result) pair of the BARE object must do to the bar
      according to the PROPERTY TEXT ("the position advances by exactly the number of items or
      bytes actually transferred (a seek sets it to the new offset), and exhausting an iterator
      finishes the bar according to its finish behaviour").  It does not mention [V]: HEAD
      ([head_code]) meets it for every call; where the pre-fix code departed from it, [known_dev]
      below names the class and props/C17.v has a [_refuted] regression theorem.  Three readings of the text are built in; they are listed, with reasons,
      under "Interpretations" in docs/C17.md:
      I1 read_exact returning Err: the std contract leaves the number of bytes read unspecified and
         the call does not report it, so no wrapper can observe it: nothing is counted;
      I2 poll_read returning Pending: by tokio's contract no data was transferred: nothing is counted;
         on Ready - Ok or Err - the growth of the filled region is what reached the caller's buffer
         (a region that shrank transferred nothing: N subtraction truncates at 0);
      I3 consume(amt): the caller declares amt bytes of the lent slice as taken (BufRead's contract
         obliges the caller to keep amt within that slice): amt is counted. *)
  Inductive effect :=
  | EAdd (n : N)            (* n items / bytes were transferred *)
  | ESet (p : N)            (* a seek arrived at offset p *)
  | EExhausted              (* an iterator (blocking or Stream) reported exhaustion *)
  | ENothing.

  Definition effect_of (c : call) (r : ret) : effect :=
    match c, r with
    | (CNext | CNextBack), RItem (Some _) => EAdd 1
    | (CNext | CNextBack), RItem None => EExhausted
    | CPollNext, RPollItem (Ready (Some _)) => EAdd 1
    | CPollNext, RPollItem (Ready None) => EExhausted
    | (CRead _ | CReadVectored _ | CReadToString), RCount _ (IoOk n) => EAdd n
    | CReadExact n, RExact _ (IoOk _) => EAdd n
    | (CConsume amt | CAConsume amt), _ => EAdd amt
    | (CWrite _ | CWriteVectored _), RNum (IoOk n) => EAdd n
    | (CPollWrite _ | CPollWriteVectored _), RPollNum (Ready (IoOk n)) => EAdd n
    | CPollRead f _, RPollRead _ f' (Ready _) => EAdd (f' - f)
    | CSeek _, RNum (IoOk p) => ESet p
    | CPollComplete, RPollNum (Ready (IoOk p)) => ESet p
    | _, _ => ENothing
    end.

  (** "finishes the bar according to its finish behaviour": a bar that is already finished
      (by the user, or by an earlier exhaustion) has nothing left to finish *)
  Definition apply_effect (b : bar) (e : effect) : bar :=
    match e with
    | EAdd n => bar_inc b n
    | ESet p => bar_set_position b p
    | EExhausted => if bar_is_finished b then b else bar_finish_using_style b
    | ENothing => b
    end.

  (** THE PROPERTY FOR ONE CALL: same new inner state and same result as the bare call, bar =
      prescribed effect of that result, no panic *)
  Definition meets_spec (s : S) (b : bar) (c : call) : Prop :=
    wrap_step (s, b) c =
      (let '(s', r) := bare_step s c in Ok ((s', apply_effect b (effect_of c r)), r)).

  Definition hint_is_default (h : N * option N) : bool :=
    match h with (0, None) => true | _ => false end.

  (** The decidable classes (predicates on the bar before the call, the call and what the BARE
      object returned) in which a variant [V] of the code that LACKS one of the four
      fixes misses [meets_spec]: one per missing fix.  Empty for [head_code]; used only by the
      regression statements about [pre_fix_code]. *)
  Definition known_dev (b : bar) (c : call) (r : ret) : bool :=
    match c, r with
    | CStreamSizeHint, RHint h =>                 (* stream-size-hint-not-forwarded, fixed 7fc986e *)
        negb (v_stream_size_hint V) && negb (hint_is_default h)
    | CPollNext, RPollItem (Ready None) =>        (* stream-end-refinishes-finished-bar, fixed 3a319c2 *)
        negb (v_stream_end_guard V) && bar_is_finished b
    | CPollRead f _, RPollRead _ f' (Ready _) =>  (* poll-read-filled-shrunk-underflow, fixed c811d79 *)
        negb (v_poll_read_saturating V) && (f' <? f)
    | CPollWriteVectored _, _ =>                  (* async-write-vectored-not-forwarded, fixed 2747e49 *)
        negb (v_async_write_vectored V)
    | CIsWriteVectored, RBool x =>
        negb (v_async_write_vectored V) && x
    | _, _ => false
    end.

  (** the shapes of the results a bare call can produce *)
  Definition ret_is_err (r : ret) : bool :=
    match r with
    | RCount _ (IoErr _) | RExact _ (IoErr _) | RSlice (IoErr _) | RNum (IoErr _)
    | RDone (IoErr _) | RPollNum (Ready (IoErr _)) | RPollDone (Ready (IoErr _))
    | RPollSlice (Ready (IoErr _)) => true
    | _ => false
    end.
  Definition ret_is_pending (r : ret) : bool :=
    match r with
    | RPollNum Pending | RPollDone Pending | RPollRead _ _ Pending | RPollSlice Pending
    | RPollItem Pending => true
    | _ => false
    end.

  (** ** Callers: arbitrary adaptive programs over the calls (std's default methods –
      read_to_end, write_all, read_line, nth, fold, io::copy ... – are such programs) *)
  Inductive prog :=
  | PDone
  | PCall (c : call) (k : ret -> prog).

  Fixpoint run_bare (p : prog) (s : S) : S * list (call * ret) :=
    match p with
    | PDone => (s, [])
    | PCall c k =>
        let '(s', r) := bare_step s c in
        let '(s'', t) := run_bare (k r) s' in
        (s'', (c, r) :: t)
    end.

  Fixpoint run_wrap (p : prog) (w : W) : outcome (W * list (call * ret)) :=
    match p with
    | PDone => Ok (w, [])
    | PCall c k =>
        match wrap_step w c with
        | Panic site => Panic site
        | Ok (w', r) =>
            match run_wrap (k r) w' with
            | Panic site => Panic site
            | Ok (w'', t) => Ok (w'', (c, r) :: t)
            end
        end
    end.

  (** no step of the (bare) trace, started with bar [b], falls into a [known_dev] class *)
  Fixpoint trace_ok (b : bar) (t : list (call * ret)) : bool :=
    match t with
    | [] => true
    | (c, r) :: t' =>
        negb (known_dev b c r) && trace_ok (apply_effect b (effect_of c r)) t'
    end.

  Definition bar_after (b : bar) (t : list (call * ret)) : bar :=
    fold_left (fun b cr => apply_effect b (effect_of (fst cr) (snd cr))) t b.

  (** closed form of the position over a trace that only transfers (no seek, no end) *)
  Definition eff (cr : call * ret) : effect := effect_of (fst cr) (snd cr).
  Definition adds_only (t : list (call * ret)) : bool :=
    forallb (fun cr => match eff cr with EAdd _ | ENothing => true | _ => false end) t.
  Definition moved (t : list (call * ret)) : N :=
    fold_right (fun cr a => match eff cr with EAdd n => n + a | _ => a end) 0 t.

End Wrappers.

Arguments CNext {Data}.
Arguments CNextBack {Data}.
Arguments CSizeHint {Data}.
Arguments CLen {Data}.
Arguments CRead {Data} n.
Arguments CReadVectored {Data} ns.
Arguments CReadToString {Data}.
Arguments CReadExact {Data} n.
Arguments CFillBuf {Data}.
Arguments CConsume {Data} amt.
Arguments CSeek {Data} f.
Arguments CStreamPosition {Data}.
Arguments CWrite {Data} d.
Arguments CWriteVectored {Data} ds.
Arguments CFlush {Data}.
Arguments CPollWrite {Data} d.
Arguments CPollWriteVectored {Data} ds.
Arguments CIsWriteVectored {Data}.
Arguments CPollFlush {Data}.
Arguments CPollShutdown {Data}.
Arguments CPollRead {Data} filled cap.
Arguments CStartSeek {Data} f.
Arguments CPollComplete {Data}.
Arguments CPollFillBuf {Data}.
Arguments CAConsume {Data} amt.
Arguments CPollNext {Data}.
Arguments CStreamSizeHint {Data}.
Arguments RItem {E Item Data} o.
Arguments RHint {E Item Data} h.
Arguments RLen {E Item Data} n.
Arguments RBool {E Item Data} x.
Arguments RCount {E Item Data} d r.
Arguments RExact {E Item Data} d r.
Arguments RSlice {E Item Data} r.
Arguments RUnit {E Item Data}.
Arguments RNum {E Item Data} r.
Arguments RDone {E Item Data} r.
Arguments RPollNum {E Item Data} r.
Arguments RPollDone {E Item Data} r.
Arguments RPollRead {E Item Data} d filled' r.
Arguments RPollSlice {E Item Data} r.
Arguments RPollItem {E Item Data} r.
Arguments PDone {E Item Data}.
Arguments PCall {E Item Data} c k.

(** vocabulary of the finishing / counting statements *)
Definition same_but_pos (b b' : bar) : Prop :=
  b_len b' = b_len b /\ b_status b' = b_status b /\ b_msg b' = b_msg b
  /\ b_on_finish b' = b_on_finish b.
Definition finish_sets_pos (f : finish) : bool :=
  match f with AndLeave | WithMessage _ | AndClear => true | _ => false end.
Definition finish_message (f : finish) : option (list N) :=
  match f with WithMessage m | AbandonWithMessage m => Some m | _ => None end.

(* ------------------------------------------------------------------ *)
(** * rayon: ProgressConsumer / ProgressFolder / ProgressProducer / ProgressProducerIter *)
(** The base consumer / producer are arbitrary (Variables); the driver (rayon's
    bridge, a ProducerCallback, the inner parallel iterator) is an arbitrary split
    tree whose leaves run on arbitrary threads.  Every wrapper forwards to the base
    and hands each part a clone of the same ProgressBar; the only bar operation is
    [inc(1)], so the model returns, per leaf (= per sequential task), the list of
    increments that leaf performs on the shared bar. *)
Section Rayon.
  Variables Item C F R Res P It : Type.
  (* rayon::iter::plumbing::{Consumer, UnindexedConsumer, Folder, Reducer} of the base *)
  Variable c_split_at : C -> N -> C * C * R.
  Variable c_split_off_left : C -> C.
  Variable c_to_reducer : C -> R.
  Variable c_into_folder : C -> F.
  Variable f_consume : F -> Item -> F.
  Variable f_complete : F -> Res.
  Variable r_reduce : R -> Res -> Res -> Res.
  (* rayon::iter::plumbing::Producer of the base and its IntoIter *)
  Variable p_split_at : P -> N -> P * P.
  Variable p_into_iter : P -> It.
  Variable it_next : It -> It * option Item.
  Variable it_next_back : It -> It * option Item.

  (** how the driver uses a consumer: split_at / split_off_left+to_reducer / fold a leaf *)
  Inductive dtree :=
  | DLeaf (items : list Item)                 (* into_folder(); consume(item)...; complete() *)
  | DSplitAt (index : N) (l r : dtree)
  | DSplitOff (l r : dtree).

  Fixpoint drive_bare (c : C) (t : dtree) : Res :=
    match t with
    | DLeaf items => f_complete (fold_left f_consume items (c_into_folder c))
    | DSplitAt i l r =>
        let '(cl, cr, red) := c_split_at c i in
        r_reduce red (drive_bare cl l) (drive_bare cr r)
    | DSplitOff l r =>
        let cl := c_split_off_left c in
        let red := c_to_reducer c in
        r_reduce red (drive_bare cl l) (drive_bare c r)
    end.

  (* ProgressFolder::consume, rayon.rs:222-228: progress.inc(1); base.consume(item) *)
  Definition pf_consume (fe : F * list N) (item : Item) : F * list N :=
    let '(f, evs) := fe in (f_consume f item, evs ++ [1]).

  (* ProgressConsumer: split_at 183-190, into_folder 192-197, split_off_left 205-207,
     to_reducer 209-211; ProgressFolder::complete 230-232 *)
  Fixpoint drive_wrap (c : C) (t : dtree) : Res * list (list N) :=
    match t with
    | DLeaf items =>
        let '(f, evs) := fold_left pf_consume items (c_into_folder c, []) in
        (f_complete f, [evs])
    | DSplitAt i l r =>
        let '(cl, cr, red) := c_split_at c i in
        let '(rl, el) := drive_wrap cl l in
        let '(rr, er) := drive_wrap cr r in
        (r_reduce red rl rr, el ++ er)
    | DSplitOff l r =>
        let cl := c_split_off_left c in
        let red := c_to_reducer c in
        let '(rl, el) := drive_wrap cl l in
        let '(rr, er) := drive_wrap c r in
        (r_reduce red rl rr, el ++ er)
    end.

  Fixpoint dleaves (t : dtree) : list (list Item) :=
    match t with
    | DLeaf items => [items]
    | DSplitAt _ l r | DSplitOff l r => dleaves l ++ dleaves r
    end.

  (** how a ProducerCallback uses a producer: split_at / into_iter and iterate a leaf *)
  Inductive itcall := INext | INextBack.
  Inductive ptree :=
  | PLeaf (calls : list itcall)
  | PSplit (index : N) (l r : ptree).

  Definition it_call (it : It) (c : itcall) : It * option Item :=
    match c with INext => it_next it | INextBack => it_next_back it end.

  Fixpoint leaf_bare (it : It) (calls : list itcall) : It * list (option Item) :=
    match calls with
    | [] => (it, [])
    | c :: r =>
        let '(it', o) := it_call it c in
        let '(it'', os) := leaf_bare it' r in (it'', o :: os)
    end.

  (* ProgressProducerIter::next 138-144 / next_back 158-164:
     let item = self.it.next(); if item.is_some() { self.progress.inc(1) }; item *)
  Fixpoint leaf_wrap (it : It) (calls : list itcall) : It * list (option Item) * list N :=
    match calls with
    | [] => (it, [], [])
    | c :: r =>
        let '(it', o) := it_call it c in
        let '(it'', os, evs) := leaf_wrap it' r in
        (it'', o :: os, match o with Some _ => 1 :: evs | None => evs end)
    end.

  Fixpoint produce_bare (p : P) (t : ptree) : list (It * list (option Item)) :=
    match t with
    | PLeaf calls => [leaf_bare (p_into_iter p) calls]
    | PSplit i l r => let '(pl, pr) := p_split_at p i in produce_bare pl l ++ produce_bare pr r
    end.

  (* ProgressProducer::split_at 113-126 (both halves share the bar), into_iter 98-103 *)
  Fixpoint produce_wrap (p : P) (t : ptree) : list (It * list (option Item)) * list (list N) :=
    match t with
    | PLeaf calls =>
        let '(it, os, evs) := leaf_wrap (p_into_iter p) calls in ([(it, os)], [evs])
    | PSplit i l r =>
        let '(pl, pr) := p_split_at p i in
        let '(ol, el) := produce_wrap pl l in
        let '(or, er) := produce_wrap pr r in
        (ol ++ or, el ++ er)
    end.

  Definition count_some (os : list (option Item)) : nat :=
    length (filter (fun o => match o with Some _ => true | None => false end) os).

  (** vocabulary of the rayon statements *)
  Definition items_consumed (t : dtree) : nat :=
    fold_right (fun items a => (length items + a)%nat) 0%nat (dleaves t).
  Definition items_yielded (ls : list (It * list (option Item))) : nat :=
    fold_right (fun l a => (count_some (snd l) + a)%nat) 0%nat ls.
End Rayon.

Arguments DLeaf {Item} items.
Arguments DSplitAt {Item} index l r.
Arguments DSplitOff {Item} l r.

(** every schedule of the leaves' increments on the shared atomic position *)
Inductive Interleave {A} : list (list A) -> list A -> Prop :=
| Interleave_nil : forall ts, Forall (fun t => t = []) ts -> Interleave ts []
| Interleave_cons : forall pre x t post l,
    Interleave (pre ++ t :: post) l -> Interleave (pre ++ (x :: t) :: post) (x :: l).

Definition bar_run_incs (b : bar) (l : list N) : bar := fold_left bar_inc l b.

Definition total_len {A} (ts : list (list A)) : nat := length (concat ts).

(* ------------------------------------------------------------------ *)
(** * The scripted inner object of the harness (harness/src/bin/c17.rs `Scripted`) *)
(** One script event is consumed by every inner call that has an outcome to
    choose; the object keeps a stream offset [s_ctr] (read data is the pattern
    (ctr+i) mod 251) and a rolling hash [s_sink] of every argument it was given. *)
Inductive ev :=
| EvN (n : N)                 (* succeed with count / offset n *)
| EvErr (c : N)               (* fail with error code c *)
| EvPend                      (* Pending (blocking calls: error 11) *)
| EvItem (x : N)              (* yield item x *)
| EvEnd                       (* None / EOF *)
| EvPartialErr (k c : N)      (* transfer k bytes, then fail with c *)
| EvShrink (k : N).           (* poll_read: shrink the filled region by k (contract breach) *)

Record sstate := { s_evs : list ev; s_ctr : N; s_sink : N }.

Definition HASH_M : N := 2305843009213693951.
Definition mix (h x : N) : N := (h * 1000003 + x + 1) mod HASH_M.

Fixpoint pat_nat (ctr : N) (k : nat) : list N :=
  match k with O => [] | S k' => (ctr mod 251) :: pat_nat (wadd64 ctr 1) k' end.
Definition pat (ctr k : N) : list N := pat_nat ctr (N.to_nat k).
Definition pat_str (ctr k : N) : list N := map (fun x => 97 + x mod 26) (pat ctr k).

Definition spop (s : sstate) : ev * sstate :=
  match s_evs s with
  | [] => (EvEnd, s)
  | e :: r => (e, {| s_evs := r; s_ctr := s_ctr s; s_sink := s_sink s |})
  end.
Definition s_adv (s : sstate) (k : N) : sstate :=
  {| s_evs := s_evs s; s_ctr := wadd64 (s_ctr s) k; s_sink := s_sink s |}.
Definition s_goto (s : sstate) (k : N) : sstate :=
  {| s_evs := s_evs s; s_ctr := k; s_sink := s_sink s |}.
Definition s_mix (s : sstate) (x : N) : sstate :=
  {| s_evs := s_evs s; s_ctr := s_ctr s; s_sink := mix (s_sink s) x |}.

Inductive cres := CK (k : N) | CE (c : N) | CP.
Definition norm (e : ev) : cres :=
  match e with
  | EvN k => CK k | EvErr c => CE c | EvPend => CP
  | EvPartialErr _ c => CE c
  | EvItem _ | EvEnd | EvShrink _ => CK 0
  end.

Definition E_WOULDBLOCK : N := 11.
Definition E_EOF : N := 38.

Definition sc_item (back : bool) (s : sstate) : sstate * option N :=
  let '(e, s') := spop s in
  match e with
  | EvItem x => (s', Some (if back then x + 1000000 else x))
  | _ => (s', None)
  end.

Fixpoint leading_items (l : list ev) : N :=
  match l with EvItem _ :: r => 1 + leading_items r | _ => 0 end.

Definition sc_read (s : sstate) (n : N) : sstate * (list N * io_result N N) :=
  let '(e, s') := spop s in
  match norm e with
  | CK k => let m := N.min k n in (s_adv s' m, (pat (s_ctr s') m, IoOk m))
  | CE c => (s', ([], IoErr c))
  | CP => (s', ([], IoErr E_WOULDBLOCK))
  end.

Definition sum_N (l : list N) : N := fold_right N.add 0 l.

Definition sc_read_to_string (s : sstate) : sstate * (list N * io_result N N) :=
  let '(e, s') := spop s in
  match norm e with
  | CK k => let m := N.min k 40 in (s_adv s' m, (pat_str (s_ctr s') m, IoOk m))
  | CE c => (s', ([], IoErr c))
  | CP => (s', ([], IoErr E_WOULDBLOCK))
  end.

Definition sc_read_exact (s : sstate) (n : N) : sstate * (list N * io_result N unit) :=
  let '(e, s') := spop s in
  match e with
  | EvPartialErr k c => let m := N.min k n in (s_adv s' m, (pat (s_ctr s') m, IoErr c))
  | _ =>
      match norm e with
      | CK k => if n <=? k then (s_adv s' n, (pat (s_ctr s') n, IoOk tt))
                else (s_adv s' k, (pat (s_ctr s') k, IoErr E_EOF))
      | CE c => (s', ([], IoErr c))
      | CP => (s', ([], IoErr E_WOULDBLOCK))
      end
  end.

Definition sc_fill_buf (s : sstate) : sstate * io_result N (list N) :=
  let '(e, s') := spop s in
  match norm e with
  | CK k => (s', IoOk (pat (s_ctr s') (N.min k 32)))
  | CE c => (s', IoErr c)
  | CP => (s', IoErr E_WOULDBLOCK)
  end.

Definition seek_code (s : sstate) (f : seek_from) : sstate :=
  match f with
  | SeekStart n => s_mix (s_mix s 1) n
  | SeekEnd z => s_mix (s_mix s (if (z <? 0)%Z then 2 else 3)) (Z.abs_N z)
  | SeekCurrent z => s_mix (s_mix s (if (z <? 0)%Z then 4 else 5)) (Z.abs_N z)
  end.

Definition sc_seek (s : sstate) (f : seek_from) : sstate * io_result N N :=
  let '(e, s') := spop s in
  let s' := seek_code s' f in
  match norm e with
  | CK k => (s_goto s' k, IoOk k)
  | CE c => (s', IoErr c)
  | CP => (s', IoErr E_WOULDBLOCK)
  end.

Definition sc_write (s : sstate) (d : list N) : sstate * io_result N N :=
  let '(e, s') := spop s in
  match norm e with
  | CK k => let m := N.min k (N.of_nat (length d)) in
            let s2 := fold_left s_mix (firstn (N.to_nat m) d) s' in
            (s_adv s2 m, IoOk m)
  | CE c => (s', IoErr c)
  | CP => (s', IoErr E_WOULDBLOCK)
  end.

Definition sc_done (s : sstate) : sstate * io_result N unit :=
  let '(e, s') := spop s in
  match norm e with
  | CK _ => (s', IoOk tt)
  | CE c => (s', IoErr c)
  | CP => (s', IoErr E_WOULDBLOCK)
  end.

Definition sc_poll_write (s : sstate) (d : list N) : sstate * poll (io_result N N) :=
  match fst (spop s) with
  | EvPend => (snd (spop s), Pending)
  | _ => let '(s', r) := sc_write s d in (s', Ready r)
  end.

(* a GENUINELY vectored async writer: takes bytes across all slices and leaves a tag in the
   argument hash, so that "poll_write_vectored was called" differs from "poll_write was called" *)
Definition sc_poll_write_vectored (s : sstate) (ds : list (list N)) : sstate * poll (io_result N N) :=
  sc_poll_write (s_mix s 10) (concat ds).

Definition sc_poll_done (s : sstate) : sstate * poll (io_result N unit) :=
  match fst (spop s) with
  | EvPend => (snd (spop s), Pending)
  | _ => let '(s', r) := sc_done s in (s', Ready r)
  end.

Definition sc_poll_read (s : sstate) (filled cap : N)
  : sstate * (list N * N * poll (io_result N unit)) :=
  let '(e, s') := spop s in
  match e with
  | EvN k => let m := N.min k (cap - filled) in
             (s_adv s' m, (pat (s_ctr s') m, filled + m, Ready (IoOk tt)))
  | EvPartialErr k c => let m := N.min k (cap - filled) in
             (s_adv s' m, (pat (s_ctr s') m, filled + m, Ready (IoErr c)))
  | EvErr c => (s', ([], filled, Ready (IoErr c)))
  | EvPend => (s', ([], filled, Pending))
  | EvShrink k => (s', ([], filled - N.min k filled, Ready (IoOk tt)))
  | EvItem _ | EvEnd => (s', ([], filled, Ready (IoOk tt)))
  end.

Definition sc_start_seek (s : sstate) (f : seek_from) : sstate * io_result N unit :=
  let '(e, s') := spop s in
  let s' := seek_code s' f in
  match norm e with
  | CK _ => (s', IoOk tt)
  | CE c => (s', IoErr c)
  | CP => (s', IoErr E_WOULDBLOCK)
  end.

Definition sc_poll_complete (s : sstate) : sstate * poll (io_result N N) :=
  let '(e, s') := spop s in
  match norm e with
  | CK k => (s_goto s' k, Ready (IoOk k))
  | CE c => (s', Ready (IoErr c))
  | CP => (s', Pending)
  end.

Definition sc_poll_fill_buf (s : sstate) : sstate * poll (io_result N (list N)) :=
  let '(e, s') := spop s in
  match norm e with
  | CK k => (s', Ready (IoOk (pat (s_ctr s') (N.min k 32))))
  | CE c => (s', Ready (IoErr c))
  | CP => (s', Pending)
  end.

Definition sc_poll_next (s : sstate) : sstate * poll (option N) :=
  let '(e, s') := spop s in
  match e with
  | EvItem x => (s', Ready (Some x))
  | EvPend => (s', Pending)
  | _ => (s', Ready None)
  end.

Definition scripted : inner sstate N N (list N) := {|
  i_next := sc_item false;
  i_next_back := sc_item true;
  i_size_hint := fun s => (leading_items (s_evs s), Some (leading_items (s_evs s)));
  i_len := fun s => leading_items (s_evs s);
  i_read := sc_read;
  i_read_vectored := fun s ns => sc_read s (sum_N ns);
  i_read_to_string := sc_read_to_string;
  i_read_exact := sc_read_exact;
  i_fill_buf := sc_fill_buf;
  i_consume := fun s amt => s_adv (s_mix (s_mix s 8) amt) amt;
  i_seek := sc_seek;
  i_stream_position := fun s => (s, IoOk (s_ctr s));
  i_write := sc_write;
  i_write_vectored := fun s ds => sc_write s (concat ds);
  i_flush := sc_done;
  i_poll_write := sc_poll_write;
  i_poll_write_vectored := sc_poll_write_vectored;
  i_is_write_vectored := fun s => N.even (s_ctr s);
  i_poll_flush := sc_poll_done;
  i_poll_shutdown := fun s => sc_poll_done (s_mix s 7);
  i_poll_read := sc_poll_read;
  i_start_seek := sc_start_seek;
  i_poll_complete := sc_poll_complete;
  i_poll_fill_buf := sc_poll_fill_buf;
  i_aconsume := fun s amt => s_adv (s_mix (s_mix s 9) amt) amt;
  i_poll_next := sc_poll_next;
  i_stream_size_hint := fun s => (leading_items (s_evs s), None)
|}.

(* ------------------------------------------------------------------ *)
(** * Correspondence cases *)
Definition sbuf : buffers (list N) :=
  {| buf_empty := []; buf_is_empty := fun d => match d with [] => true | _ => false end |}.
Definition scall := call (list N).
Definition sret := ret N N (list N).

(** what the test program does to the bar through its own handle, between adaptor calls *)
Inductive userop := USetPos (p : N) | UFinish | UAbandon | UReset | USetLen (l : N).

Definition user_step (b : bar) (u : userop) : bar :=
  match u with
  | USetPos p => bar_set_position b p
  | UFinish => bar_finish b AndLeave              (* ProgressBar::finish *)
  | UAbandon => bar_finish b Abandon              (* ProgressBar::abandon *)
  | UReset => bar_reset b
  | USetLen l => {| b_pos := b_pos b; b_len := Some l; b_status := b_status b;
                    b_msg := b_msg b; b_on_finish := b_on_finish b |}
  end.

Inductive step := SCall (c : scall) | SUser (u : userop).
Inductive obs := ObsRet (r : sret) | ObsPanic | ObsUser.

(* decidable equality on the observed results *)
Definition io_eqb {A} (eqb : A -> A -> bool) (a b : io_result N A) : bool :=
  match a, b with
  | IoOk x, IoOk y => eqb x y
  | IoErr x, IoErr y => N.eqb x y
  | _, _ => false
  end.
Definition poll_eqb {A} (eqb : A -> A -> bool) (a b : poll A) : bool :=
  match a, b with
  | Ready x, Ready y => eqb x y
  | Pending, Pending => true
  | _, _ => false
  end.
Definition unit_eqb (a b : unit) : bool := true.
Definition lN_eqb := list_eqb N.eqb.
Definition hint_eqb (a b : N * option N) : bool :=
  N.eqb (fst a) (fst b) && option_eqb N.eqb (snd a) (snd b).

Definition sret_eqb (a b : sret) : bool :=
  match a, b with
  | RItem x, RItem y => option_eqb N.eqb x y
  | RHint x, RHint y => hint_eqb x y
  | RLen x, RLen y => N.eqb x y
  | RBool x, RBool y => Bool.eqb x y
  | RCount d r, RCount d' r' => lN_eqb d d' && io_eqb N.eqb r r'
  | RExact d r, RExact d' r' => lN_eqb d d' && io_eqb unit_eqb r r'
  | RSlice r, RSlice r' => io_eqb lN_eqb r r'
  | RUnit, RUnit => true
  | RNum r, RNum r' => io_eqb N.eqb r r'
  | RDone r, RDone r' => io_eqb unit_eqb r r'
  | RPollNum r, RPollNum r' => poll_eqb (io_eqb N.eqb) r r'
  | RPollDone r, RPollDone r' => poll_eqb (io_eqb unit_eqb) r r'
  | RPollRead d f r, RPollRead d' f' r' =>
      lN_eqb d d' && N.eqb f f' && poll_eqb (io_eqb unit_eqb) r r'
  | RPollSlice r, RPollSlice r' => poll_eqb (io_eqb lN_eqb) r r'
  | RPollItem r, RPollItem r' => poll_eqb (option_eqb N.eqb) r r'
  | _, _ => false
  end.

Definition sW := W sstate.

Definition bar_obs_ok (b : bar) (p : N) (f : bool) : bool :=
  N.eqb (b_pos b) p && Bool.eqb (bar_is_finished b) f.

(** replays the steps on the model; [None] as soon as an observation differs *)
Fixpoint seq_run (V : variant) (w : sW) (steps : list (step * (obs * N * bool))) : option sW :=
  match steps with
  | [] => Some w
  | (SUser u, (o, p, f)) :: rest =>
      let w' := (fst w, user_step (snd w) u) in
      match o with
      | ObsUser => if bar_obs_ok (snd w') p f then seq_run V w' rest else None
      | _ => None
      end
  | (SCall c, (o, p, f)) :: rest =>
      match wrap_step _ _ _ _ scripted V sbuf w c, o with
      | Ok (w', r), ObsRet r' =>
          if sret_eqb r r' && bar_obs_ok (snd w') p f then seq_run V w' rest else None
      | Panic _, ObsPanic =>
          (* the adaptor panicked before touching the bar; the case ends here *)
          match rest with [] => if bar_obs_ok (snd w) p f then Some w else None | _ => None end
      | _, _ => None
      end
  end.

Inductive c17case :=
| CaseSeq (len : option N) (pos0 : N) (fin : finish) (script : list ev)
          (steps : list (step * (obs * N * bool)))
          (final_msg : list N) (final_sink final_ctr : N) (final_len : option N)
| CaseRayon (len : option N) (pos0 : N) (fin : finish) (items : N)
            (final_pos : N) (final_finished : bool).

Definition bar0 (len : option N) (pos0 : N) (fin : finish) : bar :=
  {| b_pos := pos0; b_len := len; b_status := InProgress; b_msg := []; b_on_finish := fin |}.

(** the correspondence shards evaluate [adaptors_check head_code] (harness/src/bin/c17.rs) *)
Definition adaptors_check (V : variant) (c : c17case) : bool :=
  match c with
  | CaseSeq len pos0 fin script steps fmsg fsink fctr flen =>
      match seq_run V ({| s_evs := script; s_ctr := 0; s_sink := 0 |}, bar0 len pos0 fin) steps with
      | Some (s, b) =>
          lN_eqb (b_msg b) fmsg && N.eqb (s_sink s) fsink && N.eqb (s_ctr s) fctr
          && option_eqb N.eqb (b_len b) flen
      | None => false
      end
  | CaseRayon len pos0 fin items fpos ffin =>
      (* whatever the split and the schedule, [items] increments of 1 reach the bar
         (theorems rayon_consumer_count, rayon_producer_count): evaluate them in one order *)
      let b := N.iter items (fun b => bar_inc b 1) (bar0 len pos0 fin) in
      bar_obs_ok b fpos ffin
  end.
