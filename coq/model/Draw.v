(** DrawState::draw_to_term (src/draw_target.rs:493-575), non-move_cursor branch,
    as a function from (lines, last_line_count, alignment, width, height) to the list
    of TermLike calls it makes and the new last_line_count. *)
From IndModel Require Export Text.

Inductive termop :=
| TUp (n : N) | TDown (n : N) | TClear | TLine (s : text) | TStr (s : text) | TFlush.

Inductive alignment := Top | Bottom.

(* for i in 0..n { clear_line; if i + 1 != n { move_cursor_down(1) } } *)
Fixpoint clear_loop (k : nat) : list termop :=
  match k with
  | O => []
  | S O => [TClear]
  | S k' => TClear :: TDown 1 :: clear_loop k'
  end.

Definition clear_ops (n : N) : list termop :=
  TUp (n - 1) :: clear_loop (N.to_nat n) ++ [TUp (n - 1)].

(* the paint loop, with its `break` *)
Fixpoint paint (ls : list line) (idx total W H real : N) : list termop * N :=
  match ls with
  | [] => ([], real)
  | l :: r =>
      let h := wrapped_height l W in
      if is_bar l && (H <? real + h) then ([], real)
      else
        let real' := if is_bar l then real + h else real in
        let pre := if idx =? 0 then [] else [TLine []] in
        let fill := if (idx + 1 =? total) || ((idx =? 0) && (lwidth l =? 0))
                    then [TStr (spaces (h * W - lwidth l))] else [] in
        let '(ops, rf) := paint r (idx + 1) total W H real' in
        (pre ++ TStr (lt l) :: fill ++ ops, rf)
  end.

(* the paint loop when the region shrank under Bottom alignment (shift > 0), after fix
   "printed lines stay above the padding": the `shift` blank rows (write_line("")) are written
   directly above the first Bar line that is painted; [padded] = they have been written already
   (before the loop when the first line is a Bar line or there is no line at all) *)
Fixpoint paint_pad (ls : list line) (idx total W H real shift : N) (padded : bool)
  : list termop * N * bool :=
  match ls with
  | [] => ([], real, padded)
  | l :: r =>
      let h := wrapped_height l W in
      if is_bar l && (H <? real + h) then ([], real, padded)
      else
        let pad := if is_bar l && negb padded then repeat (TLine []) (N.to_nat shift) else [] in
        let padded' := padded || is_bar l in
        let real' := if is_bar l then real + h else real in
        let pre := if idx =? 0 then [] else [TLine []] in
        let fill := if (idx + 1 =? total) || ((idx =? 0) && (lwidth l =? 0))
                    then [TStr (spaces (h * W - lwidth l))] else [] in
        let '(ops, rf, pf) := paint_pad r (idx + 1) total W H real' shift padded' in
        (pad ++ pre ++ TStr (lt l) :: fill ++ ops, rf, pf)
  end.

Definition starts_with_text (ls : list line) : bool :=
  match ls with
  | l :: _ => negb (is_bar l)
  | [] => false
  end.

(* `full_screen_padding`: an empty frame whose padding (shift > 0) is at least as tall as the
   terminal *)
Definition full_pad (ls : list line) (shift0 H : N) : bool :=
  match ls with [] => (0 <? shift0) && (H <=? shift0) | _ => false end.

(* [below]: DrawState::cursor_below (fix 'println/clear after an empty frame'): the previous draw
   erased rows and drew nothing, the cursor is on the blank row below the remaining output.
   When shift = 0 (always under Top alignment) this is the plain [paint] loop. *)
Definition draw_to_term (ls : list line) (n : N) (al : alignment) (below : bool) (W H : N)
  : list termop * N * bool :=
  (* fix 7d42cff: the redrawn region is never taller than the terminal (rows that scrolled off the
     top can neither be erased nor padded): the count is capped before it is used *)
  let n := N.min n H in
  let full := visual_line_count ls W in
  let shift0 := match al with
                | Bottom => if full <? n then n - full else 0
                | Top => 0
                end in
  (* [any]: the paint loop itself wrote a line (fix dadbe71: a non-empty vector paints nothing when
     its first line is a Bar line that does not fit the height) *)
  let '(pops, real, shift, any) :=
    if shift0 =? 0 then let '(po, re) := paint ls 0 (N.of_nat (length ls)) W H 0 in
                        (po, re, 0, match po with [] => false | _ => true end)
    else
      let padded0 := negb (starts_with_text ls) in
      let '(po, re, pf) := paint_pad ls 0 (N.of_nat (length ls)) W H 0 shift0 padded0 in
      (* fix 'an empty frame as tall as the terminal does not scroll the screen': one padding line
         less for an empty line list whose padding is at least as tall as the terminal *)
      ((if padded0 then repeat (TLine []) (N.to_nat (shift0 - (if full_pad ls shift0 H then 1 else 0))) else [])
         ++ po, re,
       (if pf then shift0 else 0), match po with [] => false | _ => true end) in
  (* only a draw that wrote a line leaves the cursor on the last row of the region *)
  let below' := if any then false
                else if negb (n =? 0) then negb (full_pad ls shift0 H) else below in
  ((if below && (0 <? n) then [TUp 1] else [])
     ++ clear_ops n ++ pops ++ [TFlush],
   real + shift, below').
