(** DrawState::draw_to_term (src/draw_target.rs:493-575), non-move_cursor branch,
    as a function from (lines, last_line_count, alignment, width, height) to the list
    of TermLike calls it makes and the new last_line_count. *)
From IndModel Require Export Text.

Inductive termop :=
| TUp (n : N) | TDown (n : N) | TClear | TLine (s : text) | TStr (s : text) | TFlush.

Inductive alignment := Top | Bottom.

(* for i in 0..n { clear_line; if i + 1 != n { move_cursor_down(1) } } *)
Fixpoint clear_loop (k : nat) : list termop :=
  match k with
  | O => []
  | S O => [TClear]
  | S k' => TClear :: TDown 1 :: clear_loop k'
  end.

Definition clear_ops (n : N) : list termop :=
  TUp (n - 1) :: clear_loop (N.to_nat n) ++ [TUp (n - 1)].

(* the paint loop, with its `break` *)
Fixpoint paint (ls : list line) (idx total W H real : N) : list termop * N :=
  match ls with
  | [] => ([], real)
  | l :: r =>
      let h := wrapped_height l W in
      if is_bar l && (H <? real + h) then ([], real)
      else
        let real' := if is_bar l then real + h else real in
        let pre := if idx =? 0 then [] else [TLine []] in
        let fill := if (idx + 1 =? total) || ((idx =? 0) && (lwidth l =? 0))
                    then [TStr (spaces (h * W - lwidth l))] else [] in
        let '(ops, rf) := paint r (idx + 1) total W H real' in
        (pre ++ TStr (lt l) :: fill ++ ops, rf)
  end.

(* [below]: DrawState::cursor_below (fix 'println/clear after an empty frame'): the previous draw
   erased rows and drew nothing, the cursor is on the blank row below the remaining output *)
Definition draw_to_term (ls : list line) (n : N) (al : alignment) (below : bool) (W H : N)
  : list termop * N * bool :=
  let full := visual_line_count ls W in
  let shift := match al with
               | Bottom => if full <? n then n - full else 0
               | Top => 0
               end in
  let '(pops, real) := paint ls 0 (N.of_nat (length ls)) W H 0 in
  let below' := if negb (shift =? 0) || negb (match ls with [] => true | _ => false end) then false
                else if negb (n =? 0) then true else below in
  ((if below && (0 <? n) then [TUp 1] else [])
     ++ clear_ops n ++ repeat (TLine []) (N.to_nat shift) ++ pops ++ [TFlush],
   real + shift, below').
