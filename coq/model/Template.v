(** C10 – template parser and the part-by-part rendering.

    Transcribes, from /repo/src/style.rs (HEAD, after the fix: commits 8070567,
    5d2e935, 4a4f96a):
      - Template::from_str_with_tab_width        (style.rs:491-635) – the eight-state
        machine, one loop iteration = [tstep] = phase 1 (the big `match (state, c)`,
        lines 495-581) followed by phase 2 (the flush `match (state, new.0)`,
        lines 583-619) and the assignment `state = new.0; buf.push(c)` (621-624);
      - the end-of-input flush                    (style.rs:627-632);
      - u16::from_str as used at style.rs:600     ([parse_u16], digit by digit with
        checked_mul / checked_add);
      - ProgressStyle::format_state walking the parts (style.rs:234-396) and
        push_line (style.rs:399-425) for styles WITHOUT a wide element
        ([render_parts]; the expansion of one placeholder is a parameter);
      - TabExpandedString::expanded (state.rs:383-395) = [expand_tabs];
      - for execution only: PaddedStringDisplay::fmt (style.rs:734-769) restricted
        to printable-ASCII values ([padded_ascii]) and console's StyledObject
        (prefix ++ text ++ ESC[0m, prefix supplied by the harness per style string).

    Panic outcome (C10 clause "never panic"): every operation in the call tree of
    ProgressStyle::with_template / ProgressStyle::template that is partial in Rust is an
    [option]-valued function here, and the way the code consumes its failure is explicit:
      - style.rs:600 `buf.parse::<u16>()` = [parse_u16 : option]; consumed by
        `.map_err(..)?` (:601) = the [PErr] branch of [phase2]/[phase2_full]; the pre-8070567
        `.unwrap()` is the policy [WUnwrap] of [phase2_full] (kept only to show that the panic
        outcome is inhabited: [C10_d2_panicked_before_fix]);
      - style.rs:552,565,598,607,613 `parts.last_mut()` consumed by `if let Some(Placeholder
        {..})` = [upd_last] / `match parts` (no failure branch in the code, none here);
      - style.rs:608,614 `Style::from_dotted_str(&buf)` -> console-0.15.11 src/utils.rs:226
        `on_c[3..]` (str index: panics unless 3 <= len and byte 3 is a char boundary) guarded
        by `on_c.starts_with("on_")` (:225) = [str_from 3] under [starts_with ON_PREFIX],
        failure = [PPanic SiteStyleOnSlice] / [PPanic SiteAltOnSlice].
    Not modelled because they cannot depend on the input: TabExpandedString::new
    (state.rs:371-381, only `contains`; the `" ".repeat(tab_width)` is lazy, draw time) and,
    in with_template only, ProgressStyle::new (style.rs:94-108: `width(&progress_chars)` with
    its assert_eq!/unwrap on the constant "█░" - C14's Builder.v models that one).
    There is no other unwrap/expect/index/slice/arithmetic/cast in from_str_with_tab_width
    (the harness re-counts them in the source on every run, c10.rs [source_inventory]).
    [parse_full] is the three-outcome parser; [parse] (two outcomes, used by C14's Builder.v)
    is the same machine with the panic branches erased; C10_total proves
    [parse_full s = PRes (parse s)] for every s.

    Strings are [list N] of Unicode scalar values.  [p_parts] is kept in REVERSE
    order (Vec::push = cons, Vec::last_mut = head); [parse] reverses at the end.
    Definitions only. *)
From IndModel Require Export Base.
From IndGen Require Import Constants.
From Coq Require String Ascii.

(** ** characters *)
Definition is_ascii_ws (c : N) : bool :=            (* char::is_ascii_whitespace *)
  (c =? 32) || (c =? 9) || (c =? 10) || (c =? 12) || (c =? 13).
Definition is_digit (c : N) : bool := (48 <=? c) && (c <=? 57).   (* '0'..='9' *)
Definition nonempty {A} (l : list A) : bool := match l with [] => false | _ => true end.

(** ** u16::from_str (core::num, radix 10, unsigned): optional '+', then digits,
    checked_mul(10) and checked_add(digit); "" and "+" are errors. *)
Fixpoint u16_digits (acc : N) (ds : list N) : option N :=
  match ds with
  | [] => Some acc
  | d :: r =>
      if is_digit d then
        let m := acc * 10 in
        if U16 <=? m then None
        else let a := m + (d - 48) in
             if U16 <=? a then None else u16_digits a r
      else None
  end.

Definition parse_u16 (s : list N) : option N :=
  match s with
  | [] => None
  | c :: r => if c =? 43 then (match r with [] => None | _ => u16_digits 0 r end)
              else u16_digits 0 s
  end.

(** ** parts *)
Inductive tstate :=
  SLiteral | SMaybeOpen | SDoubleClose | SKey | SAlign | SWidth | SFirstStyle | SAltStyle.
Inductive align := ALeft | ACenter | ARight.

Record ph := mkph {
  ph_key : list N; ph_align : align; ph_width : option N; ph_trunc : bool;
  ph_style : option (list N);     (* the dotted string handed to Style::from_dotted_str *)
  ph_alt : option (list N) }.

Inductive part := PLit (s : list N) | PPh (p : ph) | PNewLine.

Definition set_align (a : align) (p : ph) : ph :=
  mkph (ph_key p) a (ph_width p) (ph_trunc p) (ph_style p) (ph_alt p).
Definition set_width (w : N) (p : ph) : ph :=
  mkph (ph_key p) (ph_align p) (Some w) (ph_trunc p) (ph_style p) (ph_alt p).
Definition set_trunc (p : ph) : ph :=
  mkph (ph_key p) (ph_align p) (ph_width p) true (ph_style p) (ph_alt p).
Definition set_style (s : list N) (p : ph) : ph :=
  mkph (ph_key p) (ph_align p) (ph_width p) (ph_trunc p) (Some s) (ph_alt p).
Definition set_alt (s : list N) (p : ph) : ph :=
  mkph (ph_key p) (ph_align p) (ph_width p) (ph_trunc p) (ph_style p) (Some s).

(* `if let Some(TemplatePart::Placeholder {..}) = parts.last_mut() { .. }` *)
Definition upd_last (f : ph -> ph) (parts : list part) : list part :=
  match parts with PPh p :: r => PPh (f p) :: r | _ => parts end.

(** ** one loop iteration *)
Record pst := mkpst { p_state : tstate; p_parts : list part; p_buf : list N }.

(* style.rs:511-535, the whitespace back-tracking arm.  [pre] is the text taken out of
   buf in MaybeOpen (empty in Key), [b] what buf holds when `new.push_str(&buf)` runs. *)
Definition backtrack (pre b : list N) (c : N) (parts : list part) : list part :=
  let new := pre ++ [123] ++ b in
  if c =? 10 then PNewLine :: PLit new :: parts
  else PLit (new ++ [c]) :: parts.

(* phase 1: Some (new state, char to push, parts, buf) or None = `return Err(TemplateError
   { next: c, state })` (style.rs:580) *)
Definition phase1 (st : tstate) (c : N) (parts : list part) (buf : list N)
  : option (tstate * option N * list part * list N) :=
  match st with
  | SLiteral =>
      if c =? 123 then Some (SMaybeOpen, None, parts, buf)                 (* 496 *)
      else if c =? 10 then                                                 (* 497-506 *)
        Some (SLiteral, None,
              PNewLine :: (if nonempty buf then PLit buf :: parts else parts), [])
      else if c =? 125 then Some (SDoubleClose, Some 125, parts, buf)      (* 507 *)
      else Some (SLiteral, Some c, parts, buf)                             (* 508 *)
  | SDoubleClose =>
      if c =? 125 then Some (SLiteral, None, parts, buf) else None         (* 509 *)
  | SMaybeOpen =>
      if c =? 123 then Some (SLiteral, Some 123, parts, buf)               (* 510 *)
      else if is_ascii_ws c then                                           (* 511-535 *)
        Some (SLiteral, None, backtrack buf [] c parts, [])
      else if negb (c =? 125) && negb (c =? 58) then Some (SKey, Some c, parts, buf)  (* 536 *)
      else None
  | SKey =>
      if is_ascii_ws c then                                                (* 511-535 *)
        Some (SLiteral, None, backtrack [] buf c parts, [])
      else if negb (c =? 125) && negb (c =? 58) then Some (SKey, Some c, parts, buf)  (* 537 *)
      else if c =? 58 then Some (SAlign, None, parts, buf)                 (* 538 *)
      else Some (SLiteral, None, parts, buf)                               (* 539: c = '}' *)
      (* the arm `(Key, '!') if !buf.is_empty()` (540-550) is shadowed by line 537
         and can never be taken *)
  | SAlign =>
      if (c =? 60) || (c =? 94) || (c =? 62) then                          (* 551-562 *)
        Some (SWidth, None,
              upd_last (set_align (if c =? 60 then ALeft else if c =? 94 then ACenter else ARight)) parts,
              buf)
      else if is_digit c then Some (SWidth, Some c, parts, buf)            (* 563 *)
      else if c =? 33 then Some (SWidth, None, upd_last set_trunc parts, buf)  (* 564-569 *)
      else if c =? 46 then Some (SFirstStyle, None, parts, buf)            (* 570 *)
      else if c =? 125 then Some (SLiteral, None, parts, buf)              (* 571 *)
      else None
  | SWidth =>
      if c =? 33 then Some (SWidth, None, upd_last set_trunc parts, buf)   (* 564-569 *)
      else if is_digit c then Some (SWidth, Some c, parts, buf)            (* 572 *)
      else if c =? 46 then Some (SFirstStyle, None, parts, buf)            (* 573 *)
      else if c =? 125 then Some (SLiteral, None, parts, buf)              (* 574 *)
      else None
  | SFirstStyle =>
      if c =? 47 then Some (SAltStyle, None, parts, buf)                   (* 575 *)
      else if c =? 125 then Some (SLiteral, None, parts, buf)              (* 576 *)
      else Some (SFirstStyle, Some c, parts, buf)                          (* 577 *)
  | SAltStyle =>
      if c =? 125 then Some (SLiteral, None, parts, buf)                   (* 578 *)
      else Some (SAltStyle, Some c, parts, buf)                            (* 579 *)
  end.

(* phase 2 (style.rs:583-619): None = the `?` at line 601 (width does not fit u16) *)
Definition phase2 (old new : tstate) (parts : list part) (buf : list N)
  : option (list part * list N) :=
  if nonempty buf then
    match old, new with
    | SMaybeOpen, SKey => Some (PLit buf :: parts, [])
    | SKey, (SAlign | SLiteral) =>
        Some (PPh (mkph buf ALeft None false None None) :: parts, [])
    | SWidth, (SFirstStyle | SLiteral) =>
        match parts with
        | PPh p :: r =>
            match parse_u16 buf with
            | Some w => Some (PPh (set_width w p) :: r, [])
            | None => None
            end
        | _ => Some (parts, buf)
        end
    | SFirstStyle, (SAltStyle | SLiteral) =>
        match parts with
        | PPh p :: r => Some (PPh (set_style buf p) :: r, [])
        | _ => Some (parts, buf)
        end
    | SAltStyle, SLiteral =>
        match parts with
        | PPh p :: r => Some (PPh (set_alt buf p) :: r, [])
        | _ => Some (parts, buf)
        end
    | _, _ => Some (parts, buf)
    end
  else Some (parts, buf).

Inductive step_res := SOk (s : pst) | SErr (st : tstate) (c : N).

Definition tstep (s : pst) (c : N) : step_res :=
  match phase1 (p_state s) c (p_parts s) (p_buf s) with
  | None => SErr (p_state s) c
  | Some (new, push, parts1, buf1) =>
      match phase2 (p_state s) new parts1 buf1 with
      | None => SErr (p_state s) c
      | Some (parts2, buf2) =>
          SOk (mkpst new parts2 (match push with Some x => buf2 ++ [x] | None => buf2 end))
      end
  end.

Fixpoint trun (s : pst) (cs : list N) : step_res :=
  match cs with
  | [] => SOk s
  | c :: r => match tstep s c with SOk s' => trun s' r | e => e end
  end.

Definition pinit0 : pst := mkpst SLiteral [] [].

(* style.rs:627-634 *)
Definition tfinish (s : pst) : list part :=
  rev (match p_state s with
       | SLiteral | SDoubleClose => if nonempty (p_buf s) then PLit (p_buf s) :: p_parts s else p_parts s
       | _ => p_parts s
       end).

(** Result of ProgressStyle::with_template / ProgressStyle::template with the panic branches
    erased: Ok, or Err(TemplateError{state,next}).  This two-outcome view is what C14's
    Builder.v consumes; the three-outcome parser is [parse_full] below, and
    [C10_total : parse_full s = PRes (parse s)] is what entitles anyone to use this one. *)
Inductive presult := POk (ps : list part) | PErr (st : tstate) (c : N).

Definition parse (s : list N) : presult :=
  match trun pinit0 s with
  | SOk f => POk (tfinish f)
  | SErr st c => PErr st c
  end.

(** ** the panic outcome: partial operations made explicit *)

(* bytes of the UTF-8 encoding of a scalar value (char::len_utf8) *)
Definition utf8_len (c : N) : N :=
  if c <? 128 then 1 else if c <? 2048 then 2 else if c <? 65536 then 3 else 4.

(* `&s[n..]` on a str, n in BYTES: Some rest, or None = the index panics ("byte index n is out
   of bounds" when the string ends first, "is not a char boundary" when n falls inside the
   encoding of a character) *)
Fixpoint str_from (n : N) (s : list N) {struct s} : option (list N) :=
  if n =? 0 then Some s
  else match s with
       | [] => None
       | c :: r => if utf8_len c <=? n then str_from (n - utf8_len c) r else None
       end.

(* str::starts_with(&str): byte-wise prefix test = scalar-wise prefix test (UTF-8 is
   prefix-free and the pattern is a whole number of characters) *)
Fixpoint starts_with (pat s : list N) : bool :=
  match pat, s with
  | [], _ => true
  | p :: pr, c :: r => (p =? c) && starts_with pr r
  | _ :: _, [] => false
  end.

(* str::split(d): always at least one piece *)
Fixpoint split_on (d : N) (s : list N) : list (list N) :=
  match s with
  | [] => [[]]
  | c :: r =>
      if c =? d then [] :: split_on d r
      else match split_on d r with
           | l :: ls => (c :: l) :: ls
           | [] => [[c]]
           end
  end.

Definition ON_PREFIX : list N := [111; 110; 95].      (* "on_" *)

(* console::Style::from_dotted_str (console-0.15.11 src/utils.rs:195-242), panic behaviour
   only (the style value itself is computed by the console crate in the harness): for each
   piece of s.split('.') (:197), the arm `on_c if on_c.starts_with("on_")` (:225) evaluates
   `on_c[3..]` (:226).  The 26 literal arms in front of it (:199-224) neither slice nor index;
   leaving them out only makes MORE pieces reach the slice.  `.parse::<u8>()` (:226, :233) is
   consumed by `if let Ok(n)`.  true = the call panics. *)
Definition dotted_piece_panics (piece : list N) : bool :=
  starts_with ON_PREFIX piece &&
  match str_from 3 piece with Some _ => false | None => true end.
Definition dotted_str_panics (s : list N) : bool :=
  existsb dotted_piece_panics (split_on 46 s).

Inductive psite :=
| SiteWidthUnwrap      (* style.rs:600 `buf.parse::<u16>().unwrap()` - the code BEFORE fix 8070567 *)
| SiteStyleOnSlice     (* console utils.rs:226 reached from style.rs:608 (style) *)
| SiteAltOnSlice.      (* console utils.rs:226 reached from style.rs:614 (alt_style) *)

(* how the Err of `buf.parse::<u16>()` (style.rs:600) is consumed *)
Inductive width_policy :=
| WMapErr      (* HEAD: `.map_err(|_| TemplateError { next: c, state })?` (:601) *)
| WUnwrap.     (* before 8070567: `.unwrap()`; NOT the current code *)

Inductive p2res := P2Ok (parts : list part) (buf : list N) | P2Err | P2Panic (site : psite).

(* phase 2 (style.rs:583-619) with every partial operation and its consumer explicit *)
Definition phase2_full (pol : width_policy) (old new : tstate) (parts : list part) (buf : list N)
  : p2res :=
  if nonempty buf then
    match old, new with
    | SMaybeOpen, SKey => P2Ok (PLit buf :: parts) []                          (* 584-586 *)
    | SKey, (SAlign | SLiteral) =>                                             (* 587-596 *)
        P2Ok (PPh (mkph buf ALeft None false None None) :: parts) []
    | SWidth, (SFirstStyle | SLiteral) =>                                      (* 597-605 *)
        match parts with                                                       (* 598 last_mut *)
        | PPh p :: r =>
            match parse_u16 buf with                                           (* 600 *)
            | Some w => P2Ok (PPh (set_width w p) :: r) []
            | None => match pol with                                           (* 601 *)
                      | WMapErr => P2Err
                      | WUnwrap => P2Panic SiteWidthUnwrap
                      end
            end
        | _ => P2Ok parts buf
        end
    | SFirstStyle, (SAltStyle | SLiteral) =>                                   (* 606-611 *)
        match parts with                                                       (* 607 last_mut *)
        | PPh p :: r =>
            if dotted_str_panics buf then P2Panic SiteStyleOnSlice             (* 608 *)
            else P2Ok (PPh (set_style buf p) :: r) []
        | _ => P2Ok parts buf
        end
    | SAltStyle, SLiteral =>                                                   (* 612-617 *)
        match parts with                                                       (* 613 last_mut *)
        | PPh p :: r =>
            if dotted_str_panics buf then P2Panic SiteAltOnSlice               (* 614 *)
            else P2Ok (PPh (set_alt buf p) :: r) []
        | _ => P2Ok parts buf
        end
    | _, _ => P2Ok parts buf                                                   (* 618 *)
    end
  else P2Ok parts buf.

Inductive step_out := TOk (s : pst) | TErr (st : tstate) (c : N) | TPanic (site : psite).

(* phase 1 has no partial operation: chars(), push, push_str, mem::take, clear, Vec::push,
   is_ascii_whitespace, and `parts.last_mut()` under `if let` ([upd_last]) *)
Definition tstep_full (pol : width_policy) (s : pst) (c : N) : step_out :=
  match phase1 (p_state s) c (p_parts s) (p_buf s) with
  | None => TErr (p_state s) c                                                 (* 580 *)
  | Some (new, push, parts1, buf1) =>
      match phase2_full pol (p_state s) new parts1 buf1 with
      | P2Panic site => TPanic site
      | P2Err => TErr (p_state s) c
      | P2Ok parts2 buf2 =>
          TOk (mkpst new parts2 (match push with Some x => buf2 ++ [x] | None => buf2 end))
      end
  end.

Fixpoint trun_full (pol : width_policy) (s : pst) (cs : list N) : step_out :=
  match cs with
  | [] => TOk s
  | c :: r => match tstep_full pol s c with TOk s' => trun_full pol s' r | e => e end
  end.

(** The three outcomes of ProgressStyle::with_template(s) / ProgressStyle::template(s). *)
Inductive pout := PRes (r : presult) | PPanic (site : psite).

Definition parse_gen (pol : width_policy) (s : list N) : pout :=
  match trun_full pol pinit0 s with
  | TOk f => PRes (POk (tfinish f))        (* 627-634 *)
  | TErr st c => PRes (PErr st c)
  | TPanic site => PPanic site
  end.

(* the current code *)
Definition parse_full : list N -> pout := parse_gen WMapErr.

(** Where a TemplateError can arise: (state, character) pairs; used by C10_err_sites. *)
Definition err_site (st : tstate) (c : N) : bool :=
  match st with
  | SDoubleClose => negb (c =? 125)
  | SMaybeOpen => (c =? 125) || (c =? 58)
  | SAlign => negb ((c =? 60) || (c =? 94) || (c =? 62) || is_digit c || (c =? 33) || (c =? 46) || (c =? 125))
  | SWidth => negb ((c =? 33) || is_digit c)
  | _ => false
  end.

(** ** rendering (format_state without wide elements) *)
Definition nrepeat {A} (x : A) (n : N) : list A := N.iter n (cons x) [].

(* original.replace('\t', &" ".repeat(tab_width)) *)
Definition expand_tabs (tw : N) (s : list N) : list N :=
  flat_map (fun c => if c =? 9 then nrepeat 32 tw else [c]) s.

(* str::split('\n'): always at least one piece *)
Fixpoint split_nl (s : list N) : list (list N) :=
  match s with
  | [] => [[]]
  | c :: r =>
      if c =? 10 then [] :: split_nl r
      else match split_nl r with
           | l :: ls => (c :: l) :: ls
           | [] => [[c]]                      (* never: split_nl is non-empty *)
           end
  end.

(* accumulator of format_state: (lines pushed so far, cur) *)
Definition racc := (list (list N) * list N)%type.
Definition push_line (a : racc) : racc := (fst a ++ split_nl (snd a), []).
Definition add_text (a : racc) (t : list N) : racc := (fst a, snd a ++ t).

Section Render.
  Variable expand : ph -> list N.     (* what one placeholder writes into `cur` *)
  Variable tw : N.                    (* the tab width of the bar (set_style -> set_tab_width) *)

  Definition rstep (a : racc) (p : part) : racc :=
    match p with
    | PLit s => add_text a (expand_tabs tw s)          (* style.rs:386 *)
    | PPh q => add_text a (expand q)                   (* style.rs:248-385 *)
    | PNewLine => push_line a                          (* style.rs:387-389 *)
    end.

  Definition rfinish (a : racc) : list (list N) :=     (* style.rs:393-395 *)
    if nonempty (snd a) then fst (push_line a) else fst a.

  Definition render_parts (ps : list part) : list (list N) :=
    rfinish (fold_left rstep ps ([], [])).
End Render.

(** ** the documented grammar (specification side) *)
Record fmtspec := mkfmt {
  f_align : option align;
  f_width : list N;                          (* digit string, [] = absent *)
  f_trunc : bool;
  f_style : option (list N * option (list N)) }.   (* .style[/alt] *)

Inductive item :=
| ILit (s : list N)           (* text free of '{' '}' and '\n' *)
| IEscOpen                    (* "{{" *)
| IEscClose                   (* "}}" *)
| IBraceWs (c : N)            (* '{' followed by the ASCII white-space c *)
| INewline                    (* '\n' *)
| IPh (key : list N) (f : option fmtspec).

Definition align_char (a : align) : N :=
  match a with ALeft => 60 | ACenter => 94 | ARight => 62 end.

Definition print_fmt (f : fmtspec) : list N :=
  [58] ++ (match f_align f with Some a => [align_char a] | None => [] end)
       ++ f_width f
       ++ (if f_trunc f then [33] else [])
       ++ (match f_style f with
           | None => []
           | Some (s, None) => [46] ++ s
           | Some (s, Some a) => [46] ++ s ++ [47] ++ a
           end).

Definition print_item (i : item) : list N :=
  match i with
  | ILit s => s
  | IEscOpen => [123; 123]
  | IEscClose => [125; 125]
  | IBraceWs c => [123; c]
  | INewline => [10]
  | IPh k None => [123] ++ k ++ [125]
  | IPh k (Some f) => [123] ++ k ++ print_fmt f ++ [125]
  end.

Definition print (t : list item) : list N := flat_map print_item t.

(* the decimal value of a digit string, as a number (no bound) *)
Definition digits_value (ds : list N) : N := fold_left (fun a d => a * 10 + (d - 48)) ds 0.

Definition key_char (c : N) : bool := negb (is_ascii_ws c) && negb (c =? 125) && negb (c =? 58).
Definition key_ok (k : list N) : bool :=
  match k with
  | [] => false
  | c :: r => key_char c && negb (c =? 123) && forallb key_char r
  end.
Definition style_ok (s : list N) : bool := forallb (fun c => negb (c =? 125) && negb (c =? 47)) s.
Definition alt_ok (s : list N) : bool := forallb (fun c => negb (c =? 125)) s.
Definition fmt_ok (f : fmtspec) : bool :=
  forallb is_digit (f_width f) && (digits_value (f_width f) <? U16)
  && match f_style f with
     | None => true
     | Some (s, None) => style_ok s
     | Some (s, Some a) => style_ok s && alt_ok a
     end.
Definition lit_ok (s : list N) : bool :=
  forallb (fun c => negb (c =? 123) && negb (c =? 125) && negb (c =? 10)) s.

Definition wf_item (i : item) : bool :=
  match i with
  | ILit s => lit_ok s
  | IEscOpen | IEscClose | INewline => true
  | IBraceWs c => is_ascii_ws c
  | IPh k None => key_ok k
  | IPh k (Some f) => key_ok k && fmt_ok f
  end.
Definition wf (t : list item) : bool := forallb wf_item t.

Definition norm_opt (s : list N) : option (list N) := match s with [] => None | _ => Some s end.

(* the placeholder a well-formed [IPh] denotes *)
Definition ph_of (k : list N) (f : option fmtspec) : ph :=
  match f with
  | None => mkph k ALeft None false None None
  | Some f =>
      mkph k (match f_align f with Some a => a | None => ALeft end)
           (match f_width f with [] => None | ds => Some (digits_value ds) end)
           (f_trunc f)
           (match f_style f with Some (s, _) => norm_opt s | None => None end)
           (match f_style f with Some (_, Some a) => norm_opt a | _ => None end)
  end.

Section Spec.
  Variable expand : ph -> list N.
  Variable tw : N.

  (* in-order concatenation; a line ends at every template newline, including the one of
     "{\n"; text handed over by a placeholder is split at its own newlines *)
  Definition sstep (a : racc) (i : item) : racc :=
    match i with
    | ILit s => add_text a (expand_tabs tw s)
    | IEscOpen => add_text a [123]
    | IEscClose => add_text a [125]
    | IBraceWs c => if c =? 10 then push_line (add_text a [123])
                    else add_text a (expand_tabs tw [123; c])
    | INewline => push_line a
    | IPh k f => add_text a (expand (ph_of k f))
    end.

  (* the last template line is emitted unless it is empty *)
  Definition render_spec (t : list item) : list (list N) :=
    rfinish (fold_left sstep t ([], [])).
End Spec.

(** ** vocabulary of the line-structure statements (C10_one_line_per_template_line,
    C10_newline_ends_line) *)
(* the items that end a template line *)
Definition is_sep (i : item) : bool :=
  match i with INewline => true | IBraceWs c => c =? 10 | _ => false end.
Definition no_sep (t : list item) : bool := forallb (fun i => negb (is_sep i)) t.

Section Text.
  Variable expand : ph -> list N.
  Variable tw : N.
  (* the text of an item that does not end a line *)
  Definition item_text (i : item) : list N :=
    match i with
    | ILit s => expand_tabs tw s
    | IEscOpen => [123]
    | IEscClose => [125]
    | IBraceWs c => expand_tabs tw [123; c]
    | INewline => []
    | IPh k f => expand (ph_of k f)
    end.
  Definition text (t : list item) : list N := flat_map item_text t.
End Text.

(** ** executable placeholder expansion used by the correspondence *)
Fixpoint assoc (k : list N) (l : list (list N * list N)) : option (list N) :=
  match l with
  | [] => None
  | (k', v) :: r => if list_eqb N.eqb k k' then Some v else assoc k r
  end.

Definition nlen {A} (l : list A) : N := N.of_nat (length l).
Definition ndrop {A} (n : N) (l : list A) : list A := skipn (N.to_nat n) l.
Definition ntake {A} (n : N) (l : list A) : list A := firstn (N.to_nat n) l.

(* PaddedStringDisplay::fmt (style.rs:734-769) for a value in which every character is one
   byte and one column (printable ASCII): cols = len() = number of characters, and
   str::get(start..end) is the character slice. *)
Definition padded_ascii (s : list N) (width : N) (a : align) (trunc : bool) : list N :=
  let cols := nlen s in
  let excess := cols - width in                        (* saturating_sub *)
  if (0 <? excess) && negb trunc then s
  else if 0 <? excess then
    let '(st, en) := match a with
                     | ALeft => (0, cols - excess)
                     | ARight => (excess, cols)
                     | ACenter => (excess / 2, cols - (excess - excess / 2))
                     end in
    ntake (en - st) (ndrop st s)
  else
    let diff := width - cols in
    let '(l, r) := match a with
                   | ALeft => (0, diff)
                   | ARight => (diff, 0)
                   | ACenter => (diff / 2, diff - diff / 2)
                   end in
    nrepeat 32 l ++ s ++ nrepeat 32 r.

(* console::StyledObject (colours forced on): escape prefix, text, ESC[0m iff a prefix was
   written; the prefix of a dotted style string is supplied by the harness (computed with the
   console crate), [] for a string that is not in the table. *)
Definition styled (styles : list (list N * list N)) (st : option (list N)) (text : list N) : list N :=
  match st with
  | None => text
  | Some s => match assoc s styles with
              | Some ((_ :: _) as pre) => pre ++ text ++ [27; 91; 48; 109]
              | _ => text
              end
  end.

Definition str_codes (s : String.string) : list N :=
  map Ascii.N_of_ascii (String.list_ascii_of_string s).
Definition builtin_keys : list (list N) := map str_codes FORMAT_KEYS.
Definition key_bar : list N := [98; 97; 114].
Definition is_builtin (k : list N) : bool := existsb (list_eqb N.eqb k) builtin_keys.

(** The Placeholder arm of format_state (style.rs:248-385) with the scratch String `buf`
    THREADED through the walk over the parts, as in the code: `buf` is declared once (:241),
    cleared at the top of the arm (:256), filled by the key dispatch (:257-362) and read by the
    padding/style tail (:364-384).  Without a wide element push_line (:399-425) does not touch
    it (`wide` is None, :408-411).
    Executable instance used by the tie: every key of the template that the crate knows is
    overridden through with_key (tracker text = [env key]), and - the one built-in kept, to
    observe alt_style - `{bar}` of a bar at fraction 0 with the default progress characters:
    width.unwrap_or(20) times U+2591 wrapped in alt_style (format_bar, style.rs:191-232), which
    is exactly `width` columns wide, so that PaddedStringDisplay leaves it as it is. *)
Definition str_clear (_ : list N) : list N := [].               (* String::clear *)

Definition is_bar0 (env : list (list N * list N)) (k : list N) : bool :=
  match assoc k env with Some _ => false | None => list_eqb N.eqb k key_bar end.

(* style.rs:256-362: the contents of `buf` after the dispatch on the key; [old] is what the
   previous placeholder (or nothing) left in it *)
Definition key_dispatch (env styles : list (list N * list N)) (p : ph) (old : list N) : list N :=
  let buf := str_clear old in                                   (* :256 buf.clear() *)
  match assoc (ph_key p) env with                               (* :257 format_map.get(key) *)
  | Some v => buf ++ v                                          (* :258 tracker.write(.., buf) *)
  | None =>
      if list_eqb N.eqb (ph_key p) key_bar then                 (* :265-274 "bar" *)
        buf ++ styled styles (ph_alt p)
                 (nrepeat 9617 (match ph_width p with Some w => w | None => DEFAULT_BAR_WIDTH end))
      else buf      (* :361 `_ => ()`; the other 27 arms (FORMAT_KEYS) are excluded by
                       [keys_covered] in the tie and by [is_builtin k = false] in the theorems *)
  end.

(* style.rs:364-384: what is appended to `cur` *)
Definition ph_emit (env styles : list (list N * list N)) (p : ph) (buf : list N) : list N :=
  styled styles (ph_style p)
    (match ph_width p with
     | Some w => if is_bar0 env (ph_key p) then buf
                 else padded_ascii buf w (ph_align p) (ph_trunc p)
     | None => buf
     end).

(* one placeholder seen in isolation (scratch buffer empty beforehand) *)
Definition expand_exec (env styles : list (list N * list N)) (p : ph) : list N :=
  ph_emit env styles p (key_dispatch env styles p []).

Section Format.
  Variables env styles : list (list N * list N).
  Variable tw : N.

  (* (lines, cur) and the scratch buf *)
  Definition fstate := (racc * list N)%type.

  Definition fstep (a : fstate) (pt : part) : fstate :=
    match pt with
    | PLit s => (add_text (fst a) (expand_tabs tw s), snd a)                  (* :386 *)
    | PPh q =>                                                                (* :248-385 *)
        let buf := key_dispatch env styles q (snd a) in
        (add_text (fst a) (ph_emit env styles q buf), buf)
    | PNewLine => (push_line (fst a), snd a)                                  (* :387-389 *)
    end.

  (* ProgressStyle::format_state for a style without a wide element *)
  Definition fmt_render (ps : list part) : list (list N) :=
    rfinish (fst (fold_left fstep ps (([], []), []))).                        (* :240-241, 393-395 *)
End Format.

(* what an unknown key stands for: the padding its width asks for, nothing otherwise *)
Definition pad_items (f : option fmtspec) : list item :=
  match f with
  | Some f => match f_width f with [] => [] | ds => [ILit (nrepeat 32 (digits_value ds))] end
  | None => []
  end.
Definition unstyled (f : option fmtspec) : bool :=
  match f with Some f => match f_style f with None => true | Some _ => false end | None => true end.

(** ** correspondence entry point *)
Inductive tobs := OErr (st : tstate) (c : N) | OLines (ls : list (list N)).

Definition SP_BASE : N := 4294967296.
(* every maximal run of k spaces becomes the single number SP_BASE + k (keeps cases with
   65535-column fields small) *)
Fixpoint squeeze_aux (run : N) (s : list N) : list N :=
  match s with
  | [] => if run =? 0 then [] else [SP_BASE + run]
  | c :: r => if c =? 32 then squeeze_aux (run + 1) r
              else (if run =? 0 then [] else [SP_BASE + run]) ++ c :: squeeze_aux 0 r
  end.
Definition squeeze (s : list N) : list N := squeeze_aux 0 s.

Definition tstate_eqb (a b : tstate) : bool :=
  match a, b with
  | SLiteral, SLiteral | SMaybeOpen, SMaybeOpen | SDoubleClose, SDoubleClose | SKey, SKey
  | SAlign, SAlign | SWidth, SWidth | SFirstStyle, SFirstStyle | SAltStyle, SAltStyle => true
  | _, _ => false
  end.

Definition printable_ascii (s : list N) : bool := forallb (fun c => (32 <=? c) && (c <=? 126)) s.

(* every key the parse contains is overridden, or unknown to the crate, or "bar" *)
Definition keys_covered (env : list (list N * list N)) (ps : list part) : bool :=
  forallb (fun p => match p with
                    | PPh q => match assoc (ph_key q) env with
                               | Some _ => true
                               | None => negb (is_builtin (ph_key q)) || list_eqb N.eqb (ph_key q) key_bar
                               end
                    | _ => true
                    end) ps.

Definition lines_eqb (a b : list (list N)) : bool := list_eqb (list_eqb N.eqb) a b.

(* case = (template, tab width, env, styles, optional AST, observation).  With an AST (a
   template printed from the documented grammar) the check also ties the specification side:
   print t is the template, the implementation accepts it iff [wf t], and [render_spec t] is
   what the implementation drew. *)
Definition tmpl_case :=
  (list N * N * list (list N * list N) * list (list N * list N) * option (list item) * tobs)%type.

Definition tmpl_check (c : tmpl_case) : bool :=
  let '(s, tw, env, styles, ast, obs) := c in
  forallb (fun kv => printable_ascii (snd kv)) env &&
  (match ast with
   | None => true
   | Some t => list_eqb N.eqb (print t) s
   end) &&
  match parse_full s, obs with
  | PRes (PErr st ch), OErr st' ch' =>
      tstate_eqb st st' && (ch =? ch') &&
      match ast with None => true | Some t => negb (wf t) end
  | PRes (POk ps), OLines ls =>
      keys_covered env ps &&
      lines_eqb (map squeeze (fmt_render env styles tw ps)) ls &&
      match ast with
      | None => true
      | Some t => wf t && lines_eqb (map squeeze (render_spec (expand_exec env styles) tw t)) ls
      end
  | _, _ => false          (* in particular [PPanic _]: the harness never hands over a panic *)
  end.
