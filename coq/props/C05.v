(** C05 – Redraw throttling: bounded frame rate and bounded staleness.
    Only statements; every proof is [exact <lemma from IndProofs.Limiter*Proofs>].
    Instants are integer nanoseconds.  [rl_*] = RateLimiter of a draw target
    (src/draw_target.rs:441-493), [ap_*] = the limiter inside AtomicPosition
    (src/state.rs:547-619), [sys_*] = a stand-alone bar, or the members of a MultiProgress, in
    front of a target (model/Limiter.v).  All statement vocabulary is defined in model/Limiter.v
    (and model/LimiterSys.v for the agreement theorem); what is restricted carries `_partial`.
    Order: limiter level (verdicts of `allow`), then system level (painted frames of [sys_run],
    both configurations), then the stand-alone bar, then MultiProgress members on model/Sys.v. *)
From IndModel Require Import Base Limiter LimiterSys.
From IndProofs Require Import LimiterProofs LimiterSysProofs LimiterAgree.
From Coq Require Import NArith List.
Import ListNotations.
Open Scope N_scope.

(** WINDOW BOUND, draw target's limiter.  For every refresh rate R in 1..=255, every creation
    instant, every non-decreasing sequence of (non-forced) redraw requests and every window
    [s, s+T]: the number of requests answered `true` by `allow` satisfies
    count <= 20 + R*T + 1 with T in seconds, i.e. count * 10^9 <= 21 * 10^9 + R * T_ns.
    (Verdicts of the limiter; the same bound for the FRAMES of the system is
    C05_sys_window_bound below.) *)
Theorem C05_window_bound : forall (R t0 : N) (ts : list N) (s T : N),
  1 <= R <= 255 -> nondec t0 ts ->
  allowed_in s (s + T) ts (rl_run (rl_new R t0) ts) * 1000000000 <= 21 * 1000000000 + R * T.
Proof. exact rl_window. Qed.
Print Assumptions C05_window_bound.

(** What the code meets is slightly tighter: 20 + ceil(T / I) with I = ceil(10^9 / R) ns. *)
Theorem C05_window_bound_tight : forall (R t0 : N) (ts : list N) (s T : N),
  1 <= R <= 255 -> nondec t0 ts ->
  allowed_in s (s + T) ts (rl_run (rl_new R t0) ts)
  <= 20 + (T + rl_interval_of R - 1) / rl_interval_of R.
Proof. exact rl_window_tight. Qed.
Print Assumptions C05_window_bound_tight.

(** LIVENESS, draw target.  A request arriving at least one refresh interval (1/R s:
    (now - a) * R >= 10^9) after the last allowed request – or the first request ever – is
    allowed.  (A forced frame painted in between does not touch the limiter, so "after the last
    painted frame" implies "after the last allowed request".) *)
Theorem C05_liveness : forall (R t0 : N) (ts : list N) (now : N),
  1 <= R <= 255 -> nondec t0 (ts ++ [now]) ->
  (forall a, last_allowed None ts (rl_run (rl_new R t0) ts) = Some a ->
             1000000000 <= (now - a) * R) ->
  rl_run (rl_new R t0) (ts ++ [now]) = rl_run (rl_new R t0) ts ++ [Ok true].
Proof. exact rl_liveness. Qed.
Print Assumptions C05_liveness.

(** NO UNDERFLOW + NORMAL FORM, draw target.  In every state reachable from `new` by a
    non-decreasing request sequence, the next call returns [Ok] (neither the `- 1` at
    draw_target.rs:483 nor the `checked_sub().unwrap()` at :486-488 can panic, no cast
    truncates), capacity <= 20, prev lies on the grid t0 + k*I and is not in the future, and an
    allowed call sets new = floor(elapsed / I), capacity := min(20, capacity + new) - 1 >= 0,
    prev := prev + new * I. *)
Theorem C05_rl_normal_form : forall (R t0 : N) (ts : list N) (now : N),
  1 <= R <= 255 -> nondec t0 (ts ++ [now]) ->
  exists s, rl_exec (rl_new R t0) ts = Ok s /\
    let I := rl_interval_of R in
    let e := now - rl_prev s in
    rl_interval s = I /\ rl_prev s <= now /\ rl_cap s <= 20 /\
    (exists k, rl_prev s = t0 + k * I) /\
    (rl_allow s now =
      if (rl_cap s =? 0) && (e <? I) then Ok (s, false)
      else Ok (mk_rl I (N.min 20 (rl_cap s + e / I) - 1) (rl_prev s + e / I * I), true)) /\
    (((rl_cap s =? 0) && (e <? I)) = false -> 1 <= N.min 20 (rl_cap s + e / I)).
Proof. exact rl_normal_form. Qed.
Print Assumptions C05_rl_normal_form.

(** the interval: ceil(10^9 / R) ns – at most a second, R intervals cover a second, and it is
    the least such number of nanoseconds *)
Theorem C05_interval : forall R, 1 <= R <= 255 ->
  0 < rl_interval_of R /\ rl_interval_of R <= 1000000000 /\
  1000000000 <= R * rl_interval_of R /\ R * (rl_interval_of R - 1) < 1000000000.
Proof. exact rl_interval_facts. Qed.
Print Assumptions C05_interval.

(** WINDOW BOUND, position limiter (inc/dec/set_position): in every window [s, s+T] at most
    10 + T/1ms + 1 updates request a redraw: count * 10^6 <= 11 * 10^6 + T_ns.  reset() calls
    may be interleaved.  Hypothesis [ap_times_ok]: the bar is younger than 2^64 ns (584 years),
    so that `as_nanos() as u64` (state.rs:573) does not truncate. *)
Theorem C05_pos_window_bound : forall (t0 : N) (ops : list apop) (s T : N),
  nondec t0 (map apop_time ops) -> ap_times_ok t0 ops ->
  allowed_in s (s + T) (map apop_time ops) (ap_run (ap_new t0) ops) * 1000000
  <= 11 * 1000000 + T.
Proof. exact ap_window. Qed.
Print Assumptions C05_pos_window_bound.

(** LIVENESS, position limiter: an update at least 1 ms after the last allowed update or
    reset() – or the first update ever – requests a redraw. *)
Theorem C05_pos_liveness : forall (t0 : N) (ops : list apop) (now : N),
  nondec t0 (map apop_time (ops ++ [AReq now])) -> now < t0 + U64 ->
  (forall a, ap_last_event None ops (ap_run (ap_new t0) ops) = Some a -> a + 1000000 <= now) ->
  ap_run (ap_new t0) (ops ++ [AReq now]) = ap_run (ap_new t0) ops ++ [Ok true].
Proof. exact ap_liveness. Qed.
Print Assumptions C05_pos_liveness.

(** NO UNDERFLOW + NORMAL FORM, position limiter (state.rs:591 `- 1`, :595 `elapsed - remainder`). *)
Theorem C05_ap_normal_form : forall (t0 : N) (ops : list apop) (now : N),
  nondec t0 (map apop_time (ops ++ [AReq now])) -> now < t0 + U64 ->
  exists s, ap_exec (ap_new t0) ops = Ok s /\
    let e := now - t0 - ap_prev s in
    ap_start s = t0 /\ ap_prev s <= now - t0 /\ ap_cap s <= 10 /\
    (ap_allow s now =
      if (ap_cap s =? 0) && (e <? 1000000) then Ok (s, false)
      else Ok (mk_ap (N.min 10 (ap_cap s + e / 1000000) - 1)
                     (ap_prev s + e / 1000000 * 1000000) t0, true)) /\
    (((ap_cap s =? 0) && (e <? 1000000)) = false -> 1 <= N.min 10 (ap_cap s + e / 1000000)).
Proof. exact ap_normal_form. Qed.
Print Assumptions C05_ap_normal_form.

(** ------------------------------------------------------------------------------------------
    SYSTEM LEVEL: painted frames of [sys_run], BOTH configurations ([multi] = false: a stand-alone
    bar on term_like_with_hz(R); [multi] = true: the bars are members of one MultiProgress over
    that target), any number of bars with any creation instants and lengths, calls on any bar. *)

(** NO PANIC, direct statement.  For every configuration (throttled with R in 1..=255, or the
    unthrottled term_like target), and EVERY call history - no hypothesis on the instants at all,
    they may even decrease (beyond the property's quantifier; the early exits `now < prev` /
    `now < start` that make this true are evaluated against the code by the `step-back` stream
    of c05.rs, which sets the mock clock backwards) - the run is a list of [Ok] outcomes, one
    per call: no call panics
    (the model has the four panic sites of the two `allow` functions as explicit outcomes,
    model/Limiter.v).  Stronger than the reachable-state statements C05_rl_normal_form /
    C05_ap_normal_form in one respect: the `- 1` and the two subtractions cannot underflow in ANY
    limiter state with a positive interval, reachable or not. *)
Theorem C05_no_panic : forall (multi : bool) (rate : option N) (t0 : N) (bars : list (N * N))
                              (ops : list (N * N * bop)),
  (forall R, rate = Some R -> 1 <= R <= 255) ->
  exists outs, sys_run (sys_new (multi, rate, t0, bars)) ops = map Ok outs
               /\ length outs = length ops.
Proof. exact sys_no_panic. Qed.
Print Assumptions C05_no_panic.

(** WINDOW BOUND for FRAMES.  In every window [s, s+T] the number of calls that painted a frame
    ([frames_in]: outcome [Ok (_, Some _)], instant in the window) satisfies
    count * 10^9 <= 21 * 10^9 + R * T_ns, i.e. count <= 20 + R*T + 1.  Every frame of this model
    is a non-forced one (finish / println / suspend are not among [bop]).  Proof: the calls that
    ask the target's limiter are a non-decreasing subsequence of the call instants, a frame is
    painted iff the limiter answers `true`, then C05_window_bound. *)
Theorem C05_sys_window_bound : forall (multi : bool) (R t0 : N) (bars : list (N * N))
                                      (ops : list (N * N * bop)) (s T : N),
  1 <= R <= 255 -> nondec t0 (map op_time ops) ->
  frames_in s (s + T) (map op_time ops) (sys_run (sys_new (multi, Some R, t0, bars)) ops) * 1000000000
  <= 21 * 1000000000 + R * T.
Proof. exact sys_window. Qed.
Print Assumptions C05_sys_window_bound.

(** the tighter bound the code meets, for frames: 20 + ceil(T / I) *)
Theorem C05_sys_window_bound_tight : forall (multi : bool) (R t0 : N) (bars : list (N * N))
                                            (ops : list (N * N * bop)) (s T : N),
  1 <= R <= 255 -> nondec t0 (map op_time ops) ->
  frames_in s (s + T) (map op_time ops) (sys_run (sys_new (multi, Some R, t0, bars)) ops)
  <= 20 + (T + rl_interval_of R - 1) / rl_interval_of R.
Proof. exact sys_window_tight. Qed.
Print Assumptions C05_sys_window_bound_tight.

(** LIVENESS for FRAMES.  After any history, a call at an instant [now] at least one refresh
    interval after the last PAINTED FRAME ((now - f) * R >= 10^9; or no frame painted yet) does
    not panic, and if it asks for a redraw at all ([requested]: tick / set_message / set_length /
    reset of an existing bar always; inc / dec / set_position iff the bar's position limiter let
    the update through, which the outcome's [reached] flag reports) then it paints a frame.
    Whose call painted the last frame does not matter (any member of the MultiProgress). *)
Theorem C05_sys_liveness : forall (multi : bool) (R t0 : N) (bars : list (N * N))
                                  (ops : list (N * N * bop)) (now i : N) (o : bop),
  1 <= R <= 255 -> nondec t0 (map op_time (ops ++ [(now, i, o)])) ->
  (forall f, last_paint None (map op_time ops)
               (sys_run (sys_new (multi, Some R, t0, bars)) ops) = Some f ->
             1000000000 <= (now - f) * R) ->
  exists reached fr,
    sys_run (sys_new (multi, Some R, t0, bars)) (ops ++ [(now, i, o)])
    = sys_run (sys_new (multi, Some R, t0, bars)) ops ++ [Ok (reached, fr)]
    /\ (requested (length bars) i o reached = true -> fr <> None).
Proof. exact sys_liveness. Qed.
Print Assumptions C05_sys_liveness.

(** FRAME AGE (staleness, first half), both configurations, any number of members.  START STATE:
    [sys_new] - the target's limiter is fresh (created at [t0]) AND every bar is fresh (created
    at its [tb] with a new position limiter) and has received NO call before [lo]; target and bars
    may have been created in any order ([t0 <= lo], every [tb <= lo]).  A bar that was already
    driven before the target existed (hidden target, then set_draw_target) is NOT an instance:
    that is C05_frame_age_late_target_partial below, with a weaker conclusion.
    Calls on existing bars ([ops_valid]) at non-decreasing instants
    from [lo] on, any mix of the eight operations on any members: at the instant of EVERY call
    (the last one of [ops]; every prefix is again such a history) a frame has been painted - by
    whichever member's call - and the most recent one is younger than one refresh interval plus
    1 ms.  _partial: this bounds the AGE of the last frame.  That the frame also shows the
    calling member's then-latest state is C05_nothing_lost (second conjunct, model/Sys.v) for
    members in sync, and FAILS for a member whose last position update was refused by its own
    position limiter (C05_nothing_lost_member_refuted, open finding D27); for a stand-alone bar
    it is C05_nothing_lost_partial. *)
Theorem C05_frame_age_partial : forall (multi : bool) (R t0 lo : N) (bars : list (N * N))
                                       (ops : list (N * N * bop)),
  1 <= R <= 255 -> t0 <= lo -> (forall tb l, In (tb, l) bars -> tb <= lo) ->
  ops <> [] -> ops_valid (length bars) ops -> nondec lo (map op_time ops) ->
  (forall t tb l, In t (map op_time ops) -> In (tb, l) bars -> t < tb + U64) ->
  exists f, last_paint None (map op_time ops)
              (sys_run (sys_new (multi, Some R, t0, bars)) ops) = Some f
            /\ f <= last (map op_time ops) 0
            /\ last (map op_time ops) 0 < f + rl_interval_of R + 1000000.
Proof. exact sys_frame_age. Qed.
Print Assumptions C05_frame_age_partial.

(** FRAME AGE AFTER A LATE ATTACH (ProgressBar::set_draw_target, model/Limiter.v [late_run]).  A
    stand-alone bar is created at [tb] on a hidden target and receives the calls [pre] - which
    paint nothing but do consume the bar's OWN position limiter -; at [t0] a target with refresh
    rate R is attached (fresh limiter); then the calls [ops].  At the instant of every call that
    comes at least 1 ms after the attach (the last one of [ops]; every prefix ending that late is
    again such a history) a frame has been painted SINCE the attach, and the most recent one is
    younger than one refresh interval plus 1 ms.  _partial: (1) frame age only; (2) stand-alone
    bar; (3) the new target's limiter is created AT the attach instant [t0] ([sys_attach] uses
    [rl_new R t0], and every call of [pre] is <= t0 <= every call of [ops]): a ProgressDrawTarget
    constructed earlier than the set_draw_target call, with calls on the hidden bar in between,
    is not an instance; (4) nothing is claimed for the first millisecond after the attach -
    rightly so, next theorem, which states its witness history explicitly. *)
Theorem C05_frame_age_late_target_partial : forall (R t0 tb len0 : N) (pre ops : list (N * N * bop)),
  1 <= R <= 255 -> tb <= t0 ->
  nondec tb (map op_time pre) -> (forall t, In t (map op_time pre) -> t <= t0) ->
  ops_valid 1 pre -> ops_valid 1 ops -> ops <> [] -> nondec t0 (map op_time ops) ->
  (forall t, In t (map op_time (pre ++ ops)) -> t < tb + U64) ->
  t0 + 1000000 <= last (map op_time ops) 0 ->
  exists f, last_paint None (map op_time (pre ++ ops))
              (late_run (false, Some R, t0, [(tb, len0)]) pre ops) = Some f
            /\ t0 <= f /\ f <= last (map op_time ops) 0
            /\ last (map op_time ops) 0 < f + rl_interval_of R + 1000000.
Proof. exact late_frame_age. Qed.
Print Assumptions C05_frame_age_late_target_partial.

(** the first millisecond IS different: ten inc at 0.4 ms on the hidden target drain the bar's
    position limiter; a 1 Hz target is attached at 0.5 ms; the inc at 0.5 ms and at 0.9 ms are both
    swallowed by the bar's own limiter (next token at 1 ms): no frame, although the new target's
    bucket is full.  Not a defect - within 1 ms the next update reaches -, but it is why
    C05_frame_age_partial (fresh bars) does not cover set_draw_target.  (docs/AUDIT3.md, 25.)
    The statement is the conjunction of all hypotheses of the _partial theorem but the 1 ms one,
    its negation, and "no frame", for the explicit witness. *)
Theorem C05_frame_age_late_target_refuted :
  let pre := map (fun _ : nat => (400000, 0, OInc 1)) (seq 0 10) in
  let ops := [(500000, 0, OInc 1); (900000, 0, OInc 1)] in
  (* every hypothesis of the _partial theorem for R = 1, tb = 0, t0 = 500000 ... *)
  1 <= 1 <= 255 /\ 0 <= 500000 /\
  nondec 0 (map op_time pre) /\ (forall t, In t (map op_time pre) -> t <= 500000) /\
  ops_valid 1 pre /\ ops_valid 1 ops /\ ops <> [] /\ nondec 500000 (map op_time ops) /\
  (forall t, In t (map op_time (pre ++ ops)) -> t < 0 + U64) /\
  (* ... except the last one: the last call comes less than 1 ms after the attach ... *)
  last (map op_time ops) 0 < 500000 + 1000000 /\
  (* ... and no frame has been painted *)
  last_paint None (map op_time (pre ++ ops))
    (late_run (false, Some 1, 500000, [(0, 100)]) pre ops) = None.
Proof. exact late_frame_age_refuted. Qed.
Print Assumptions C05_frame_age_late_target_refuted.

(** ------------------------------------------------------------------------------------------
    THE STAND-ALONE BAR. *)

(** STALENESS (stand-alone).  A stand-alone bar (no steady ticker) on a target with refresh rate
    R, driven by any non-decreasing sequence of inc/dec/set_position/tick/set_message/set_length/
    set_prefix/reset calls: at the instant of EVERY call (the last one of [ops]; every prefix is again such
    a sequence) a frame has been painted, and the most recent one is younger than one refresh
    interval plus 1 ms.  Since a painted frame of a stand-alone bar shows the then-latest state
    (next theorem), a continuously updated stand-alone bar is never more than I + 1 ms stale.
    _partial: stand-alone bar only (MultiProgress: C05_frame_age_partial above + the MultiProgress
    theorems at the end), and [t0 <= tb]: the draw target is at least as old as the bar, which
    is what ProgressBar::with_draw_target(len, target) gives.  A bar created BEFORE its target
    and not called until the target exists is the instance [multi = false] of
    C05_frame_age_partial ([lo] = the later of the two instants); a bar that was called before
    the target was attached (set_draw_target) is C05_frame_age_late_target_partial. *)
Theorem C05_staleness_partial : forall (R t0 tb len0 : N) (ops : list (N * bop)),
  1 <= R <= 255 -> t0 <= tb -> ops <> [] ->
  nondec tb (map fst ops) -> (forall t, In t (map fst ops) -> t < tb + U64) ->
  exists f, last_paint None (map fst ops)
              (sys_run (sys_new (false, Some R, t0, [(tb, len0)])) (std_ops ops)) = Some f
            /\ f <= last (map fst ops) 0
            /\ last (map fst ops) 0 < f + rl_interval_of R + 1000000.
Proof. exact std_staleness. Qed.
Print Assumptions C05_staleness_partial.

(** NOTHING LOST (stand-alone bar): the k-th call either paints nothing or paints exactly the
    state obtained by applying ALL calls 0..k to the initial state ([upd] ignores the limiters),
    whatever happened to the redraw requests of the earlier calls; and it never panics.
    _partial: stand-alone bar with [t0 <= tb] only.  The MultiProgress case is C05_nothing_lost
    and the three theorems after it (on model/Sys.v): the rows of the other members show their
    state as of their own last draw step, which is the latest state except in the open finding
    D27; see docs/C05.md.  On this model the statement is close to the definition of
    [sys_request] (a stand-alone bar renders its live state at paint time): its content is that
    no limiter verdict influences the stored state.  A row is (pos, len, msg), no prefix. *)
Theorem C05_nothing_lost_partial : forall (R t0 tb len0 : N) (ops : list (N * bop)) (k : nat) (out : sout),
  1 <= R <= 255 -> t0 <= tb ->
  nondec tb (map fst ops) -> (forall t, In t (map fst ops) -> t < tb + U64) ->
  nth_error (sys_run (sys_new (false, Some R, t0, [(tb, len0)])) (std_ops ops)) k = Some out ->
  exists reached fr, out = Ok (reached, fr) /\
    (fr = None \/ fr = Some [fold_left upd (firstn (S k) (map snd ops)) (0, len0, 0)]).
Proof. exact std_nothing_lost. Qed.
Print Assumptions C05_nothing_lost_partial.

(** Documentation: the code BEFORE the fix commits violated the window bound.
    D12 (e4a1051): 20 Hz, full bucket, 21 requests at 99.999999 ms and one at 100 ms – all 22
    painted within 1 ns (a request meeting a full bucket was free, plus one carried token).
    D13 (3894c8b): 255 Hz, a request every 3 ms – 334 frames within 999 ms (> 20 + 255*0.999 + 1). *)
Theorem C05_old_code_refuted :
  (exists ts, nondec 0 ts /\
     ~ (allowed_in 99999999 (99999999 + 1) ts (rl_run_old (rl_new_old 20 0) ts) * 1000000000
        <= 21 * 1000000000 + 20 * 1))
  /\
  (exists ts, nondec 0 ts /\
     ~ (allowed_in 0 999000000 ts (rl_run_old (rl_new_old 255 0) ts) * 1000000000
        <= 21 * 1000000000 + 255 * 999000000)).
Proof. exact old_code_refuted. Qed.
Print Assumptions C05_old_code_refuted.

(** THE TWO TRANSCRIPTIONS OF THE LIMITERS AGREE.  model/Limiter.v (this file's theorems up to
    here) and model/Sys.v (the drawing-system model used by the MultiProgress theorems at the end
    and by C01-C04, C06, C18, C19) each contain RateLimiter::{new,allow} and AtomicPosition::{new,
    allow,reset}.  Pointwise on verdict AND next state ([rl_to_sys], [ap_to_sys]: same fields):
    the position limiters agree in every state; the target limiters agree in every state whose
    interval is positive and at most 2^64 (every state reachable from `new` with R in 1..=255:
    interval = ceil(10^9 / R) <= 10^9, C05_interval + C05_rl_normal_form) - Limiter.v never
    answers [Panic] there.  Hence every limiter-level theorem above also speaks about the limiters
    inside Sys.v.  (The two SYSTEM models - Limiter.sys_step and Sys.step - are not related by a
    theorem; each is tied to the code by its own correspondence check.) *)
Theorem C05_limiter_models_agree :
  (forall R now, rl_to_sys (Limiter.rl_new R now) = Sys.rl_new R now) /\
  (forall r now, 0 < Limiter.rl_interval r <= U64 ->
     exists r' v, Limiter.rl_allow r now = Ok (r', v)
                  /\ Sys.rl_allow (rl_to_sys r) now = (v, rl_to_sys r')) /\
  (forall now, ap_to_sys (Limiter.ap_new now) = Sys.ap_new now) /\
  (forall a now,
     exists a' v, Limiter.ap_allow a now = Ok (a', v)
                  /\ Sys.ap_allow (ap_to_sys a) now = (v, ap_to_sys a')) /\
  (forall a now, ap_to_sys (Limiter.ap_reset a now) = Sys.ap_reset (ap_to_sys a) now).
Proof. exact limiter_models_agree. Qed.
Print Assumptions C05_limiter_models_agree.

(** Non-vacuity: concrete histories that meet the hypotheses and exercise both verdicts. *)
Example C05_nonvacuous_window :
  let ts := [5; 5; 5; 5; 5; 5; 5; 5; 5; 5; 5; 5; 5; 5; 5; 5; 5; 5; 5; 5; 5; 6; 50000004; 50000005; 50000005] in
  nondec 5 ts /\
  rl_run (rl_new 20 5) ts =
    map Ok [true; true; true; true; true; true; true; true; true; true; true; true; true; true; true;
            true; true; true; true; true; false; false; false; true; false] /\
  allowed_in 5 50000005 ts (rl_run (rl_new 20 5) ts) = 21.
Proof. vm_compute. repeat split; discriminate. Qed.

Example C05_nonvacuous_liveness :
  (* 3 Hz: I = 333333334 ns; bucket drained at 0; a request at I-1 is refused, at I allowed *)
  let ts := repeat 0 20 in
  last_allowed None ts (rl_run (rl_new 3 0) ts) = Some 0 /\
  1000000000 <= (333333334 - 0) * 3 /\ ~ (1000000000 <= (333333333 - 0) * 3) /\
  rl_run (rl_new 3 0) (ts ++ [333333333]) = rl_run (rl_new 3 0) ts ++ [Ok false] /\
  rl_run (rl_new 3 0) (ts ++ [333333334]) = rl_run (rl_new 3 0) ts ++ [Ok true].
Proof. vm_compute. repeat split; try discriminate. intros H. apply H. reflexivity. Qed.

Example C05_nonvacuous_pos :
  let ops := [AReq 7; AReq 7; AReq 7; AReq 7; AReq 7; AReq 7; AReq 7; AReq 7; AReq 7; AReq 7;
              AReq 8; ARst 500000; AReq 1000006; AReq 1500000; AReq 1500000] in
  nondec 7 (map apop_time ops) /\ ap_times_ok 7 ops /\
  ap_run (ap_new 7) ops =
    map Ok [true; true; true; true; true; true; true; true; true; true;
            false; false; false; true; false].
Proof.
  split; [vm_compute; repeat split; discriminate|]. split; [|vm_compute; reflexivity].
  intros o Ho. cbn in Ho. repeat (destruct Ho as [<- | Ho]; [vm_compute; reflexivity|]). destruct Ho.
Qed.

Example C05_nonvacuous_system :
  (* 1 Hz target, bar created 1 ns after the target; 20 ticks drain the bucket, then message,
     length and position change while throttled; the next painted frame shows all of them *)
  let ops := map (fun k => (k, OTick)) [1;2;3;4;5;6;7;8;9;10;11;12;13;14;15;16;17;18;19;20]
             ++ [(100, OSetMsg 7); (101, OSetLen 55); (102, OSetPos 9); (103, OInc 3);
                 (999999999, OTick); (1000000000, OTick)] in
  nondec 1 (map fst ops) /\
  nth_error (sys_run (sys_new (false, Some 1, 0, [(1, 100)])) (std_ops ops)) 23 = Some (Ok (true, None)) /\
  nth_error (sys_run (sys_new (false, Some 1, 0, [(1, 100)])) (std_ops ops)) 25 = Some (Ok (true, Some [(12, 55, 7)])) /\
  fold_left upd (firstn 26 (map snd ops)) (0, 100, 0) = (12, 55, 7).
Proof. vm_compute. repeat split; discriminate. Qed.

(* a MultiProgress at 1 Hz with members A (bar 0) and B (bar 1), everything created at 0:
   A.inc(1) x 11 at 5 ns - ten reach and are painted, the eleventh is refused by A's position
   limiter -, then B.tick() x 11 at 6 ns - ten painted (the bucket of 20 is empty), the last
   refused -, a tick of B one nanosecond before the next token matures (refused) and one a full
   interval after the last painted frame (painted) *)
Definition c5_multi_ops : list (N * N * bop) :=
  map (fun _ => (5, 0, OInc 1)) (seq 0 11) ++ map (fun _ => (6, 1, OTick)) (seq 0 11)
  ++ [(999999999, 1, OTick); (1000000006, 1, OTick)].

Example C05_nonvacuous_sys :
  let cfg := (true, Some 1, 0, [(0, 100); (0, 100)]) in
  let outs := sys_run (sys_new cfg) c5_multi_ops in
  nondec 0 (map op_time c5_multi_ops) /\ ops_valid 2 c5_multi_ops /\
  (* window [0, 999999999]: exactly the burst of 20 *)
  frames_in 0 999999999 (map op_time c5_multi_ops) outs = 20 /\
  (* the eleventh inc did not ask for a redraw; the tick at 999999999 asked and was refused; the
     last painted frame before the final call is the one at 6 ns, the final tick comes one interval
     later (hypothesis of C05_sys_liveness) and is painted; its frame shows A at 10 although A's
     position is 11 (finding D27) *)
  nth_error outs 10 = Some (Ok (false, None)) /\ requested 2 0 (OInc 1) false = false /\
  nth_error outs 22 = Some (Ok (true, None)) /\ requested 2 1 OTick true = true /\
  last_paint None (map op_time (firstn 23 c5_multi_ops)) (firstn 23 outs) = Some 6 /\
  1000000000 <= (1000000006 - 6) * 1 /\
  nth_error outs 23 = Some (Ok (true, Some [(10, 100, 0); (0, 100, 0)])) /\
  last_paint None (map op_time c5_multi_ops) outs = Some 1000000006.
Proof. vm_compute. repeat split; try discriminate; repeat constructor. Qed.

(* the late-attach scenario continued past the first millisecond: the inc at 1.5 ms reaches (the
   position limiter's token matured at 1 ms) and is painted by the fresh target; and [late_run]
   with no calls before the attach is [sys_run] on [sys_new] *)
Example C05_nonvacuous_late_target :
  let pre := map (fun _ => (400000, 0, OInc 1)) (seq 0 10) in
  let ops := [(500000, 0, OInc 1); (900000, 0, OInc 1); (1500000, 0, OInc 1)] in
  let cfg := (false, Some 1, 500000, [(0, 100)]) in
  nondec 0 (map op_time pre) /\ nondec 500000 (map op_time ops) /\
  500000 + 1000000 <= last (map op_time ops) 0 /\
  late_run cfg pre ops
  = map (fun _ => Ok (true, None)) (seq 0 10)
    ++ [Ok (false, None); Ok (false, None); Ok (true, Some [(13, 100, 0)])] /\
  last_paint None (map op_time (pre ++ ops)) (late_run cfg pre ops) = Some 1500000 /\
  late_run cfg [] ops = sys_run (sys_new cfg) ops.
Proof. vm_compute. repeat split; discriminate. Qed.

Example C05_nonvacuous_agree :
  0 < Limiter.rl_interval (Limiter.rl_new 255 7) <= U64 /\
  Limiter.rl_allow (Limiter.rl_new 255 7) 9 = Ok (Limiter.mk_rl 3921569 19 7, true) /\
  Sys.rl_allow (Sys.rl_new 255 7) 9 = (true, Sys.mkrl 3921569 19 7).
Proof. vm_compute. repeat split; discriminate. Qed.

(** ------------------------------------------------------------------------------------------
    NOTHING LOST, both kinds of targets.
    First conjunct: the stand-alone bar (= C05_nothing_lost_partial, model/Limiter.v).
    Second conjunct: members of a MultiProgress, on the drawing-system model model/Sys.v with the
    ghost of model/MultiLatest.v (docs/C02.md, "latest drawn state").  A member renders its
    current state into its slot BEFORE the refresh limiter of the MultiProgress target is asked, so
    a refused (skipped) draw still refreshes the stored lines.  For every initially empty
    MultiProgress on a terminal target with ANY refresh limiter, any bars, every valid history
    (any times, any limiter state, any number of refused draws before), every fault oracle and
    every MultiState::draw [(m, f, ex)] of the next call [o] - a call on ANY member or on the
    MultiProgress itself; by C02_frame the draw, if attempted, paints exactly [ms_frame m ex] -:
    the frame is  text ++ concat (for each slot of the ordering: [frame_of] the owning bar's
    state at that bar's MOST RECENT draw step [lg_last], not at its last PAINTED one), and for a
    member that is in sync ([le_sync]: no set_style and no position update refused by the bar's
    OWN position limiter since its last draw step - the only calls that change a bar's logic state
    without a draw step, C02_logic_change) this is [frame_of] its CURRENT state: position, length,
    message, prefix of the latest update.  The ghost [lat_step] never consults a limiter.
    Out of sync members are the narrow class documented in docs/C05.md (C05_nothing_lost_member_refuted). *)
From IndModel Require Import MultiSpec MultiLatest.
From IndProofs Require Import MultiLatestProofs LimiterMemberProofs.

Theorem C05_nothing_lost :
  (forall (R t0 tb len0 : N) (ops : list (N * bop)) (k : nat) (out : sout),
     1 <= R <= 255 -> t0 <= tb ->
     nondec tb (map fst ops) -> (forall t, In t (map fst ops) -> t < tb + U64) ->
     nth_error (sys_run (sys_new (false, Some R, t0, [(tb, len0)])) (std_ops ops)) k = Some out ->
     exists reached fr, out = Ok (reached, fr) /\
       (fr = None \/ fr = Some [fold_left upd (firstn (S k) (map snd ops)) (0, len0, 0)]))
  /\
  (forall (W H : N) (fails : N -> bool) (s0 : sys) (h1 h2 : list (N * op)) (now : N) (o : op),
     init_ok s0 -> mp_visible s0 -> hist_ok W H fails s0 (h1 ++ (now, o) :: h2) ->
     let r := lrun W H fails s0 0 lg_empty h1 in
     let s := fst (fst r) in
     let s' := step_sys W H fails s now o in
     let g' := lat_step s now o (length h1) (snd r) in
     forall m f ex, In (m, f, ex) (step_draws W H fails s now o) ->
       ms_frame m ex = (match ex with Some e => e | None => [] end ++ ms_orphans m)
                       ++ concat (map (shown g') (ms_order m))
       /\ forall i e, In i (ms_order m) -> lg_slot g' i = Some e ->
            b_target (get_bar s (le_bar e)) = TMulti i
            /\ lg_last g' (le_bar e) = Some (le_step e)
            /\ (le_sync e = true -> shown g' i = frame_of (get_bar s' (le_bar e)))).
Proof. exact (conj std_nothing_lost nothing_lost_multi). Qed.
Print Assumptions C05_nothing_lost.

(** REFUSED BY THE TARGET'S LIMITER = NOT LOST.  Call [o] is a draw request of member [b] (any call on
    [b] except the silent list) - painted or REFUSED by the refresh limiter of the MultiProgress
    target, the theorem does not care -; afterwards nothing touches [b] ([quiet]: no draw step,
    no silent change, no remove of [b]) while the other members and the MultiProgress do anything,
    including any number of further refused draws.  Then every MultiState::draw of a later call
    [o2] (of another member or of the MultiProgress) composes, for the slot of [b] (if it is in
    the composed ordering), [frame_of] the CURRENT state of [b], which is the state of the
    request [o]: its position, length and texts are in the next painted frame. *)
Theorem C05_nothing_lost_member_target_limiter :
  forall (W H : N) (fails : N -> bool) (s0 : sys) (h1 h2 h3 : list (N * op))
         (now now2 : N) (o o2 : op) (b i : N) (st : bar),
  init_ok s0 -> mp_visible s0 ->
  hist_ok W H fails s0 (h1 ++ (now, o) :: h2 ++ (now2, o2) :: h3) ->
  let s1 := run W H fails s0 h1 in
  let s1' := step_sys W H fails s1 now o in
  let s2 := run W H fails s1' h2 in
  let s2' := step_sys W H fails s2 now2 o2 in
  op_draw s1 now o = Some (b, st) -> b_target (get_bar s1 b) = TMulti i ->
  quiet W H fails s1' b (h2 ++ [(now2, o2)]) -> alive s2' b = true ->
  forall m f ex, In (m, f, ex) (step_draws W H fails s2 now2 o2) -> In i (ms_order m) ->
    member_lines (ms_members m) i = frame_of (get_bar s2' b)
    /\ logic (get_bar s2' b) = logic st.
Proof. exact nothing_lost_target_limiter. Qed.
Print Assumptions C05_nothing_lost_member_target_limiter.

(** REFUSED BY THE BAR'S OWN POSITION LIMITER = LOST UNTIL THE NEXT REACHING REQUEST (genuine, open
    finding, class `multi-member-stale-after-throttled-position-update`; same behaviour of the real
    code, docs/C05.md).  Witness: MultiProgress at 1 Hz, members A and B; eleven A.inc(1) at t = 5 ns:
    the eleventh is refused by A's position limiter (burst 10, 1 ms) - a silent change, no draw
    step; at t = 6 ns B.tick() is painted: the frame shows A's line for position 10 although A's
    position is 11.  (A stand-alone bar renders its live state at paint time and is not affected.) *)
Theorem C05_nothing_lost_member_refuted :
  exists (s0 : sys) (h : list (N * op)) (now : N) (o : op),
    init_ok s0 /\ mp_visible s0 /\ hist_ok 40 20 (fun _ => false) s0 (h ++ [(now, o)]) /\
    let s := run 40 20 (fun _ => false) s0 h in
    let s' := step_sys 40 20 (fun _ => false) s now o in
    exists m f ex, In (m, f, ex) (step_draws 40 20 (fun _ => false) s now o)
      /\ ms_attempt 40 m f ex now = true
      /\ alive s' 0 = true /\ b_target (get_bar s' 0) = TMulti 0 /\ In 0 (ms_order m)
      /\ silent_change (run 40 20 (fun _ => false) s0 (firstn 12 h)) 5 (OInc 0 1) 0 = true
      /\ member_lines (ms_members m) 0 <> frame_of (get_bar s' 0).
Proof. exact multi_stale_refuted. Qed.
Print Assumptions C05_nothing_lost_member_refuted.

(** the positive bound for that class: what a frame shows for a member is its state at its most
    recent REACHING request ([lg_last], second conjunct of C05_nothing_lost), and an
    inc / dec / set_position made at least AP_INTERVAL_NS = 1 ms after the instant [ap_prev] of the
    bar's position limiter (its last reaching update or reset, on the 1 ms grid) is a reaching
    request carrying the new position: by C02_draw_step_current / the theorem above its stored
    lines are fresh again.  ([now - ap_start < 2^64]: the bar is younger than 584 years.) *)
Theorem C05_member_position_reaches : forall (x : bar) (f : N -> N) (now : N),
  ap_start (b_ap x) <= now -> now - ap_start (b_ap x) < U64 ->
  ap_prev (b_ap x) + IndGen.Constants.AP_INTERVAL_NS <= now - ap_start (b_ap x) ->
  exists st, pos_draw x f now = Some st /\ b_pos st = f (b_pos x) /\ b_len st = b_len x /\ b_msg st = b_msg x.
Proof. exact pos_draw_reaches. Qed.
Print Assumptions C05_member_position_reaches.

(* ------------------------------------------------------------------ non-vacuity (members) *)
Definition c5_bar (c : N) : bar :=
  new_bar (Some 100) FAndLeave [PLit [c; 58]; PPos; PLit [47]; PLen; PLit [32]; PMsg] THidden 0.
(** members A, B, C of a MultiProgress on a 1 Hz terminal target *)
Definition c5_s0 : sys := mksys [c5_bar 65; c5_bar 66; c5_bar 67] (new_ms (TTerm (new_ttarget (Some 1) 0))) 0.
(** 20 ticks of A drain the refresh limiter *)
Definition c5_h1 : list (N * op) :=
  [(0, OInsert BEnd 0); (0, OInsert BEnd 1); (0, OInsert BEnd 2)]
  ++ map (fun k => (k, OTick 0)) [1;2;3;4;5;6;7;8;9;10;11;12;13;14;15;16;17;18;19;20].
(** the request of A that is refused: set_message("two") after set_length(200), set_position(50) *)
Definition c5_o : N * op := (102, OSetMsg 0 [116;119;111]).
(** meanwhile C is updated (refused as well); then, a second later, B.set_message("go") is painted *)
Definition c5_h2 : list (N * op) := [(103, OSetMsg 2 [99]); (104, OTick 2)].
Definition c5_o2 : N * op := (1000000100, OSetMsg 1 [103;111]).
Definition c5_nf : N -> bool := fun _ => false.
Definition c5_pre : list (N * op) := c5_h1 ++ [(100, OSetLen 0 200); (101, OSetPos 0 50)].

(** this is the witness of seeded defect C05-2 (seeded/C05-2/notes.md): the hypotheses hold, the
    requests of A and C paint nothing, the frame triggered by B shows "A:50/200 two" *)
Example C05_nothing_lost_member_example :
  let s1 := run 40 20 c5_nf c5_s0 c5_pre in
  let s1' := step_sys 40 20 c5_nf s1 (fst c5_o) (snd c5_o) in
  let s2 := run 40 20 c5_nf s1' c5_h2 in
  hist_ok 40 20 c5_nf c5_s0 (c5_pre ++ c5_o :: c5_h2 ++ c5_o2 :: [])
  /\ (exists st, op_draw s1 (fst c5_o) (snd c5_o) = Some (0, st)) /\ b_target (get_bar s1 0) = TMulti 0
  /\ quiet 40 20 c5_nf s1' 0 (c5_h2 ++ [c5_o2])
  /\ step_out 40 20 c5_nf s1 (fst c5_o) (snd c5_o) = []
  /\ step_out 40 20 c5_nf s1' 103 (OSetMsg 2 [99]) = []
  /\ map (fun '(m, f, ex) => (ms_attempt 40 m f ex (fst c5_o2), map lt (ms_frame m ex)))
         (step_draws 40 20 c5_nf s2 (fst c5_o2) (snd c5_o2))
     = [(true, [[65;58;53;48;47;50;48;48;32;116;119;111]; [66;58;48;47;49;48;48;32;103;111];
                [67;58;48;47;49;48;48;32;99]])].
Proof.
  vm_compute. repeat split; try discriminate; try (eexists; reflexivity).
Qed.

(** a frame triggered by the MultiProgress itself (println) shows the latest requested states too *)
Example C05_nothing_lost_mp_trigger_example :
  let s2 := run 40 20 c5_nf c5_s0 (c5_pre ++ c5_o :: c5_h2) in
  map (fun '(m, f, ex) => (ms_attempt 40 m f ex 105, map lt (ms_frame m ex)))
      (step_draws 40 20 c5_nf s2 105 (OMPrintln [120]))
  = [(true, [[120]; [65;58;53;48;47;50;48;48;32;116;119;111]; [67;58;48;47;49;48;48;32;99]])].
Proof. vm_compute. reflexivity. Qed.

Example C05_member_position_reaches_example :
  (* A's position limiter after eleven inc at 5 ns: prev = 0 (grid), capacity 0; an inc at 1 ms reaches *)
  let x := get_bar (run 40 20 c5_nf c5_s0 ([(0, OInsert BEnd 0)] ++ map (fun _ => (5, OInc 0 1)) (seq 0 11))) 0 in
  ap_cap (b_ap x) = 0 /\ ap_prev (b_ap x) = 0 /\ pos_draw x (fun p => wadd64 p 1) 999999 = None
  /\ option_map b_pos (pos_draw x (fun p => wadd64 p 1) 1000000) = Some 12.
Proof. vm_compute. repeat split. Qed.

(** WHAT AN OUT-OF-SYNC MEMBER CAN BE STALE IN: THE POSITION ONLY.  A position update refused by the
    member's own position limiter ([silent_change] of an inc / dec / set_position) stores the new
    position and the limiter state and changes nothing else of the bar: length, message, prefix,
    template, status and tick count keep their values, and the call writes nothing to the terminal.
    set_length / set_message / set_prefix always reach BarState::draw, i.e. are draw steps
    ([op_draw], C02_draw_step_current: the member's stored lines are then [frame_of] its new state),
    and by C02_logic_change the only other call that changes a bar's logic state without a draw
    step is set_style.  Hence, in the second conjunct of C05_nothing_lost, what a frame shows for a
    member that is out of sync through refused position updates only (finding D27) differs from
    its current state in the position alone: its length, message and prefix are the latest ones.
    (The last step is a composition of these theorems in words, not a further theorem.) *)
Theorem C05_member_refused_update_position_only :
  forall (W H : N) (fails : N -> bool) (s : sys) (now : N) (o : op) (x : N),
  match o with OInc _ _ | ODec _ _ | OSetPos _ _ => True | _ => False end ->
  silent_change s now o x = true ->
  let y := get_bar s x in let y' := get_bar (step_sys W H fails s now o) x in
  b_len y' = b_len y /\ b_msg y' = b_msg y /\ b_prefix y' = b_prefix y /\ b_tmpl y' = b_tmpl y
  /\ b_status y' = b_status y /\ b_tick y' = b_tick y /\ step_out W H fails s now o = [].
Proof. exact silent_pos_keeps. Qed.
Print Assumptions C05_member_refused_update_position_only.

(** non-vacuity: the eleventh A.inc(1) at 5 ns of the D27 witness is such a call; A's position
    becomes 11 *)
Example C05_member_refused_update_example :
  let s := run 40 20 c5_nf c5_s0 ([(0, OInsert BEnd 0)] ++ map (fun _ => (5, OInc 0 1)) (seq 0 10)) in
  silent_change s 5 (OInc 0 1) 0 = true
  /\ b_pos (get_bar s 0) = 10 /\ b_pos (get_bar (step_sys 40 20 c5_nf s 5 (OInc 0 1)) 0) = 11.
Proof. vm_compute. repeat split. Qed.
