(** C16 – Tabs are always expanded before reaching the terminal.
    Only statements; every proof is [exact <lemma from IndProofs.TabsProofs>].
    [run bar_init ops] is the model of a ProgressBar (OnceLock caches explicit) executing the
    public calls [ops]; its second component lists, per call, the bar lines drawn or the text a
    getter returned.  [ref_run] is the cache-free reference: texts are kept as given and
    expanded from the ORIGINAL with the CURRENT tab width whenever they are looked at. *)
From IndModel Require Import Base Tabs.
From IndGen Require Import Constants.
From IndProofs Require Import TabsProofs.
From Coq Require Import NArith List.
Import ListNotations.
Open Scope N_scope.

(** Cache invariant, for every history (any order, any length, any widths and texts): every
    TabExpandedString reachable from the bar (message, prefix, template literals) carries the
    bar's tab width and an empty cache or the expansion of its original at that width; the
    style's tab width (used by TabRewriter for custom keys) is the bar's. *)
Theorem C16_inv : forall ops : list op, inv (fst (run bar_init ops)).
Proof. exact inv_reachable. Qed.
Print Assumptions C16_inv.

(** Refinement: for every history, every draw and every getter result of the cached model is
    what the cache-free reference produces – changing the width before or after the style or
    the texts, in any order, re-expands all of them consistently. *)
Theorem C16_refines : forall ops : list op,
  snd (run bar_init ops) = snd (ref_run rbar_init ops).
Proof. exact refines. Qed.
Print Assumptions C16_refines.

(** No TAB in any bar line of any draw (message, prefix, template literals, custom-key
    output), nor in what message()/prefix() return – every history, every width including 0.
    ([op_ok]: the text given to println, which is not a bar line, is itself TAB-free.) *)
Theorem C16_no_tab : forall ops : list op,
  Forall op_ok ops -> Forall out_notab (snd (run bar_init ops)).
Proof. exact no_tab. Qed.
Print Assumptions C16_no_tab.

(** message() / prefix() after any history return the last text given (by set_message,
    with_message, finish_with_message, abandon_with_message / set_prefix, with_prefix; "" if
    none) expanded with the last tab width given (8 if none). *)
Theorem C16_getters : forall ops : list op,
  snd (run bar_init (ops ++ [GetMessage]))
  = snd (run bar_init ops) ++ [OGot (expand (last_msg [] ops) (last_tw DEFAULT_TAB_WIDTH ops))]
  /\ snd (run bar_init (ops ++ [GetPrefix]))
  = snd (run bar_init ops) ++ [OGot (expand (last_prefix [] ops) (last_tw DEFAULT_TAB_WIDTH ops))].
Proof. exact getters. Qed.
Print Assumptions C16_getters.

(** A draw after any history is the reference rendering (everything expanded from the
    originals) of the state the history defines: last width, last message, last prefix, and
    the template/keys of the last style. *)
Theorem C16_draw_consistent : forall ops : list op,
  let r := fst (ref_run rbar_init ops) in
  snd (run bar_init (ops ++ [Tick])) = snd (run bar_init ops) ++ [ODraw (ref_render r)]
  /\ r_tw r = last_tw DEFAULT_TAB_WIDTH ops
  /\ r_msg r = last_msg [] ops
  /\ r_prefix r = last_prefix [] ops.
Proof. exact draw_consistent. Qed.
Print Assumptions C16_draw_consistent.

(** The expansion itself: no TAB is left, a TAB-free text is unchanged, and every TAB became
    exactly [w] characters (spaces, by definition of [expand]). *)
Theorem C16_expand_spec : forall (s : text) (w : N),
  ~ In TAB (expand s w)
  /\ (has_tab s = false -> expand s w = s)
  /\ (length (expand s w) + ntabs s = length s + ntabs s * N.to_nat w)%nat.
Proof. intros s w. exact (conj (expand_no_tab s w) (conj (expand_notab s w) (expand_length s w))). Qed.
Print Assumptions C16_expand_spec.

(** Non-vacuity and sanity. *)
(* the model's default template is the crate's "{wide_bar} {pos}/{len}", its default width 8 *)
Example C16_default_template_text :
  DEFAULT_BAR_TEMPLATE = [123; 119; 105; 100; 101; 95; 98; 97; 114; 125; 32; 123; 112; 111; 115; 125;
                          47; 123; 108; 101; 110; 125]
  /\ DEFAULT_TAB_WIDTH = 8.
Proof. split; reflexivity. Qed.

(* "a<TAB>b{msg}" with message "<TAB>", custom key 0 writing "x<TAB>" *)
Definition ex_style : op := SetStyleNew [(0, [[120; 9]])] [TLit [97; 9; 98]; TMsg; TKey 0].
(* width set after everything, between, or first: the same final frame, caches or not *)
Example C16_ex_orders :
  let final ops := last (snd (run bar_init (ops ++ [Tick]))) ONone in
  final [ex_style; SetMessage [9]; Tick; GetMessage; SetTabWidth 2]
  = ODraw (Some [[97; 32; 32; 98; 32; 32; 120; 32; 32]])
  /\ final [WithTabWidth 2; WithMessage [9]; ex_style] = ODraw (Some [[97; 32; 32; 98; 32; 32; 120; 32; 32]])
  /\ final [ex_style; Tick; SaveStyle; SetTabWidth 5; SetMessage [9]; SetStyleNew [] [TMsg]; Tick;
            WithTabWidth 2; RestoreStyle]
     = ODraw (Some [[97; 32; 32; 98; 32; 32; 120; 32; 32]]).
Proof. repeat split; reflexivity. Qed.

(* tab width 0 removes the tabs *)
Example C16_ex_width0 :
  snd (run bar_init [ex_style; SetMessage [9; 109]; SetTabWidth 0; GetMessage])
  = [ONone; ODraw (Some [[97; 32; 32; 32; 32; 32; 32; 32; 32; 98; 32; 32; 32; 32; 32; 32; 32; 32; 109;
                          120; 32; 32; 32; 32; 32; 32; 32; 32]]);
     ODraw (Some [[97; 98; 109; 120]]); OGot [109]].
Proof. reflexivity. Qed.

(* a filled cache that WOULD be stale: the model state after the width change has it cleared *)
Example C16_ex_cache_cleared :
  b_msg (fst (run bar_init [SetMessage [9]; GetMessage])) = WithTabs [9] (Some [32;32;32;32;32;32;32;32]) 8
  /\ b_msg (fst (run bar_init [SetMessage [9]; GetMessage; WithTabWidth 1])) = WithTabs [9] None 1.
Proof. split; reflexivity. Qed.
