(** C16 – Tabs are always expanded before reaching the terminal.
    Only statements; every proof is [exact <term built from lemmas of IndProofs.TabsProofs /
    IndProofs.TabsEnvProofs>] (a conjunction or an existential witness where the statement is
    one).  The vocabulary of the statements is defined in IndModel.Tabs (model/Tabs.v) and
    IndModel.TabsEnv (model/TabsEnv.v).

    [run E bar_init ops] is the model of a ProgressBar (OnceLock caches explicit) executing the
    public calls [ops] in the environment [E]; its second component lists, per call, the text
    lines and the BAR LINES handed to the terminal, or the text a getter returned.  The model
    renders EVERY template: literals, msg / prefix / custom keys, wide_msg, wide_bar, bar,
    spinner and the numeric keys, each with alignment, width, truncation, style and alt style.
    [E : env] supplies what the crate computes from things outside this model (column width of
    a string, terminal width, text of the numeric / time keys, geometry of a bar); it is
    universally quantified everywhere.  [ref_run] is the cache-free reference: texts are kept as
    given and expanded from the ORIGINAL with the CURRENT tab width whenever they are looked at. *)
From IndModel Require Import Base Tabs TabsEnv.
From IndModel Require Keys Fmt.
From IndModel Require Padded.
From IndGen Require Import Constants.
From IndProofs Require Import TabsProofs TabsEnvProofs.
From IndModel Require Locks BracketsC01 BracketsC16.
From IndGen Require LockFootprints.
From IndProofs Require BracketsC16Proofs.
From Coq Require SpecFloat.
From Coq Require Import NArith List.
From Coq Require String.
Import ListNotations.
Open Scope N_scope.

(* an environment without numeric texts (40 columns) and the facts the witness below needs *)
Definition exE0 : env := chk_env 40 [] [] [] [].
Example C16_ex_env0_ok : env_ok exE0.
Proof. intros d id w H. exact H. Qed.
Example C16_ex_pre_6ff82af_ops_ok : Forall op_ok pre_6ff82af_ops.
Proof. repeat constructor. Qed.

(** Cache invariant, for every history (any order, any length, any widths and texts): every
    TabExpandedString reachable from the bar (message, prefix, template literals) carries the
    bar's tab width and an empty cache or the expansion of its original at that width; the
    style's tab width (used by TabRewriter for custom keys) is the bar's. *)
Theorem C16_inv : forall (E : env) (ops : list op), inv (fst (run E bar_init ops)).
Proof. exact inv_reachable. Qed.
Print Assumptions C16_inv.

(** Refinement: for every history and every template, every draw (all its bar lines) and every
    getter result of the cached model is what the cache-free reference produces – changing the
    width before or after the style or the texts, in any order, re-expands all of them
    consistently, also inside sized / aligned / truncated fields and inside wide_msg. *)
Theorem C16_refines : forall (E : env) (ops : list op),
  snd (run E bar_init ops) = snd (ref_run E rbar_init ops).
Proof. exact refines. Qed.
Print Assumptions C16_refines.

(** THE PROPERTY's first sentence, for EVERY template and every style the builders accept: no TAB
    in any bar line of any draw - message, prefix, template literals, custom-key output, tick
    strings (expanded at render time with the style's current tab width since 6ff82af), bare or
    inside a sized / aligned / truncated / styled field or inside wide_msg, progress characters
    (the builder rejects a TAB, style.rs:157-158: such a `SetStyleNew` yields [OBuildPanic] and
    leaves the bar as it was) - nor in what message()/prefix() return; every history, every tab
    width including 0, every environment.
    Remaining hypotheses, both about what other crates / properties write verbatim into a line:
    [op_ok]: the escape sequences console::Style writes around a styled placeholder are TAB-free;
    [env_ok]: so is the text of the numeric / time keys.  The text given to println is not a bar
    line and is unconstrained. *)
Theorem C16_no_tab : forall (E : env) (ops : list op),
  env_ok E -> Forall op_ok ops -> Forall out_notab (snd (run E bar_init ops)).
Proof. exact no_tab. Qed.
Print Assumptions C16_no_tab.

(** [env_ok] discharged: the texts of ALL 22 numeric / time keys are TAB-free when they are what
    the key dispatch of format_state (C11's model, Keys.builtin_value) produces with the crate's
    formatters (C15's model, Fmt.v: HumanCount, Human/Decimal/BinaryBytes, FormattedDuration,
    HumanDuration, HumanFloatCount, `{:.p}`) from ANY snapshot per rendering - any position,
    length, fraction, elapsed / eta / duration, per_sec bit pattern (NaN, infinities included). *)
Theorem C16_env_ok_formatters :
  forall (cols : text -> N) (termw : N -> N) (geom : N -> N -> N * option N * N)
         (dec32 : N -> SpecFloat.spec_float) (snap : N -> Keys.snapshot),
  env_ok (keys_env cols termw geom dec32 snap).
Proof. exact keys_env_ok. Qed.
Print Assumptions C16_env_ok_formatters.

(** ... hence C16_no_tab without the hypothesis about the numeric keys, for those environments. *)
Theorem C16_no_tab_formatters :
  forall (cols : text -> N) (termw : N -> N) (geom : N -> N -> N * option N * N)
         (dec32 : N -> SpecFloat.spec_float) (snap : N -> Keys.snapshot) (ops : list op),
  Forall op_ok ops ->
  Forall out_notab (snd (run (keys_env cols termw geom dec32 snap) bar_init ops)).
Proof. exact no_tab_keys. Qed.
Print Assumptions C16_no_tab_formatters.

(** Regression statement (finding D29, fixed by /repo 6ff82af): with the {spinner} arm as it was
    BEFORE that commit ([ref_lines_gen true]: the tick string pushed into the line as stored)
    the frame of a reachable state contains a TAB - style tick_strings(["\t","x"]), template
    "{spinner}" - although every hypothesis of C16_no_tab holds; with the arm as it is now the
    same frame is TAB-free.  [ref_lines_gen false] is the rendering the theorems above are
    about; [ref_lines_gen true] is used by no other statement. *)
Theorem C16_no_tab_pre_6ff82af_regression :
  exists (E : env) (ops : list op),
    env_ok E /\ Forall op_ok ops /\
    let r := fst (ref_run E rbar_init ops) in
    ~ Forall notab (ref_lines_gen true E r) /\ Forall notab (ref_lines_gen false E r).
Proof.
  exact (ex_intro _ exE0 (ex_intro _ pre_6ff82af_ops
           (conj C16_ex_env0_ok (conj C16_ex_pre_6ff82af_ops_ok (pre_6ff82af_frame exE0))))).
Qed.
Print Assumptions C16_no_tab_pre_6ff82af_regression.

(** What format_state does to a placeholder's text keeps it TAB-free, whatever the column
    widths are: padding / truncation of a sized field (PaddedStringDisplay), trimming, and the
    expansion of wide_msg into the rest of the line. *)
Theorem C16_layout_keeps_tab_free :
  (forall (cols : text -> N) (s : text) (w : N) (a : Padded.align) (tr : bool),
     notab s -> notab (pad_text cols s w a tr))
  /\ (forall s : text, notab s -> notab (trim_end s))
  /\ (forall (c : rctx) (a : Padded.align) (emsg cur : text),
        notab emsg -> notab cur -> notab (wide_msg_line c a emsg cur)).
Proof. exact (conj pad_text_notab (conj trim_end_notab wide_msg_line_notab)). Qed.
Print Assumptions C16_layout_keeps_tab_free.

(** message() / prefix() after any history return the last text given (by set_message,
    with_message, finish_with_message, abandon_with_message, or the message of the stored
    finish behaviour when finish_using_style ran / set_prefix, with_prefix; "" if none)
    expanded with the last tab width given (8 if none). *)
Theorem C16_getters : forall (E : env) (ops : list op),
  snd (run E bar_init (ops ++ [GetMessage]))
  = snd (run E bar_init ops) ++ [OGot (expand (last_msg [] FAndClear ops) (last_tw DEFAULT_TAB_WIDTH ops))]
  /\ snd (run E bar_init (ops ++ [GetPrefix]))
  = snd (run E bar_init ops) ++ [OGot (expand (last_prefix [] ops) (last_tw DEFAULT_TAB_WIDTH ops))].
Proof. exact getters. Qed.
Print Assumptions C16_getters.

(** A draw (tick) after any history is the reference rendering (everything expanded from the
    originals) of the state the history defines: last width, last message, last prefix, and
    the template / keys / tick strings / progress characters of the last style. *)
Theorem C16_draw_consistent : forall (E : env) (ops : list op),
  let r := fst (ref_run E rbar_init ops) in
  snd (run E bar_init (ops ++ [Tick]))
  = snd (run E bar_init ops) ++ [ODraw [] (snd (ref_render E (rbar_tick r)))]
  /\ r_tw r = last_tw DEFAULT_TAB_WIDTH ops
  /\ r_msg r = last_msg [] FAndClear ops
  /\ r_prefix r = last_prefix [] ops.
Proof. exact draw_consistent. Qed.
Print Assumptions C16_draw_consistent.

(** The expansion itself: no TAB is left, a TAB-free text is unchanged, and every TAB became
    exactly [w] characters (spaces, by definition of [expand]). *)
Theorem C16_expand_spec : forall (s : text) (w : N),
  notab (expand s w)
  /\ (has_tab s = false -> expand s w = s)
  /\ (length (expand s w) + ntabs s = length s + ntabs s * N.to_nat w)%nat.
Proof. intros s w. exact (conj (expand_no_tab s w) (conj (expand_notab s w) (expand_length s w))). Qed.
Print Assumptions C16_expand_spec.

(** The theorems above are SEQUENTIAL: [run] executes one op after the other.  Against other
    threads holding clones of the handle they need that each RUST CALL does "read the tab width,
    build the TabExpandedString, store it, draw" inside one critical section over the bar mutex.
    That is what is tied to the source here: for every op of the alphabet and every Rust method
    it stands for ([c16_call]), on EVERY path of the method's lock footprint (table regenerated
    from /repo/src on every run, tools/locks_extract.py): exactly one outermost section over the
    bar mutex, with the draw (MultiState lock), BarState::tick and every callback inside it and
    the mutex never given up in between - at most one for `tick` (nothing happens while a steady
    ticker runs); `drop` runs with exclusive ownership and never takes it.
    A set_message that reads the width in one section and stores the text in a second one
    (seeded defect C16-5) breaks this obligation.
    NOT claimed: an op that is SEVERAL calls is atomic as a whole.  [SetStyleDerived]
    = `pb.set_style(pb.style().template(..))` is two calls (style(), then set_style / with_style)
    with a window in between; [SetStyleNew] builds the style away from the bar and is one call on
    it; [FinishUsingStyle] and [Tick] list ALTERNATIVE methods (finish_using_style or drop; tick
    or update), each a single call.  Another thread may act inside that window; each of its calls
    is again one step, so the result is a sequential history of the model in some interleaving -
    the one [run] is applied to. *)
Theorem C16_calls_atomic : forall (o : op) (name : String.string),
  In name (BracketsC16.c16_call o) ->
  exists p, Locks.pg_lookup name LockFootprints.all_programs = Some p /\
            forall tr, Locks.paths p tr -> BracketsC16.c16_atomic name tr.
Proof. exact BracketsC16Proofs.c16_calls_atomic. Qed.
Print Assumptions C16_calls_atomic.

(** Non-vacuity and sanity. *)
(* set_message has a path; the two-section shape of the seeded defect is rejected *)
Section AtomicExample.
Import String.
Example C16_ex_set_message_path :
  (exists p tr, Locks.pg_lookup "ProgressBar::set_message"%string LockFootprints.all_programs = Some p
                /\ Locks.paths p tr)
  /\ ~ BracketsC16.c16_atomic "ProgressBar::set_message"%string
        [Locks.CAcq Locks.CBar; Locks.CRel Locks.CBar; Locks.CAcq Locks.CBar; Locks.CAcq Locks.CMulti;
         Locks.CRel Locks.CMulti; Locks.CRel Locks.CBar].
Proof. exact (conj BracketsC16Proofs.set_message_has_path BracketsC16Proofs.split_sections_rejected). Qed.
End AtomicExample.

(* the model's default template is the crate's "{wide_bar} {pos}/{len}", its default width 8;
   KEY_POS / KEY_LEN are the positions of "pos" / "len" in the crate's key list *)
Section KeyNames.
Import String.
Example C16_default_template_text :
  DEFAULT_BAR_TEMPLATE = [123; 119; 105; 100; 101; 95; 98; 97; 114; 125; 32; 123; 112; 111; 115; 125;
                          47; 123; 108; 101; 110; 125]
  /\ DEFAULT_TAB_WIDTH = 8
  /\ nth (N.to_nat KEY_POS) FORMAT_KEYS ""%string = "pos"%string
  /\ nth (N.to_nat KEY_LEN) FORMAT_KEYS ""%string = "len"%string.
Proof. repeat split; reflexivity. Qed.
End KeyNames.

(* the environment of the examples: 40 columns, every character one column wide, pos = len = "0" *)
Definition exE : env := chk_env 40 [] [(KEY_POS, [48]); (KEY_LEN, [48])] [] [].
Example C16_ex_env_ok : env_ok exE.
Proof.
  intros d id w. apply has_tab_in. unfold exE, chk_env, e_num, KEY_POS, KEY_LEN. cbn [lookup_draw lookup_or].
  destruct (id =? 6); [reflexivity|]. destruct (id =? 8); reflexivity.
Qed.

(* "a<TAB>b{msg}" with message "<TAB>", custom key 0 writing "x<TAB>" *)
Definition ex_style : op := SetStyleNew [(0, [[120; 9]])] default_glyphs [TLit [97; 9; 98]; TMsg; TKey 0].
Example C16_ex_style_ok : op_ok ex_style.
Proof. repeat constructor. Qed.
(* width set after everything, between, or first: the same final frame, caches or not *)
Example C16_ex_orders :
  let final ops := last (snd (run exE bar_init (ops ++ [Tick]))) ONone in
  final [ex_style; SetMessage [9]; Tick; GetMessage; SetTabWidth 2]
  = ODraw [] [[97; 32; 32; 98; 32; 32; 120; 32; 32]]
  /\ final [WithTabWidth 2; WithMessage [9]; ex_style] = ODraw [] [[97; 32; 32; 98; 32; 32; 120; 32; 32]]
  /\ final [ex_style; Tick; SaveStyle; SetTabWidth 5; SetMessage [9]; SetStyleNew [] default_glyphs [TMsg]; Tick;
            WithTabWidth 2; RestoreStyle]
     = ODraw [] [[97; 32; 32; 98; 32; 32; 120; 32; 32]].
Proof. repeat split; reflexivity. Qed.

(* tab width 0 removes the tabs *)
Example C16_ex_width0 :
  snd (run exE bar_init [ex_style; SetMessage [9; 109]; SetTabWidth 0; GetMessage])
  = [ONone; ODraw [] [[97; 32; 32; 32; 32; 32; 32; 32; 32; 98; 32; 32; 32; 32; 32; 32; 32; 32; 109;
                       120; 32; 32; 32; 32; 32; 32; 32; 32]];
     ODraw [] [[97; 98; 109; 120]]; OGot [109]].
Proof. reflexivity. Qed.

(* a filled cache that WOULD be stale: the model state after the width change has it cleared *)
Example C16_ex_cache_cleared :
  b_msg (fst (run exE bar_init [SetMessage [9]; GetMessage])) = WithTabs [9] (Some [32;32;32;32;32;32;32;32]) 8
  /\ b_msg (fst (run exE bar_init [SetMessage [9]; GetMessage; WithTabWidth 1])) = WithTabs [9] None 1.
Proof. split; reflexivity. Qed.

(* both default templates say something now.  "{wide_bar} {pos}/{len}" at 40 columns, fraction 0:
   36 background cells, " 0/0"; "{spinner} {msg}" with message "<TAB>a" and tab width 2 *)
Example C16_ex_default_templates :
  snd (run exE bar_init [Tick])
  = [ODraw [] [rep [9617] 36 ++ [32; 48; 47; 48]]]
  /\ snd (run exE bar_init [SetStyleNew [] default_glyphs [TPh (bare KSpinner); TLit [32]; TMsg];
                            WithTabWidth 2; SetMessage [9; 97]; Tick; FinishWithMessage [9]])
     = [ONone; ONone; ODraw [] [[10241; 32; 32; 32; 97]]; ODraw [] [[10241; 32; 32; 32; 97]];
        ODraw [] [[32; 32; 32; 32]]].
Proof. split; reflexivity. Qed.

(* the message inside a right-aligned truncating field of 5 columns and inside wide_msg (which
   gets the 40 - 7 columns left, is padded, and trimmed because it ends the line); tab width 1,
   then 3 *)
Example C16_ex_fields :
  snd (run exE bar_init
         [SetStyleNew [] default_glyphs
            [TLit [91]; TPh (mkph KMsg Padded.ARight (Some 5) true None None); TLit [93];
             TPh (bare KWideMsg)];
          WithTabWidth 1; SetMessage [97; 9; 98; 9; 99; 100; 101]; SetTabWidth 3])
  = [ONone; ONone;
     ODraw [] [[91; 98; 32; 99; 100; 101; 93; 97; 32; 98; 32; 99; 100; 101]];
     ODraw [] [[91; 32; 32; 99; 100; 101; 93; 97; 32; 32; 32; 98; 32; 32; 32; 99; 100; 101]]].
Proof. reflexivity. Qed.

(* with_finish(WithMessage) + finish_using_style, the path of a dropped bar; the default finish
   behaviour hides the bar; println text is written as it is, also with a TAB *)
Example C16_ex_finish_using_style :
  snd (run exE bar_init [SetStyleNew [] default_glyphs [TMsg]; WithFinish (FWithMessage [9; 33]);
                         WithTabWidth 1; FinishUsingStyle; GetMessage; WithFinish FAndClear;
                         FinishUsingStyle; Println [120; 9; 10; 121; 13; 10]])
  = [ONone; ONone; ONone; ODraw [] [[32; 33]]; OGot [32; 33]; ONone; ODraw [] [];
     ODraw [[120; 9]; [121]] []].
Proof. reflexivity. Qed.

(* the former D29 witnesses on the code as it is now: tick_strings(["\t","x"]) + {spinner} draws the
   TAB as 8, then 2 spaces (always the current width: it is expanded at render time);
   progress_chars("#\t") is rejected by the builder and the bar keeps its style *)
Example C16_ex_tick_tab_expanded :
  snd (run exE bar_init [SetStyleNew [] (mkglyphs [[9]; [120]] [[35]; [45]] 1) [TPh (bare KSpinner)];
                         Tick; SetTabWidth 2])
  = [ONone; ODraw [] [[32; 32; 32; 32; 32; 32; 32; 32]]; ODraw [] [[32; 32]]]
  /\ snd (run exE bar_init [SetStyleNew [] (mkglyphs [[45]; [120]] [[35]; [9]] 1) [TMsg]; Tick])
     = [OBuildPanic; ODraw [] [rep [9617] 36 ++ [32; 48; 47; 48]]].
Proof. split; reflexivity. Qed.
