(** C03 - printed log lines are never erased, duplicated or reordered.
    Only statements; every proof is [exact <lemma from IndProofs>].
    The screen-level statement C03_log (rows of the terminal) is NOT proved here; what is proved is
    the bookkeeping that implies it once the terminal lemmas are available (docs/C03.md): how many
    rows every multi-level call erases and how the two row counters last_line_count /
    zombie_lines_count move.  All theorems are named _partial for that reason. *)
From IndModel Require Import MultiSpec.
From IndProofs Require Import MultiProofs MultiFrame.
From Coq Require Import List NArith.
Import ListNotations.
Open Scope N_scope.

(** I2 + I1 (counter level) for MultiState::draw, for EVERY state, time, force flag, limiter state
    (refused draws included) and terminal-failure pattern:
    - the draw erases E = last_line_count (+ zombie_lines_count iff text lines are drawn) rows,
      never more than last_line_count + zombie_lines_count = [region_count];
    - a refused draw changes neither the screen nor [region_count] (fix 7be6e32: no inflation);
    - after an attempted draw [region_count] = the rows draw_to_term reports as drawn (or, when the
      terminal failed, the old count) + the kept rows that were not erased. *)
Theorem C03_draw_count_partial : forall (W H : N) (fails : N -> bool) (m : mstate) (force : bool)
    (extra : option (list line)) (now c : N) (tg : ttarget),
  ms_target m = TTerm tg ->
  let m' := fst (fst (fst (ms_draw W H fails m force extra now c))) in
  let E := ms_erase_n m extra in
  E <= region_count m
  /\ (ms_has_text m extra = true -> E = region_count m)
  /\ (ms_attempt W m force extra now = false -> region_count m' = region_count m)
  /\ (ms_attempt W m force extra now = true ->
        exists tg3, fst (fst (fst (term_draw W H fails
                       (mktt E (tt_rl (snd (tt_allow (if ms_has_text m extra then tt_adjust_clear tg (ms_zombie_lines m) else tg)
                                                      (force || (0 <? visual_line_count (ms_orphans m) W)) now)))
                             (ms_align m) (tt_below tg)) (ms_frame m extra) c))) = tg3
        /\ region_count m' = tt_n tg3 + (if ms_has_text m extra then 0 else ms_zombie_lines m)).
Proof. exact ms_draw_count. Qed.
Print Assumptions C03_draw_count_partial.

(** a refused draw makes no TermLike call at all; an attempted one makes exactly the calls of one
    draw_to_term with the erase count above and all text lines first *)
Theorem C03_draw_calls_partial : forall (W H : N) (fails : N -> bool) (m : mstate) (force : bool)
    (extra : option (list line)) (now c : N),
  let r := ms_draw W H fails m force extra now c in
  if ms_attempt W m force extra now
  then snd (fst (fst r)) = fst (fst (emit fails c (fst (fst (ms_draw_event W H m extra)))))
  else snd (fst (fst r)) = [] /\ snd (fst r) = c.
Proof. exact ms_draw_frame. Qed.
Print Assumptions C03_draw_calls_partial.

(** Keep (drop of a finished bar at the head of the list): rows move from last_line_count to
    zombie_lines_count; their sum is unchanged, nothing is forgotten or invented *)
Theorem C03_mark_zombie_count_partial : forall (W : N) (m : mstate) (idx : N),
  region_count (ms_mark_zombie W m idx) = region_count m
  /\ target_n (ms_target (ms_mark_zombie W m idx)) <= target_n (ms_target m)
  /\ ms_zombie_lines m <= ms_zombie_lines (ms_mark_zombie W m idx).
Proof. exact mark_zombie_counts. Qed.
Print Assumptions C03_mark_zombie_count_partial.

(** MultiProgress::clear erases exactly the region: last_line_count + zombie_lines_count rows,
    and forgets the kept rows *)
Theorem C03_clear_count_partial : forall (W H : N) (fails : N -> bool) (m : mstate) (c : N) (tg : ttarget),
  ms_target m = TTerm tg ->
  let r := ms_clear W H fails m c in
  ms_zombie_lines (fst (fst (fst r))) = 0
  /\ snd (fst (fst r)) = fst (fst (emit fails c (fst (fst (draw_to_term [] (region_count m) (tt_align tg) (tt_below tg) W H))))).
Proof. exact ms_clear_count. Qed.
Print Assumptions C03_clear_count_partial.

(** every public call reaches the terminal only through the MultiState calls of [op_actions]
    (+ the closure of suspend): no other code path writes or erases rows *)
Theorem C03_only_multi_calls_partial : forall (W H : N) (fails : N -> bool) (s : sys) (now : N) (o : op),
  let x := mp_run W H fails now (s_mp s) (s_calls s) (op_actions W s now o) in
  s_mp (step_sys W H fails s now o) = fst (fst x)
  /\ (no_own_term s -> s_calls (step_sys W H fails s now o) = snd x
                       /\ step_out W H fails s now o = snd (fst x)).
Proof. exact step_mp. Qed.
Print Assumptions C03_only_multi_calls_partial.

(* ------------------------------------------------------------------ non-vacuity *)
(** the old D6 witness (refused draws while the head is a zombie, then println) on the model:
    region_count never exceeds the rows really drawn; the println erases 2 + 0 rows, not 5 *)
Definition ex3_bar (c : N) : bar := new_bar (Some 10) FAndLeave [PLit [c]; PPos] THidden 0.
Definition ex3_s0 : sys :=
  mksys [ex3_bar 65; ex3_bar 66; ex3_bar 67] (new_ms (TTerm (new_ttarget (Some 1) 0))) 0.
Definition ex3_ops : list (N * op) :=
  [(0, OMPrintln [108;49]); (0, OMPrintln [108;50]); (0, OInsert BEnd 0); (0, OInsert BEnd 1); (0, OInsert BEnd 2);
   (1, OTick 0); (2, OFinish 1 FAndLeave); (3, ODrop 1); (4, OFinish 0 FAndLeave); (5, ODrop 0);
   (6, OTick 2); (7, OTick 2); (8, OTick 2); (9, OTick 2); (10, OTick 2); (11, OTick 2); (12, OTick 2);
   (13, OTick 2); (14, OTick 2); (15, OTick 2); (16, OTick 2); (17, OTick 2); (18, OTick 2); (19, OTick 2);
   (20, OTick 2); (21, OTick 2); (22, OTick 2); (23, OTick 2); (24, OTick 2); (25, OTick 2); (26, OTick 2)].

Example C03_nonvacuous_refused_draws :
  hist_ok 20 50 (fun _ => false) ex3_s0 ex3_ops /\
  let s' := run 20 50 (fun _ => false) ex3_s0 ex3_ops in
  (* some of the ticks were refused by the 1 Hz limiter, and the counters still add up to the
     three rows on screen: A (kept), B (kept or live), C *)
  region_count (s_mp s') = 3 /\ ms_attempt 20 (s_mp s') false None 27 = false.
Proof. vm_compute. repeat split. Qed.

(* ================================================================== screen level (model/MultiScreen.v) *)
(** C03_log.  Scope as C02_screen (docs/C03.md): Top alignment, no I/O faults, the MultiProgress on
    a terminal, no bar with a terminal of its own, proviso [FitsAll]; ANY sequence of calls, any
    number of bars, every limiter state / time stamp - histories whose ordinary draws are all
    refused included -, every finish / drop order.
    [hist_log] is read off the calls alone: the lines of every MultiProgress::println, of every
    ProgressBar::println through a member, and every line written by a suspend closure, in call
    order.  After the history the rows ever written on the terminal are [pre], then EXACTLY the
    wrapping of these lines - each once, in emission order -, then the kept rows and the live
    region (whose row counts are zombie_lines_count and last_line_count), then blank rows only;
    and no printed line is still waiting in orphan_lines. *)
From IndModel Require Import MultiScreen.
From IndProofs Require Import MultiScreenProofs.

Theorem C03_log : forall (W H : N) (pre : list (list N)) (s0 : sys) (t0 : term) (h : list (N * op)),
  1 <= W -> 1 <= H ->
  ms_initial s0 -> ready (N.to_nat W) (N.to_nat H) pre t0 -> FitsAll W H s0 h ->
  let s := fst (fst (ms_run W H (s0, mghost0, t0) h)) in
  let g := snd (fst (ms_run W H (s0, mghost0, t0) h)) in
  let t := snd (ms_run W H (s0, mghost0, t0) h) in
  mg_log g = hist_log W H s0 h
  /\ (exists k, screen (N.to_nat W) t
        = map (pad (N.to_nat W)) (pre ++ wrap (N.to_nat W) (hist_log W H s0 h) ++ mg_kept g ++ mg_live g)
          ++ repeat (repeat SP (N.to_nat W)) k)
  /\ length (mg_kept g) = N.to_nat (ms_zombie_lines (s_mp s))
  /\ length (mg_live g) = N.to_nat (target_n (ms_target (s_mp s)))
  /\ ms_orphans (s_mp s) = [].
Proof. exact c03_log. Qed.
Print Assumptions C03_log.

(** ... after EVERY call of the history *)
Theorem C03_log_every_op : forall (W H : N) (pre : list (list N)) (s0 : sys) (t0 : term)
    (h1 h2 : list (N * op)), 1 <= W -> 1 <= H ->
  ms_initial s0 -> ready (N.to_nat W) (N.to_nat H) pre t0 -> FitsAll W H s0 (h1 ++ h2) ->
  let s := fst (fst (ms_run W H (s0, mghost0, t0) h1)) in
  let g := snd (fst (ms_run W H (s0, mghost0, t0) h1)) in
  let t := snd (ms_run W H (s0, mghost0, t0) h1) in
  mg_log g = hist_log W H s0 h1
  /\ (exists k, screen (N.to_nat W) t
        = map (pad (N.to_nat W)) (pre ++ wrap (N.to_nat W) (hist_log W H s0 h1) ++ mg_kept g ++ mg_live g)
          ++ repeat (repeat SP (N.to_nat W)) k)
  /\ length (mg_kept g) = N.to_nat (ms_zombie_lines (s_mp s))
  /\ length (mg_live g) = N.to_nat (target_n (ms_target (s_mp s)))
  /\ ms_orphans (s_mp s) = [].
Proof. exact c03_log_every_prefix. Qed.
Print Assumptions C03_log_every_op.

(* ------------------------------------------------------------------ non-vacuity (screen level) *)
(** the refused-draws witness above (1 Hz limiter, most ticks skipped, a bar reaped at the head
    while draws are refused), preceded by an earlier shell line, followed by a member println and a
    suspend: the hypotheses hold, and the computed screen shows every printed line once, in order *)
Definition ex3_ops2 : list (N * op) :=
  ex3_ops ++ [(27, OPrintln 2 [109;49;10;109;50]); (28, OMSuspend [[115]]); (29, OTick 2)].

Example C03_log_hypotheses_satisfiable :
  ms_initial ex3_s0 /\ FitsAll 4 50 ex3_s0 ex3_ops2
  /\ ready 4 50 [[36]] (run_ops 4 50 term_init [TLine [36]]).
Proof.
  split.
  - split.
    + intros b. unfold get_bar, nthN. destruct (N.to_nat b) as [|[|[|[|n]]]]; exact I.
    + eexists. repeat split. intros i ls Hi. unfold nthN in Hi. cbn in Hi.
      destruct (N.to_nat i); discriminate Hi.
  - split; [vm_compute; repeat (split || intro)|].
    exact (ready_start 4 50 [[36]] 0 1 ltac:(lia)).
Qed.

Example C03_log_example :
  let st := ms_run 4 50 (ex3_s0, mghost0, run_ops 4 50 term_init [TLine [36]]) ex3_ops2 in
  hist_log 4 50 ex3_s0 ex3_ops2 = [[108;49]; [108;50]; [109;49]; [109;50]; [115]]
  /\ mg_log (snd (fst st)) = [[108;49]; [108;50]; [109;49]; [109;50]; [115]]
  /\ screen 4 (snd st) = map (pad 4) [[36]; [108;49]; [108;50]; [109;49]; [109;50]; [115]; [67;48]].
Proof. vm_compute. repeat split. Qed.
