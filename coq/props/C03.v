(** C03 - printed log lines are never erased, duplicated or reordered.
    Only statements; every proof is [exact <lemma from IndProofs>] (refutation witnesses: vm_compute).
    Part 1: counter level, named _partial - how many rows every MultiState call erases and how
            last_line_count / zombie_lines_count move; every alignment, every fault pattern.
            (The two unfolding lemmas "a multi draw makes exactly one draw_to_term call" and "every
            public call reaches the terminal only through the MultiState calls of op_actions" are
            C02_frame and C02_step_calls in props/C02.v - shared with C02, not counted twice.)
    Part 2: screen level, C03_log / C03_log_every_op - every printed line (println of the
            MultiProgress, println of a member, every line a SUSPEND closure writes, through the
            MultiProgress or through a member) is on the terminal model exactly once, in emission
            order, above the region, after every call.  Scope: Top alignment, no I/O faults,
            proviso FitsAll.  Bottom alignment and alignment changes: C03_log_bottom_partial /
            C03_log_bottom_every_op_partial below (proviso FitsAllB).
    Part 3: what happens outside the provisos of part 2 - two refutation witnesses on the faithful
            model (both open findings of the implementation). *)
From IndModel Require Import MultiSpec.
From IndProofs Require Import MultiProofs MultiFrame.
From Coq Require Import List NArith.
Import ListNotations.
Open Scope N_scope.

(** I2 + I1 (counter level) for MultiState::draw, for EVERY state, time, force flag, limiter state
    (refused draws included) and terminal-failure pattern:
    - the draw erases E = last_line_count (+ zombie_lines_count iff text lines are drawn) rows,
      never more than last_line_count + zombie_lines_count = [region_count];
    - a refused draw changes neither the screen nor [region_count] (fix 7be6e32: no inflation);
    - after an attempted draw [region_count] = the rows draw_to_term reports as drawn (or, when the
      terminal failed, the old count) + the kept rows that were not erased. *)
Theorem C03_draw_count_partial : forall (W H : N) (fails : N -> bool) (m : mstate) (force : bool)
    (extra : option (list line)) (now c : N) (tg : ttarget),
  ms_target m = TTerm tg ->
  let m' := fst (fst (fst (ms_draw W H fails m force extra now c))) in
  let E := ms_erase_n m extra in
  E <= region_count m
  /\ (ms_has_text m extra = true -> E = region_count m)
  /\ (ms_attempt W m force extra now = false -> region_count m' = region_count m)
  /\ (ms_attempt W m force extra now = true ->
        exists tg3, fst (fst (fst (term_draw W H fails
                       (mktt E (tt_rl (snd (tt_allow (if ms_has_text m extra then tt_adjust_clear tg (ms_zombie_lines m) else tg)
                                                      (force || (0 <? visual_line_count (ms_orphans m) W)) now)))
                             (ms_align m) (tt_below tg)) (ms_frame m extra) c))) = tg3
        /\ region_count m' = tt_n tg3 + (if ms_has_text m extra then 0 else ms_zombie_lines m)).
Proof. exact ms_draw_count. Qed.
Print Assumptions C03_draw_count_partial.

(** Keep (drop of a finished bar at the head of the list): rows move from last_line_count to
    zombie_lines_count; their sum is unchanged, nothing is forgotten or invented *)
Theorem C03_mark_zombie_count_partial : forall (W : N) (m : mstate) (idx : N),
  region_count (ms_mark_zombie W m idx) = region_count m
  /\ target_n (ms_target (ms_mark_zombie W m idx)) <= target_n (ms_target m)
  /\ ms_zombie_lines m <= ms_zombie_lines (ms_mark_zombie W m idx).
Proof. exact mark_zombie_counts. Qed.
Print Assumptions C03_mark_zombie_count_partial.

(** MultiProgress::clear erases exactly the region: last_line_count + zombie_lines_count rows,
    and forgets the kept rows *)
Theorem C03_clear_count_partial : forall (W H : N) (fails : N -> bool) (m : mstate) (c : N) (tg : ttarget),
  ms_target m = TTerm tg ->
  let r := ms_clear W H fails m c in
  ms_zombie_lines (fst (fst (fst r))) = 0
  /\ snd (fst (fst r)) = fst (fst (emit fails c (fst (fst (draw_to_term [] (region_count m) (tt_align tg) (tt_below tg) W H))))).
Proof. exact ms_clear_count. Qed.
Print Assumptions C03_clear_count_partial.

(* ------------------------------------------------------------------ non-vacuity *)
(** the old D6 witness (refused draws while the head is a zombie, then println) on the model:
    region_count never exceeds the rows really drawn; the println erases 2 + 0 rows, not 5 *)
Definition ex3_bar (c : N) : bar := new_bar (Some 10) FAndLeave [PLit [c]; PPos] THidden 0.
Definition ex3_s0 : sys :=
  mksys [ex3_bar 65; ex3_bar 66; ex3_bar 67] (new_ms (TTerm (new_ttarget (Some 1) 0))) 0.
Definition ex3_ops : list (N * op) :=
  [(0, OMPrintln [108;49]); (0, OMPrintln [108;50]); (0, OInsert BEnd 0); (0, OInsert BEnd 1); (0, OInsert BEnd 2);
   (1, OTick 0); (2, OFinish 1 FAndLeave); (3, ODrop 1); (4, OFinish 0 FAndLeave); (5, ODrop 0);
   (6, OTick 2); (7, OTick 2); (8, OTick 2); (9, OTick 2); (10, OTick 2); (11, OTick 2); (12, OTick 2);
   (13, OTick 2); (14, OTick 2); (15, OTick 2); (16, OTick 2); (17, OTick 2); (18, OTick 2); (19, OTick 2);
   (20, OTick 2); (21, OTick 2); (22, OTick 2); (23, OTick 2); (24, OTick 2); (25, OTick 2); (26, OTick 2)].

Example C03_nonvacuous_refused_draws :
  hist_ok 20 50 (fun _ => false) ex3_s0 ex3_ops /\
  let s' := run 20 50 (fun _ => false) ex3_s0 ex3_ops in
  (* some of the ticks were refused by the 1 Hz limiter, and the counters still add up to the
     three rows on screen: A (kept), B (kept or live), C *)
  region_count (s_mp s') = 3 /\ ms_attempt 20 (s_mp s') false None 27 = false.
Proof. vm_compute. repeat split. Qed.

(* ================================================================== screen level (model/MultiScreen.v) *)
(** C03_log.  Scope as C02_screen (docs/C03.md): Top alignment, no I/O faults, the MultiProgress on
    a terminal, no bar with a terminal of its own, proviso [FitsAll]; ANY sequence of calls, any
    number of bars, every limiter state / time stamp - histories whose ordinary draws are all
    refused included -, every finish / drop order.
    [hist_log] is read off the calls alone: the lines of every MultiProgress::println, of every
    ProgressBar::println through a member, and every line written by a suspend closure
    (MultiProgress::suspend and ProgressBar::suspend of a member: clause 2 of the property; the
    preservation lemma is MultiScreenProofs.suspend_inv - clear, closure lines, forced draw), in
    call order.  After the history the rows ever written on the terminal are [pre], then EXACTLY the
    wrapping of these lines - each once, in emission order -, then the kept rows and the live
    region (whose row counts are zombie_lines_count and last_line_count), then blank rows only;
    and no printed line is still waiting in orphan_lines. *)
From IndModel Require Import MultiScreen.
From IndProofs Require Import MultiScreenProofs.

Theorem C03_log : forall (W H : N) (pre : list (list N)) (s0 : sys) (t0 : term) (h : list (N * op)),
  1 <= W -> 1 <= H ->
  ms_initial s0 -> ready (N.to_nat W) (N.to_nat H) pre t0 -> FitsAll W H s0 h ->
  let s := fst (fst (ms_run W H (s0, mghost0, t0) h)) in
  let g := snd (fst (ms_run W H (s0, mghost0, t0) h)) in
  let t := snd (ms_run W H (s0, mghost0, t0) h) in
  mg_log g = hist_log W H s0 h
  /\ (exists k, screen (N.to_nat W) t
        = map (pad (N.to_nat W)) (pre ++ wrap (N.to_nat W) (hist_log W H s0 h) ++ mg_kept g ++ mg_live g)
          ++ repeat (repeat SP (N.to_nat W)) k)
  /\ length (mg_kept g) = N.to_nat (ms_zombie_lines (s_mp s))
  /\ length (mg_live g) = N.to_nat (target_n (ms_target (s_mp s)))
  /\ ms_orphans (s_mp s) = [].
Proof. exact c03_log. Qed.
Print Assumptions C03_log.

(** ... after EVERY call of the history *)
Theorem C03_log_every_op : forall (W H : N) (pre : list (list N)) (s0 : sys) (t0 : term)
    (h1 h2 : list (N * op)), 1 <= W -> 1 <= H ->
  ms_initial s0 -> ready (N.to_nat W) (N.to_nat H) pre t0 -> FitsAll W H s0 (h1 ++ h2) ->
  let s := fst (fst (ms_run W H (s0, mghost0, t0) h1)) in
  let g := snd (fst (ms_run W H (s0, mghost0, t0) h1)) in
  let t := snd (ms_run W H (s0, mghost0, t0) h1) in
  mg_log g = hist_log W H s0 h1
  /\ (exists k, screen (N.to_nat W) t
        = map (pad (N.to_nat W)) (pre ++ wrap (N.to_nat W) (hist_log W H s0 h1) ++ mg_kept g ++ mg_live g)
          ++ repeat (repeat SP (N.to_nat W)) k)
  /\ length (mg_kept g) = N.to_nat (ms_zombie_lines (s_mp s))
  /\ length (mg_live g) = N.to_nat (target_n (ms_target (s_mp s)))
  /\ ms_orphans (s_mp s) = [].
Proof. exact c03_log_every_prefix. Qed.
Print Assumptions C03_log_every_op.

(* ------------------------------------------------------------------ non-vacuity (screen level) *)
(** the refused-draws witness above (1 Hz limiter, most ticks skipped, a bar reaped at the head
    while draws are refused), preceded by an earlier shell line, followed by a member println and a
    suspend: the hypotheses hold, and the computed screen shows every printed line once, in order *)
Definition ex3_ops2 : list (N * op) :=
  ex3_ops ++ [(27, OPrintln 2 [109;49;10;109;50]); (28, OMSuspend [[115]]); (29, OTick 2)].

Example C03_log_hypotheses_satisfiable :
  ms_initial ex3_s0 /\ FitsAll 4 50 ex3_s0 ex3_ops2
  /\ ready 4 50 [[36]] (run_ops 4 50 term_init [TLine [36]]).
Proof.
  split.
  - split.
    + intros b. unfold get_bar, nthN. destruct (N.to_nat b) as [|[|[|[|n]]]]; exact I.
    + eexists. repeat split. intros i ls Hi. unfold nthN in Hi. cbn in Hi.
      destruct (N.to_nat i); discriminate Hi.
  - split; [vm_compute; repeat (split || intro)|].
    exact (ready_start 4 50 [[36]] 0 1 ltac:(lia)).
Qed.

Example C03_log_example :
  let st := ms_run 4 50 (ex3_s0, mghost0, run_ops 4 50 term_init [TLine [36]]) ex3_ops2 in
  hist_log 4 50 ex3_s0 ex3_ops2 = [[108;49]; [108;50]; [109;49]; [109;50]; [115]]
  /\ mg_log (snd (fst st)) = [[108;49]; [108;50]; [109;49]; [109;50]; [115]]
  /\ screen 4 (snd st) = map (pad 4) [[36]; [108;49]; [108;50]; [109;49]; [109;50]; [115]; [67;48]].
Proof. vm_compute. repeat split. Qed.

(* ================================================================== outside the provisos *)
(** FitsAll cannot be dropped for the log part.  Text lines themselves are NOT limited by the
    height (FitsAll bounds only the Bar rows and the kept rows: any number of printed lines is
    inside C03_log, they scroll), but when the BAR rows of a painted frame exceed the height,
    draw_to_term stops at the first line that does not fit and leaves the cursor in the middle of
    a row; a following text-only draw continues on that row.  Witness on the model (3 x 1
    terminal, one member whose frame "AAAA" needs 2 rows; Top alignment, no faults, no suspend):
    println "x"; println "y" leave the single row "xy" - two printed lines merged into one row.
    This is the open finding `height-cut-leaves-cursor-mid-row` (D14, registered for C19;
    C19_text_cut_refuted is the single-bar witness); replayed on the implementation by
    harness/src/bin/c03.rs `height_cut_case`. *)
Definition cut_bar : bar := new_bar (Some 10) FAndLeave [PLit [65;65;65;65]] THidden 0.
Definition cut_s0 : sys := mksys [cut_bar] (new_ms (TTerm (new_ttarget None 0))) 0.
Definition cut_h : list (N * op) :=
  [(0, OInsert BEnd 0); (1000000, OTick 0); (2000000, OMPrintln [120]); (3000000, OMPrintln [121])].

Theorem C03_log_outside_fits_refuted :
  let st := ms_run 3 1 (cut_s0, mghost0, term_init) cut_h in
  ms_initial cut_s0 /\ ready 3 1 [] term_init
  /\ MultiSpec.hist_ok 3 1 nofaults cut_s0 cut_h
  /\ ~ FitsAll 3 1 cut_s0 cut_h                              (* the only hypothesis of C03_log that fails *)
  /\ hist_log 3 1 cut_s0 cut_h = [[120]; [121]]              (* two lines were printed *)
  /\ screen 3 (snd st) = [[120; 121; 32]].                   (* one row: "xy " *)
Proof.
  cbn zeta. split.
  - split.
    + intros b. unfold get_bar, nthN. destruct (N.to_nat b) as [|[|n]]; exact I.
    + eexists. repeat split. intros i ls Hi. unfold nthN in Hi. cbn in Hi.
      destruct (N.to_nat i); discriminate Hi.
  - split; [exact (ready_start 3 1 [] 0 0 ltac:(lia))|].
    split; [vm_compute; repeat split|].
    split; [|vm_compute; split; reflexivity].
    intros F. vm_compute in F. destruct F as (_ & (_ & F & _) & _). discriminate (F eq_refl).
Qed.
Print Assumptions C03_log_outside_fits_refuted.

(** The proviso "suspend closures write non-empty lines" (part of FitsAll) hides ONE situation in
    which the implementation loses a printed line: an EMPTY first line written by a suspend closure
    while no frame is on the screen and the last call was a write_str that filled the row exactly
    (text-only draw: the cursor is wrap-pending) only resolves the pending wrap.  Witness on the
    model (5 x 10, no bars): println "hello"; suspend(|| write_line ""); println "x": three lines
    were printed, the screen shows "hello", "x" - the empty line has no row.  Open finding
    `empty-line-after-text-only-draw-swallowed` (C01 and C03; C01_empty_line_swallowed_refuted is
    the single-bar witness; the shared screen oracle reports exactly this class).  FitsAll / FitsAllB
    exclude exactly this state ([closure_ok]: an empty FIRST closure line while last_line_count +
    zombie_lines_count = 0 and cursor_below = false - D28 plus its harmless twin in which the last
    write was a write_line or nothing was written yet); every other empty closure line is inside
    C03_log (C03_empty_closure_lines_covered below). *)
Definition sw_s0 : sys := mksys [] (new_ms (TTerm (new_ttarget None 0))) 0.
Definition sw_h : list (N * op) :=
  [(0, OMPrintln [104;101;108;108;111]); (1000000, OMSuspend [[]]); (2000000, OMPrintln [120])].

Theorem C03_empty_line_swallowed_refuted :
  let st := ms_run 5 10 (sw_s0, mghost0, term_init) sw_h in
  ms_initial sw_s0 /\ ready 5 10 [] term_init
  /\ FitsAll 5 10 sw_s0 (firstn 1 sw_h) /\ ~ FitsAll 5 10 sw_s0 sw_h   (* only the empty closure line is outside *)
  /\ hist_log 5 10 sw_s0 sw_h = [[104;101;108;108;111]; []; [120]]     (* three lines were printed *)
  /\ screen 5 (snd st) = map (pad 5) [[104;101;108;108;111]; [120]]    (* two rows *)
  /\ next_cell 5 (snd st) = (2%nat, 0%nat).
Proof.
  cbn zeta. split.
  - split.
    + intros b. unfold get_bar, nthN. destruct (N.to_nat b) as [|n]; exact I.
    + eexists. repeat split. intros i ls Hi. unfold nthN in Hi. cbn in Hi.
      destruct (N.to_nat i); discriminate Hi.
  - split; [exact (ready_start 5 10 [] 0 0 ltac:(lia))|].
    split; [vm_compute; repeat (split || intro)|].
    split; [|vm_compute; repeat split].
    intros F. vm_compute in F. destruct F as (_ & ((F & _) & _) & _). discriminate F.
Qed.
Print Assumptions C03_empty_line_swallowed_refuted.

(** ==========================================================================================
    Part 4: BOTTOM ALIGNMENT at screen level - either alignment, alignment changes included
    (model/MultiScreenBottom.v, proofs/MultiScreenBottomProofs.v; the ghost and the proviso
    FitsAllB are described above C02_screen_bottom_partial in props/C02.v).
    After every history: the printed lines ([hist_log], read off the calls: println of the
    MultiProgress, println of a member, every line a suspend closure writes) are exactly the
    [LLine] entries of the ghost log, in emission order, each exactly once; the ROWS of that log
    (the wrapped lines, and between them the blank GAP rows - [LGap k] - that suspend leaves under
    Bottom alignment: clear pads the region with k blank rows, fix 96a75c4 forgets them) are on
    the terminal directly below [pre] and ABOVE the kept rows, the padding rows and the live rows,
    whose sizes are the two row counters (zombie_lines_count = |kept|, last_line_count = padding +
    |live|): everything a later draw erases lies below the log.  In particular the three fixed
    Bottom-alignment defects are theorems now: println text stays above the padding of a shrunken
    region (951c29f), an empty frame does not make the region drift into the log (8b11f76), what a
    suspend closure printed is not erased by the redraw (96a75c4).  The log part needs NO D22
    exclusion: it holds in the D22 situation as well (the ghost follows the code there).
    `_partial`: FitsAllB excludes an EMPTY frame under Bottom alignment while the region is as
    tall as the terminal (see props/C02.v); no I/O faults. *)
From IndModel Require Import MultiScreenBottom.
From IndProofs Require Import MultiScreenBottomProofs.

Theorem C03_log_bottom_partial : forall (W H : N) (pre : list (list N)) (s0 : sys) (t0 : term)
    (h : list (N * op)), 1 <= W -> 1 <= H ->
  bs_initial s0 -> ready (N.to_nat W) (N.to_nat H) pre t0 -> FitsAllB W H s0 h ->
  let s := fst (fst (bs_run W H (s0, bghost0, t0) h)) in
  let g := snd (fst (bs_run W H (s0, bghost0, t0) h)) in
  let t := snd (bs_run W H (s0, bghost0, t0) h) in
  log_lines (bg_log g) = hist_log W H s0 h
  /\ (exists k, screen (N.to_nat W) t
        = map (pad (N.to_nat W))
              (pre ++ log_rows (N.to_nat W) (bg_log g) ++ bg_kept g
                   ++ repeat [] (N.to_nat (bg_pad g)) ++ bg_live g)
          ++ repeat (repeat SP (N.to_nat W)) k)
  /\ length (bg_kept g) = N.to_nat (ms_zombie_lines (s_mp s))
  /\ (N.to_nat (bg_pad g) + length (bg_live g))%nat = N.to_nat (target_n (ms_target (s_mp s)))
  /\ ms_orphans (s_mp s) = [].
Proof. exact c03_log_bottom. Qed.
Print Assumptions C03_log_bottom_partial.

(** ... after EVERY call of the history *)
Theorem C03_log_bottom_every_op_partial : forall (W H : N) (pre : list (list N)) (s0 : sys) (t0 : term)
    (h1 h2 : list (N * op)), 1 <= W -> 1 <= H ->
  bs_initial s0 -> ready (N.to_nat W) (N.to_nat H) pre t0 -> FitsAllB W H s0 (h1 ++ h2) ->
  let s := fst (fst (bs_run W H (s0, bghost0, t0) h1)) in
  let g := snd (fst (bs_run W H (s0, bghost0, t0) h1)) in
  let t := snd (bs_run W H (s0, bghost0, t0) h1) in
  log_lines (bg_log g) = hist_log W H s0 h1
  /\ (exists k, screen (N.to_nat W) t
        = map (pad (N.to_nat W))
              (pre ++ log_rows (N.to_nat W) (bg_log g) ++ bg_kept g
                   ++ repeat [] (N.to_nat (bg_pad g)) ++ bg_live g)
          ++ repeat (repeat SP (N.to_nat W)) k)
  /\ length (bg_kept g) = N.to_nat (ms_zombie_lines (s_mp s))
  /\ (N.to_nat (bg_pad g) + length (bg_live g))%nat = N.to_nat (target_n (ms_target (s_mp s)))
  /\ ms_orphans (s_mp s) = [].
Proof. exact c03_log_bottom_every_prefix. Qed.
Print Assumptions C03_log_bottom_every_op_partial.

(* ------------------------------------------------------------------ non-vacuity (Bottom alignment) *)
(** 3 bars A B C on a 4 x 10 terminal below an earlier shell line "$", Bottom alignment.
    [bl_println] = the witness of 951c29f (remove(a); b.finish_and_clear(); c.println("x");
    c.tick()) followed by the witness of 96a75c4 (suspend writing "s"; tick);
    [bl_d22] = a println, then the D22 situation (b.finish_and_clear(); a.finish(); drop(a);
    c.tick()): A's final frame is lost there (C04 / C02_kept_bottom_D22_refuted), the log is not *)
Definition bl_bar (c : N) : bar := new_bar (Some 10) FAndLeave [PLit [c]; PPos] THidden 0.
Definition bl_s0 : sys :=
  mksys [bl_bar 65; bl_bar 66; bl_bar 67] (new_ms (TTerm (new_ttarget None 0))) 0.
Definition bl_t0 : term := run_ops 4 10 term_init [TLine [36]].
Definition bl_setup : list (N * op) :=
  [(0, OSetAlign Bottom); (1, OInsert BEnd 0); (2, OInsert BEnd 1); (3, OInsert BEnd 2);
   (4, OTick 0); (5, OTick 1); (6, OTick 2)].
Definition bl_println : list (N * op) :=
  bl_setup ++ [(7, ORemove 0); (8, OFinish 1 FAndClear); (9, OPrintln 2 [120]); (10, OTick 2);
               (11, OMSuspend [[115]]); (12, OTick 2)].
Definition bl_d22 : list (N * op) :=
  bl_setup ++ [(7, OMPrintln [108]); (8, OFinish 1 FAndClear); (9, OFinish 0 FAndLeave); (10, ODrop 0);
               (11, OTick 2)].

Example C03_log_bottom_hypotheses_satisfiable :
  bs_initial bl_s0 /\ ready 4 10 [[36]] bl_t0
  /\ FitsAllB 4 10 bl_s0 bl_println /\ FitsAllB 4 10 bl_s0 bl_d22
  /\ MultiSpec.hist_ok 4 10 nofaults bl_s0 bl_println /\ MultiSpec.hist_ok 4 10 nofaults bl_s0 bl_d22.
Proof.
  split.
  - split.
    + intros b. unfold get_bar, nthN. destruct (N.to_nat b) as [|[|[|[|n]]]]; exact I.
    + eexists. repeat split. intros i ls Hi. unfold nthN in Hi. cbn in Hi.
      destruct (N.to_nat i); discriminate Hi.
  - split; [exact (ready_start 4 10 [[36]] 0 1 ltac:(lia))|].
    repeat (split; [vm_compute; repeat (split || intro)|]). vm_compute; repeat (split || intro).
Qed.

Example C03_log_bottom_example :
  let st1 := bs_run 4 10 (bl_s0, bghost0, bl_t0) (firstn 11 bl_println) in
  let st2 := bs_run 4 10 (bl_s0, bghost0, bl_t0) bl_println in
  let st3 := bs_run 4 10 (bl_s0, bghost0, bl_t0) bl_d22 in
  (* after c.println("x"); c.tick(): "x" above the padding row *)
  hist_log 4 10 bl_s0 (firstn 11 bl_println) = [[120]]
  /\ snd (fst st1) = mkbg [LLine [120]] [] 1 [[67;48]]
  /\ screen 4 (snd st1) = map (pad 4) [[36]; [120]; []; [67;48]]
  (* after the suspend and one more tick: "x", the gap of 2 rows, "s", the bar *)
  /\ hist_log 4 10 bl_s0 bl_println = [[120]; [115]]
  /\ snd (fst st2) = mkbg [LLine [120]; LGap 2; LLine [115]] [] 0 [[67;48]]
  /\ screen 4 (snd st2) = map (pad 4) [[36]; [120]; []; []; [115]; [67;48]]
  (* the D22 situation: A's row is gone, the printed line "l" is not *)
  /\ hist_log 4 10 bl_s0 bl_d22 = [[108]]
  /\ snd (fst st3) = mkbg [LLine [108]] [[]] 1 [[67;48]]
  /\ screen 4 (snd st3) = map (pad 4) [[36]; [108]; []; []; [67;48]].
Proof. vm_compute. repeat split. Qed.

(** ------------------------------------------------------------------------------------------
    Second audit, m6: the closure proviso of FitsAll / FitsAllB is [closure_ok] now - a suspend
    closure may write ANY lines, empty ones included, except an empty FIRST line while the region
    is empty (last_line_count + zombie_lines_count = 0) and cursor_below is false (the situation of
    C03_empty_line_swallowed_refuted, plus its harmless twin in which the last terminal write was a
    write_line or nothing was written yet: the model state does not tell them apart).  Example:
    empty lines first / in the middle / last while a bar is on screen (the clear of suspend puts
    the cursor at column 0), and an empty first line right after a println that fills the row
    exactly - with a live row below it: inside FitsAll, every line gets its row. *)
Definition ec_s0 : sys :=
  mksys [new_bar (Some 10) FAndLeave [PLit [65]; PPos] THidden 0] (new_ms (TTerm (new_ttarget None 0))) 0.
Definition ec_h : list (N * op) :=
  [(0, OInsert BEnd 0); (1000000, OTick 0); (2000000, OMSuspend [[]; [120]; []]);
   (3000000, OMPrintln [104;101;108;108;111;33]); (4000000, OMSuspend [[]]); (5000000, OTick 0)].

Example C03_empty_closure_lines_covered :
  let st := ms_run 6 10 (ec_s0, mghost0, term_init) ec_h in
  FitsAll 6 10 ec_s0 ec_h
  /\ hist_log 6 10 ec_s0 ec_h = [[]; [120]; []; [104;101;108;108;111;33]; []]
  /\ screen 6 (snd st) = map (pad 6) [[]; [120]; []; [104;101;108;108;111;33]; []; [65;48]].
Proof. split; [vm_compute; repeat (split || intro)|]. vm_compute. repeat split. Qed.
