(** C08 - No deadlock; steady-tick thread lifecycle.
    Only statements; every proof is [exact <lemma from IndProofs.LocksProofs>].
    Model: model/Locks.v; generated lock footprints: gen/LockFootprints.v (tools/locks_extract.py). *)
From IndModel Require Import Base Locks.
From IndGen Require Import LockFootprints.
From IndProofs Require Import LocksProofs.
From Coq Require Import List Arith.
Local Open Scope nat_scope.

(** No deadlock, any number of threads / bars / MultiProgress objects / tickers, any call
    sequences: if every thread starts holding nothing, its program is a concatenation of
    [Ordered] footprints (acquire only strictly above everything held in the rank
    Slot < Bar < Multi < Stop; release only what is held; condvar wait holding exactly the
    condvar's mutex; join only while holding rank-0 resources) and every thread that is spawned
    (and may be joined) never joins or spawns and acquires only rank >= 1, then every reachable
    state in which some started thread is unfinished has an enabled step. *)
Theorem C08_no_deadlock : forall ths s,
  WF ths -> reachable (init ths) s ->
  (exists i t, nth_error (threads s) i = Some t /\ unfinished t = true) ->
  exists j s', step s j = Some s'.
Proof. exact no_deadlock. Qed.
Print Assumptions C08_no_deadlock.

(** Every PATH of every structured program the translator extracted from /repo/src (all public
    methods of ProgressBar, MultiProgress, WeakProgressBar and ProgressDrawTarget, drop/clone, the
    internal pieces; every choice of alternatives, every number of loop iterations, every early
    exit) is Ordered, for every instance of bar / multi / ticker ids; every path of the ticker
    thread's program is Ordered and a legal worker.  A lock-order swap in the Rust source changes
    gen/LockFootprints.v and breaks this proof; a rewrite that keeps every path Ordered does not
    (the flat linearisation [all_footprints] is only a checked view: C08_tables_agree). *)
Theorem C08_footprints_ordered :
  (forall name p, In (name, p) all_programs -> forall tr, paths p tr ->
     cordered tr = true /\ forall b m k, Ordered (map (inst b m k) tr)) /\
  (forall tr, paths ticker_prog tr ->
     forall b m k, Ordered (map (inst b m k) tr) /\ worker_ok (map (inst b m k) tr) = true).
Proof. exact footprints_ordered_paths. Qed.
Print Assumptions C08_footprints_ordered.

(** The order is derived, not assumed: on every path of every generated program the only nestings
    (held class, acquired class) are Slot -> Stop and Bar -> Multi - and both occur. *)
Theorem C08_nesting_derived :
  (forall name p, In (name, p) all_programs -> forall tr, paths p tr ->
     forall x r, In (x, r) (cnest_from [] tr) -> (x, r) = (CSlot, CStop) \/ (x, r) = (CBar, CMulti)) /\
  (exists name p tr, In (name, p) all_programs /\ paths p tr /\
     In (CSlot, CStop) (cnest_from [] tr) /\ In (CBar, CMulti) (cnest_from [] tr)).
Proof. exact nesting_derived_paths. Qed.
Print Assumptions C08_nesting_derived.

(** Regression witness (D9, fixed by 68f1e2d): update() as it was (bar state, then ticker slot)
    is rejected by the discipline, and with it a deadlocked state is reachable: thread 0 in
    update() holds Bar and wants Slot, thread 1 in disable_steady_tick() holds Slot and joins the
    ticker, the ticker wants Bar. *)
Theorem C08_old_update_deadlocks :
  cordered old_update_fp = false /\
  exists s, reachable (init old_pool) s /\
    (exists i t, nth_error (threads s) i = Some t /\ unfinished t = true) /\
    forall i, step s i = None.
Proof. exact old_update_deadlocks. Qed.
Print Assumptions C08_old_update_deadlocks.

(** What the ticker automaton takes for granted about the code, on ALL PATHS of the generated
    programs: the only path of Ticker::stop is lock Stop, set the flag, unlock, notify_one;
    Ticker::drop is stop and then (when it has the handle) join; every path of every
    finish*/abandon* method ends with: release the bar state, lock the slot, (when a ticker is
    installed: stop it), unlock the slot.  (That every condvar wait of the ticker holds exactly the
    Stop mutex is part of Ordered: C08_footprints_ordered.) *)
Theorem C08_stop_protocol_generated :
  (exists p, pg_lookup Ticker_stop_name all_programs = Some p /\
     forall tr, paths p tr -> list_eqb caction_eqb tr stop_fp = true) /\
  (exists p, pg_lookup Ticker_drop_name all_programs = Some p /\
     forall tr, paths p tr ->
       list_eqb caction_eqb tr (stop_fp ++ [CJoin]) || list_eqb caction_eqb tr stop_fp = true) /\
  (forall n, In n finish_names ->
     exists p, pg_lookup n all_programs = Some p /\
       forall tr, paths p tr -> ends_with wake_fp tr || ends_with noticker_wake_fp tr = true).
Proof. exact stop_protocol_paths. Qed.
Print Assumptions C08_stop_protocol_generated.

(** Ticker lifecycle (automaton of TickerControl::run in an arbitrary environment; the answer of
    the time-out oracle is an argument of every ticker step, so the statements hold for every
    interval).  Once the stop flag is set - by disable_steady_tick / enable_steady_tick
    (replace) / drop of the last handle / finish* and abandon* (since 6022e97) - in EVERY
    continuation: at most [exit_bound] = 10 more steps of the ticker thread, at most one more
    tick, at most one more loop iteration begun; after 10 steps it has left run().
    PARTIAL: "promptly" is this step bound; real time and OS scheduling are not modelled. *)
Theorem C08_ticker_exit_bound_partial : forall s tr s',
  flag s = true -> lrun tr s = Some s' ->
  count_LT tr <= exit_bound /\ nticks s' <= nticks s + 1 /\ iters s' <= iters s + 1 /\
  (count_LT tr = exit_bound -> pc s' = TDone).
Proof. exact ticker_exit_bound. Qed.
Print Assumptions C08_ticker_exit_bound_partial.

(** No lost wake-up: in every reachable state in which a stop request is complete (flag set under
    the Stop mutex, notify_one delivered) the ticker is not parked in the condvar, and it never
    parks again - no time-out is needed for it to proceed. *)
Theorem C08_no_lost_wakeup : forall s tr s',
  treach s -> flag s = true -> owed s = false ->
  lrun tr s = Some s' -> pc s' <> TSleep.
Proof. exact no_lost_wakeup_reach. Qed.
Print Assumptions C08_no_lost_wakeup.

(** The Weak upgrade fails (no handle, no upgraded Arc left): no further tick, at most one more
    (failing) iteration. *)
Theorem C08_no_handles_no_ticks : forall tr s s',
  treach s -> strong s = 0 -> tarc s = false -> lrun tr s = Some s' ->
  nticks s' = nticks s /\ iters s' <= iters s + 1.
Proof. exact no_handles_no_ticks_reach. Qed.
Print Assumptions C08_no_handles_no_ticks.

(** A finished bar is not ticked by its ticker (only a tick already past the is_finished check
    can still happen), as long as it is not reset. *)
Theorem C08_finished_not_ticked : forall tr s s',
  lrun tr s = Some s' -> fin s = true -> no_reset tr = true ->
  nticks s' <= nticks s + tickfuel_fin (pc s).
Proof. exact finished_no_more_ticks. Qed.
Print Assumptions C08_finished_not_ticked.

(** The join in Ticker::drop completes: from a reachable state with a complete stop request in
    which the other threads do not hold the bar-state and stop mutexes, the ticker thread alone
    reaches the end of run() within 10 of its own steps, for every time-out oracle and without
    any wake-up event; a finished thread enables the Join step of the lock model.
    PARTIAL: that the other threads release those mutexes is C08_no_deadlock plus scheduler
    fairness, which is not modelled.  The automaton has no MultiState lock: the real thread also takes
    it inside state.tick() (draw) and inside drop(arc) when it holds the last reference, so the
    premise must be read as "bar state, stop AND MultiState lock not held by other threads" (e.g. not
    inside a MultiProgress::suspend closure); user callbacks run by tick are assumed to return. *)
Theorem C08_join_terminates_partial :
  (forall os s, treach s -> flag s = true -> owed s = false ->
     barl s <> ByEnv -> stopl s <> ByEnv ->
     pc (run_ticker os exit_bound s) = TDone) /\
  (forall s sl u tu, lookup sl (jslot s) = Some u -> nth_error (threads s) u = Some tu ->
     done tu = true -> enabled s (Join sl) = true).
Proof. exact join_terminates_reach. Qed.
Print Assumptions C08_join_terminates_partial.

(** Tie of the one-line model [Locks.tick_inner] to the source (the theorems about it below are
    DEFINITIONAL - they restate a hand transcription): the generated source pins are literally the
    bodies of ProgressBar::tick_inner and BarState::tick, and the body of TickerControl::run is literally the
    loop that the ticker automaton transcribes (a textual pin: a change of run() breaks this theorem and
    forces a review of the automaton; it is not a semantic tie); in the generated program of
    ProgressBar::tick the no-tick path "lock the slot, unlock it" exists; and on every path of every
    generated program BarState::tick (CTick) runs while the bar state is locked. *)
Theorem C08_tick_transcription :
  (src_tick_inner = src_tick_inner_expected /\ src_barstate_tick = src_barstate_tick_expected /\
   src_ticker_run = src_ticker_run_expected) /\
  (exists p, pg_lookup ProgressBar_tick_name all_programs = Some p /\ paths p [CAcq CSlot; CRel CSlot]) /\
  (forall name p, In (name, p) all_programs -> forall tr, paths p tr -> tick_guarded tr = true).
Proof. exact tick_transcription. Qed.
Print Assumptions C08_tick_transcription.

(** Tie of the ticker automaton to the GENERATED program of TickerControl::run (gen/LockFootprints.ticker_prog,
    regenerated from the source on every run), modulo the explicit abstraction [tproj] = erase the MultiState
    lock (CAcq/CRel CMulti) and the callbacks (CCallback), which the automaton does not model; the automaton's
    TCheckFin and the non-parking outcomes of TCheckStop produce no event, TSleep = CWaitRel CStop, TRelock =
    the following CAcq CStop.  [automaton_iteration ev] = some run of [lstep] labels (ticker steps with any
    time-out answers, environment labels) of a freshly spawned ticker [tinit fi st false] (any finished flag,
    any number of handles) that begins exactly one loop iteration and ends at the loop head or at the end of
    run(), producing the events [ev].
    (1) EVERY path of the generated loop body is, after [tproj], the event sequence of such a run - so the
        protocol theorems about the automaton are about the code's paths; a change of the lock/condvar
        structure of run() breaks this theorem (executable check [ticker_body_refines]: the abstract
        interpreter with a 10-state acceptor, sound by acheck_sound; [dfa_words] classifies what it accepts).
    (2) Conversely the three families of automaton iterations (upgrade fails / bar finished / tick then n
        rounds of park + re-acquire, every n) are automaton runs, and
    (3) those with n <= 3 are projections of paths of the generated body (bounded enumeration [enum_k]).
    PARTIAL: not proved: that EVERY one-iteration run of the automaton yields a member of the three families
    (only the converse inclusion), and (3) for n > 3. *)
Theorem C08_ticker_automaton_refines_generated_partial :
  exists body, ticker_prog = PLoop body /\
    (forall tr, paths body tr -> automaton_iteration (tproj tr)) /\
    (automaton_iteration it_upgrade_fails /\ automaton_iteration it_finished /\
     forall n, automaton_iteration (it_tick n)) /\
    (forall w, In w (fam_upto 3) -> exists tr, paths body tr /\ tproj tr = w).
Proof. exact ticker_automaton_refines_generated. Qed.
Print Assumptions C08_ticker_automaton_refines_generated_partial.

(** (Definitional, about the hand-written [tick_inner]; tied to the source by C08_tick_transcription and by
    the harness cases CManualTick.)  Manual tick() while a ticker is installed (tick_inner: `if self.ticker.lock().is_none()`,
    progress_bar.rs:235-240) leaves the spinner tick unchanged, any number of times; without a
    ticker each call adds one (saturating). *)
Theorem C08_manual_tick_noop :
  (forall n tk, Nat.iter n (tick_inner false) tk = tk) /\
  (forall tk, tick_inner true tk = sat_add64 tk 1).
Proof. exact manual_tick_thm. Qed.
Print Assumptions C08_manual_tick_noop.

(** (About the hand-written automaton: "redraw" = the ghost counter [nticks]; no liveness - that time-outs
    fire and iterations recur is not modelled; frames reaching the terminal are checked by the harness only.)
    The ticker redraws without manual ticks: a loop body that is not cut short (live, unfinished
    bar, free locks) performs exactly one BarState::tick under the bar lock and ends in the stop
    check; and in every trace the number of ticks is at most the number of iterations begun. *)
Theorem C08_ticker_ticks_once_per_iteration :
  (forall os s, pc s = TUpgrade -> strong s <> 0 -> fin s = false -> barl s = Free -> stopl s = Free ->
     let s' := run_ticker os 7 s in
     pc s' = TCheckStop /\ nticks s' = S (nticks s) /\ iters s' = S (iters s) /\
     barl s' = Free /\ tarc s' = false) /\
  (forall tr s s', lrun tr s = Some s' ->
     nticks s' + tickcap (pc s') + iters s <= nticks s + tickcap (pc s) + iters s').
Proof. exact ticks_once_thm. Qed.
Print Assumptions C08_ticker_ticks_once_per_iteration.

(** Regression (the code before 6022e97, where finish() did not stop the ticker): while the flag
    is not set and the deadline has not passed, a ticker in its wait stays there - notifies and
    spurious wake-ups do not end the wait.  So exiting after finish() depended on the interval. *)
Theorem C08_parked_until_timeout : forall tr s s',
  lrun tr s = Some s' -> forallb quiet tr = true -> flag s = false -> in_wait (pc s) = true ->
  in_wait (pc s') = true.
Proof. exact parked_until_timeout. Qed.
Print Assumptions C08_parked_until_timeout.

(** Structured programs (gen/LockFootprints.all_programs: the control flow of every method body,
    branches / loops / early exits, guards released where they die on each path).  The executable
    check [prog_ordered] (abstract interpretation with the set of possible held lists at every program
    point, loop entry sets invariant) is sound: every path - every choice of alternatives, every
    number of loop iterations - starts holding nothing, respects the discipline, ends holding
    nothing. *)
Theorem C08_prog_ordered_sound : forall p, prog_ordered p = true ->
  forall tr, paths p tr -> cordered tr = true.
Proof. exact prog_ordered_sound. Qed.
Print Assumptions C08_prog_ordered_sound.

(** Every path of every generated program is Ordered, for every instance of bar / multi / ticker
    ids (vm_compute of [prog_ordered] over the generated table + the soundness theorem). *)
Theorem C08_all_paths_ordered : forall name p, In (name, p) all_programs ->
  forall tr, paths p tr ->
  cordered tr = true /\ forall b m k, Ordered (map (inst b m k) tr).
Proof. exact all_paths_ordered. Qed.
Print Assumptions C08_all_paths_ordered.

(** ... also with all actions on one lock class erased: a bar that is not a member of a
    MultiProgress runs the same paths without the Multi acquisitions (the programs model
    ProgressDrawTarget::drawable by its only locking arm), a bar without ticker without Stop. *)
Theorem C08_all_paths_erased_ordered : forall name p, In (name, p) all_programs ->
  forall tr, paths p tr -> forall c, cordered (cerase c tr) = true.
Proof. exact all_paths_erased_ordered. Qed.
Print Assumptions C08_all_paths_erased_ordered.

(** The two generated tables agree: the textual-order linearisation of each structured program is
    the flat footprint of the same name (used by C08_footprints_ordered, C08_stop_protocol_generated
    and C02_atomic_brackets_generated). *)
Theorem C08_tables_agree :
  map (fun np : String.string * cprog => (fst np, linear (snd np))) all_programs = all_footprints.
Proof. exact generated_tables_agree. Qed.
Print Assumptions C08_tables_agree.

(** The ticker thread: every path of the generated program of TickerControl::run (any number of
    loop iterations, every early exit) is Ordered and a legal worker. *)
Theorem C08_ticker_paths_worker : forall tr, paths ticker_prog tr ->
  forall b m k, Ordered (map (inst b m k) tr) /\ worker_ok (map (inst b m k) tr) = true.
Proof. exact ticker_paths_worker. Qed.
Print Assumptions C08_ticker_paths_worker.

(** No deadlock, with the hypothesis stated over the generated programs: every thread starts
    holding nothing and runs a concatenation of instances of PATHS of generated programs
    ([WFp]; spawned threads are workers - e.g. paths of [ticker_prog], C08_ticker_paths_worker). *)
Theorem C08_no_deadlock_paths : forall ths s,
  WFp all_programs ths -> reachable (init ths) s ->
  (exists i t, nth_error (threads s) i = Some t /\ unfinished t = true) ->
  exists j s', step s j = Some s'.
Proof. exact no_deadlock_paths. Qed.
Print Assumptions C08_no_deadlock_paths.

(** Treating RwLock::read as exclusive is conservative: the same theorem holds for EVERY lock
    implementation [en] in which a free lock can be taken (the exclusive semantics [step] is the
    least permissive one) - in particular with shared readers ([en_shared]). *)
Theorem C08_no_deadlock_any_lock_semantics : forall en,
  (forall s i a, enabled s a = true -> en s i a = true) ->
  forall ths s, WFp all_programs ths -> greachable en (init ths) s ->
  (exists i t, nth_error (threads s) i = Some t /\ unfinished t = true) ->
  exists j s', gstep en s j = Some s'.
Proof. exact no_deadlock_paths_g. Qed.
Print Assumptions C08_no_deadlock_any_lock_semantics.

Theorem C08_no_deadlock_shared_reads : forall reader ths s,
  WFp all_programs ths -> greachable (en_shared reader) (init ths) s ->
  (exists i t, nth_error (threads s) i = Some t /\ unfinished t = true) ->
  exists j s', gstep (en_shared reader) s j = Some s'.
Proof. exact no_deadlock_shared_reads. Qed.
Print Assumptions C08_no_deadlock_shared_reads.

(* ---- non-vacuity ---- *)
(** a well-formed pool (update() as it is now, enable + disable, the ticker) and an unfinished
    reachable state of it *)
Example C08_nonvacuous_WF : WF new_pool /\
  exists s, reachable (init new_pool) s /\
    exists i t, nth_error (threads s) i = Some t /\ unfinished t = true.
Proof.
  split; [exact new_pool_WF|].
  exists (init new_pool). split; [apply reach_refl|]. exists 0. eexists. split; reflexivity.
Qed.

(** a reachable state with a complete stop request and free locks (ticker parked, then stop()) *)
Example C08_nonvacuous_settled : exists s,
  treach s /\ flag s = true /\ owed s = false /\ barl s <> ByEnv /\ stopl s <> ByEnv.
Proof. destruct ex_settled as (s & _ & H1 & H2 & H3 & H4 & H5 & _). exists s. auto. Qed.

(** a path of a generated footprint: tick() while a ticker is installed takes only the slot *)
Example C08_thin_tick_installed :
  Thin (map (inst 0 0 0) [CAcq CSlot; CRel CSlot; CAcq CBar; CTick; CCallback; CAcq CMulti; CCallback; CRel CMulti; CRel CBar])
       [Acq (Slot 0); Rel (Slot 0)].
Proof.
  apply (thin_del [Acq (Slot 0); Rel (Slot 0)]
           [Acq (Bar 0); Local 1; Local 0; Acq (Multi 0); Local 0; Rel (Multi 0); Rel (Bar 0)] []).
  - apply (Bal_acq_rel (Bar 0) [Local 1; Local 0; Acq (Multi 0); Local 0; Rel (Multi 0)]).
    apply (Bal_app [Local 1] ([Local 0] ++ [Acq (Multi 0); Local 0; Rel (Multi 0)])).
    + apply Bal_nonblocking. exact I.
    + apply Bal_app.
      * apply Bal_nonblocking. exact I.
      * apply (Bal_acq_rel (Multi 0) [Local 0]). apply Bal_nonblocking. exact I.
  - apply thin_refl.
Qed.

(** the old finish(): parked ticker, finish without stop, any number of notifies: still waiting *)
Example C08_old_finish_parks :
  exists s s', lrun [LLockBar; LFinish; LUnlockBar; LNotify; LT false; LT false; LNotify] s = Some s' /\
    flag s = false /\ pc s = TSleep /\ fin s' = true /\ pc s' = TRelock.
Proof.
  exists (run_ticker (fun _ => false) 8 (tinit false 1 false)). eexists.
  split; [vm_compute; reflexivity|]. repeat split.
Qed.

(** shared readers are strictly more permissive: two readers hold Multi 0 together, which the
    exclusive semantics refuses *)
Example C08_shared_readers_example :
  exists s1 s2, gstep (en_shared (fun _ => true)) (init rd_pool) 0 = Some s1 /\
                gstep (en_shared (fun _ => true)) s1 1 = Some s2 /\
                step s1 1 = None /\
                forallb (fun t => holds t (Multi 0)) (threads s2) = true.
Proof. exact shared_readers_example. Qed.

(** a path of a generated program *)
Example C08_paths_example :
  exists p, In (is_finished_name, p) all_programs /\ paths p [CAcq CBar; CRel CBar].
Proof. exact paths_example. Qed.

(** a pool given by PATHS of generated programs, with spawn and join: thread 0 = enable_steady_tick on the
    path "no ticker yet: spawn", disable_steady_tick on the path "ticker installed: stop, join", drop of a
    handle; thread 1 (spawned by thread 0) = one iteration of the ticker program leaving through the early
    exit "bar finished"; [spawns_ok] is discharged by C08_ticker_paths_worker *)
Example C08_nonvacuous_WFp :
  WFp all_programs wfp_pool /\
  List.length wfp_segs = 3 /\
  In (Spawn 0 1) (code (nth 0 wfp_pool (wthread []))) /\
  In (Join 0) (code (nth 0 wfp_pool (wthread []))) /\
  wfp_ticker_path = [CUpgrade; CAcq CBar; CRel CBar; CDropArc].
Proof. exact wfp_pool_WFp. Qed.
