(** C01 - single-bar redraw integrity: terminal = printed lines + current frame.
    Model: model/Sys.v (drawing system), model/Draw.v (draw_to_term), model/Term.v (terminal,
    an ASSUMPTION validated against the vt100 crate), model/SingleBar.v (configuration, ghost
    log/frame, Fits).  Proofs: proofs/TermProofs.v, proofs/SingleBarProofs.v. *)
From Coq Require Import List NArith Lia.
From IndModel Require Import SingleBar SysCheck.
From IndProofs Require Import TermProofs SingleBarProofs.
From Coq Require Import String.
Import ListNotations.
Open Scope N_scope.

(** For every terminal size W >= 1, H >= 1, every initial single-bar configuration [s0] (any
    template, message, prefix, position, length, finish behaviour, limiter states), every terminal
    [t0] in which earlier output [pre] has been written and whose cursor is on a fresh line, every
    timed op history [h] over the C01 alphabet outside ONE excluded situation ([hist_ok]: no suspend
    closure writes an EMPTY FIRST line while no frame is on the screen and the last call was a
    write_str - open finding 'empty-line-after-text-only-draw-swallowed', refuted below), under the
    proviso [Fits] (the bar rows of every PAINTED frame fit the height):
    executing all emitted TermLike calls on the terminal gives exactly
        pre ++ wrap W log ++ wrap W frame      (as rows of W cells; only blank rows below)
    where log = lines given to println + lines written by suspend closures, frame = rendering of
    the bar state at the last painted draw; and one more character would land at column 0 of the
    first row below. *)
Theorem C01_screen :
  forall (W H : N) (pre : list (list N)) (s0 : sys) (t0 : term) (h : list (N * op)),
  1 <= W -> 1 <= H ->
  sb_initial s0 -> ready (N.to_nat W) (N.to_nat H) pre t0 -> hist_ok W H s0 (ghost_for t0) h -> Fits W H s0 h ->
  let g := snd (fst (sb_run W H (s0, ghost_for t0, t0) h)) in
  let t := snd (sb_run W H (s0, ghost_for t0, t0) h) in
  (exists k, screen (N.to_nat W) t
             = map (pad (N.to_nat W)) (expected_rows W pre g) ++ repeat (repeat SP (N.to_nat W)) k)
  /\ next_cell (N.to_nat W) t = (List.length (expected_rows W pre g), 0%nat).
Proof. intros W H pre s0 t0 h HW HH. exact (c01_screen W H HW HH pre s0 t0 h). Qed.
Print Assumptions C01_screen.

(** ... after EVERY op: the same for each prefix of a history that meets the hypotheses *)
Theorem C01_screen_after_every_op :
  forall (W H : N) (pre : list (list N)) (s0 : sys) (t0 : term) (h1 h2 : list (N * op)),
  1 <= W -> 1 <= H ->
  sb_initial s0 -> ready (N.to_nat W) (N.to_nat H) pre t0 ->
  hist_ok W H s0 (ghost_for t0) (h1 ++ h2) -> Fits W H s0 (h1 ++ h2) ->
  let g := snd (fst (sb_run W H (s0, ghost_for t0, t0) h1)) in
  let t := snd (sb_run W H (s0, ghost_for t0, t0) h1) in
  (exists k, screen (N.to_nat W) t
             = map (pad (N.to_nat W)) (expected_rows W pre g) ++ repeat (repeat SP (N.to_nat W)) k)
  /\ next_cell (N.to_nat W) t = (List.length (expected_rows W pre g), 0%nat).
Proof. exact c01_screen_every_prefix. Qed.
Print Assumptions C01_screen_after_every_op.

(** the fresh terminal is a well-formed start (pre = []) *)
Example C01_fresh_terminal : forall W H : nat, ready W H [] term_init.
Proof. intros W H. exact (ready_start W H [] 0 0 (Nat.le_0_l _)). Qed.

(** rows are compared as W cells: [chunks] cuts a string into rows of W cells *)
Example C01_wrap_example :
  wrap 5 [t "abcdefghijklm"; t ""; t "12345"] = [t "abcde"; t "fghij"; t "klm"; t ""; t "12345"].
Proof. reflexivity. Qed.

(** A non-trivial history that meets every hypothesis: W = 5, H = 10, template "{msg}\n{pos}/{len}",
    a message that wraps to three rows, a multi-line println with an empty line, a shrink to a
    one-row message, an inc, a println of an empty message, finish_and_clear. *)
Definition ex_s0 : sys :=
  mksys [new_bar (Some 3) FAndLeave [PMsg; PNewLine; PPos; PLit (t "/"); PLen]
                 (TTerm (new_ttarget None 0)) 0] (new_ms THidden) 0.
Definition ex_h : list (N * op) :=
  [(1000000000, OSetMsg 0 (t "abcdefghijklm"));
   (2000000000, OPrintln 0 (t "line one is long" ++ [NL; NL] ++ t "xy"));
   (3000000000, OSetMsg 0 (t "ab"));
   (4000000000, OInc 0 2);
   (5000000000, OSuspend 0 [t "from the closure"]);
   (6000000000, OPrintln 0 []);
   (7000000000, OFinish 0 FAndClear)].

Example C01_hypotheses_satisfiable :
  sb_initial ex_s0 /\ hist_ok 5 10 ex_s0 ghost0 ex_h /\ Fits 5 10 ex_s0 ex_h
  /\ ready 5 10 [t "$ run"] (run_ops 5 10 term_init [TLine (t "$ run")]).
Proof.
  split; [eexists; eexists; repeat split|].
  split; [vm_compute; reflexivity|]. split; [vm_compute; reflexivity|].
  exact (ready_start 5 10 [t "$ run"] 0 1 ltac:(lia)).
Qed.

(** what the theorem says about it, computed: after the third op (the shrink) and at the end *)
Example C01_example_after_shrink :
  let st := sb_run 5 10 (ex_s0, ghost0, term_init) (firstn 3 ex_h) in
  g_log (snd (fst st)) = [t "line one is long"; t ""; t "xy"]
  /\ map lt (g_frame (snd (fst st))) = [t "ab"; t "0/3"]
  /\ screen 5 (snd st)
     = map (pad 5) [t "line "; t "one i"; t "s lon"; t "g"; t ""; t "xy"; t "ab"; t "0/3"; t ""; t ""].
Proof. vm_compute. repeat split. Qed.

Example C01_example_at_the_end :
  let st := sb_run 5 10 (ex_s0, ghost0, term_init) ex_h in
  map lt (g_frame (snd (fst st))) = []
  /\ screen 5 (snd st)
     = map (pad 5) [t "line "; t "one i"; t "s lon"; t "g"; t ""; t "xy";
                    t "from "; t "the c"; t "losur"; t "e"; t ""; t ""; t ""]
  /\ next_cell 5 (snd st) = (11%nat, 0%nat).
Proof. vm_compute. repeat split. Qed.

(** The excluded situation is a genuine deviation (open finding, harness class
    'empty-line-after-text-only-draw-swallowed', reproduced on the real code by bins c01/c03):
    finish_and_clear; println "hello" paints a text line only and leaves the cursor wrap-pending at
    the right edge (last_line_count = 0); the EMPTY first line of the suspend closure then only
    resolves the pending wrap: it gets no row of its own (2 log rows demanded, 1 on the screen, the
    next output starts where the empty row should be). *)
Definition swallow_h : list (N * op) :=
  [(1000000000, OFinish 0 FAndClear); (2000000000, OPrintln 0 (t "hello"));
   (3000000000, OSuspend 0 [[]])].

Theorem C01_empty_line_swallowed_refuted :
  let st := sb_run 5 10 (ex_s0, ghost0, term_init) swallow_h in
  sb_initial ex_s0 /\ ready 5 10 [] term_init /\ Fits 5 10 ex_s0 swallow_h
  /\ hist_okb 5 10 ex_s0 ghost0 (firstn 2 swallow_h) = true     (* fine up to the suspend ... *)
  /\ hist_okb 5 10 ex_s0 ghost0 swallow_h = false               (* ... which is the excluded situation *)
  /\ g_log (snd (fst st)) = [t "hello"; []]
  /\ List.length (expected_rows 5 [] (snd (fst st))) = 2%nat    (* the property demands two rows *)
  /\ screen 5 (snd st) = map (pad 5) [t "hello"; t ""]          (* "hello" and the blank cursor row *)
  /\ next_cell 5 (snd st) = (1%nat, 0%nat).                     (* the next output lands on row 1, not 2 *)
Proof.
  cbv zeta. split; [eexists; eexists; repeat split|].
  split; [exact (ready_start 5 10 [] 0 0 (Nat.le_0_l _))|].
  vm_compute. repeat split.
Qed.
Print Assumptions C01_empty_line_swallowed_refuted.

(** ... and it is the ONLY excluded closure output: an empty first line while a frame is visible
    (the clear of suspend leaves the cursor at column 0), empty lines after the first, an empty
    first line on a fresh terminal are inside [hist_ok] and get their rows. *)
Example C01_empty_closure_lines_covered :
  let h := [(1000000000, OSuspend 0 [[]]);                      (* fresh terminal: column 0 *)
            (2000000000, OSetMsg 0 (t "ab"));
            (3000000000, OSuspend 0 [[]; t "x"; []]);           (* frame visible *)
            (4000000000, OFinish 0 FAndClear);
            (5000000000, OPrintln 0 (t "hello"));
            (6000000000, OSuspend 0 [t "y"; []])] in            (* empty line, but not the first *)
  let st := sb_run 5 10 (ex_s0, ghost0, term_init) h in
  hist_ok 5 10 ex_s0 ghost0 h /\ Fits 5 10 ex_s0 h
  /\ g_log (snd (fst st)) = [[]; []; t "x"; []; t "hello"; t "y"; []]
  /\ screen 5 (snd st) = map (pad 5) [t ""; t ""; t "x"; t ""; t "hello"; t "y"; t ""; t ""]
  /\ next_cell 5 (snd st) = (7%nat, 0%nat).
Proof. vm_compute. repeat split. Qed.
